//! `check <Cxx> [quick|thorough] [--seed N]` — runs one property's workload and monitor.

use mdnsverif::report::Report;
use mdnsverif::{props, util, Tier};

fn main() {
    let args: Vec<String> = std::env::args().collect();
    let prop = args.get(1).cloned().unwrap_or_default();
    let mut tier_name = std::env::var("VERIF_TIER").unwrap_or_else(|_| "quick".to_string());
    let mut seed: u64 = std::env::var("VERIF_SEED")
        .ok()
        .and_then(|s| s.parse().ok())
        .unwrap_or(1);
    let mut i = 2;
    while i < args.len() {
        match args[i].as_str() {
            "quick" | "thorough" => tier_name = args[i].clone(),
            "--tier" => {
                i += 1;
                tier_name = args.get(i).cloned().unwrap_or(tier_name);
            }
            "--seed" => {
                i += 1;
                seed = args.get(i).and_then(|s| s.parse().ok()).unwrap_or(seed);
            }
            _ => {}
        }
        i += 1;
    }
    util::install_panic_hook();
    if prop == "C14-partB" {
        // helper of C14's thorough tier (the shards of the ThreadSanitizer build)
        let n = args.get(2).and_then(|s| s.parse().ok()).unwrap_or(10);
        let s = args.get(3).and_then(|s| s.parse().ok()).unwrap_or(1);
        let out = args.get(4).cloned().unwrap_or_else(|| "/dev/null".into());
        std::process::exit(props::c14::run_part_b_only(n, s, &out));
    }
    let tier = Tier::from_env(&tier_name);
    let report = Report::new(&prop, tier.name(), seed);

    // Whole-run watchdog: firing is inconclusive, never a violation.
    let limit = tier.budget_s * 4.0 + 300.0;
    let p2 = prop.clone();
    std::thread::spawn(move || {
        std::thread::sleep(std::time::Duration::from_secs_f64(limit));
        println!("INCONCLUSIVE property={p2} reason=whole-run watchdog ({limit:.0}s) fired");
        std::process::exit(2);
    });

    match prop.as_str() {
        "C01" => props::c01::run(&report, &tier),
        "C02" => props::c02::run(&report, &tier),
        "C03" => props::c03::run_c03(&report, &tier),
        "C04" => props::c04::run(&report, &tier),
        "C05" => props::c03::run_c05(&report, &tier),
        "C06" => props::c06::run(&report, &tier),
        "C07" => props::c07::run(&report, &tier),
        "C08" => props::c08::run(&report, &tier),
        "C09" => props::c09::run(&report, &tier),
        "C18" => props::c18::run(&report, &tier),
        "C10" => props::c10::run(&report, &tier),
        "C11" => props::c11::run(&report, &tier),
        "C12" => props::c12::run(&report, &tier),
        "C13" => props::c13::run(&report, &tier),
        "C17" => props::c17::run(&report, &tier),
        "C20" => props::c20::run(&report, &tier),
        "C19" => props::c19::run(&report, &tier),
        "C14" => props::c14::run(&report, &tier),
        "C15" => props::c15::run(&report, &tier),
        "C16" => props::c16::run(&report, &tier),
        "lab6" => {
            props::lab6();
            return;
        }
        "lab7" => {
            props::lab7();
            return;
        }
        "lab8" => {
            props::lab8();
            return;
        }
        "lab9" => {
            props::lab9();
            return;
        }
        "lab5" => {
            props::lab5();
            return;
        }
        "lab4" => {
            props::lab4();
            return;
        }
        "lab3" => {
            props::lab3();
            return;
        }
        "lab2" => {
            props::lab2();
            return;
        }
        "lab" => {
            props::lab();
            return;
        }
        _ => {
            eprintln!("usage: check <C01..C20> [quick|thorough] [--seed N]");
            std::process::exit(2);
        }
    }
    std::process::exit(report.finish());
}
