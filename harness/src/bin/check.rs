use mdnsverif::world::*;
use mdnsverif::*;
use std::net::IpAddr;

fn lab() {
    util::install_panic_hook();
    let mut w = World::new(1);
    w.record_gates = false;
    let h = w.add_host(vec![IfSpec::new("eth0", 2, 0, &[("10.0.0.5", 24)])]);
    let mon = w.monitor(h);
    let addrs: Vec<IpAddr> = vec!["10.0.0.5".parse().unwrap()];
    let reg = World::reg_info("_t._udp.local.", "inst", "host.local.", &addrs, 80, &[("k", Some(b"v"))]);
    w.register(h, reg);
    let b = w.browse(h, "_t._udp.local.");
    w.run_for(5000);
    for l in w.trace.render(0, 200) {
        println!("{l}");
    }
    println!("mon={mon:?} browse={b:?} iterations={}", w.total_iterations);
}

fn main() {
    let args: Vec<String> = std::env::args().collect();
    if args.get(1).map(|s| s.as_str()) == Some("lab") {
        lab();
    }
}
