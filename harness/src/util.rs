//! Small deterministic PRNG, hashing and a panic recorder.

use std::collections::HashMap;
use std::sync::Mutex;

/// SplitMix64: used to derive per-scenario seeds.
pub fn splitmix(x: u64) -> u64 {
    let mut z = x.wrapping_add(0x9E37_79B9_7F4A_7C15);
    z = (z ^ (z >> 30)).wrapping_mul(0xBF58_476D_1CE4_E5B9);
    z = (z ^ (z >> 27)).wrapping_mul(0x94D0_49BB_1331_11EB);
    z ^ (z >> 31)
}

pub fn mix(a: u64, b: u64) -> u64 {
    splitmix(splitmix(a) ^ b.wrapping_mul(0xD6E8_FEB8_6659_FD93))
}

/// xoshiro256**
#[derive(Clone)]
pub struct Rng {
    s: [u64; 4],
}

impl Rng {
    pub fn new(seed: u64) -> Self {
        let mut x = seed;
        let mut s = [0u64; 4];
        for v in s.iter_mut() {
            x = splitmix(x);
            *v = x;
        }
        Self { s }
    }

    pub fn u64(&mut self) -> u64 {
        let r = self.s[1].wrapping_mul(5).rotate_left(7).wrapping_mul(9);
        let t = self.s[1] << 17;
        self.s[2] ^= self.s[0];
        self.s[3] ^= self.s[1];
        self.s[1] ^= self.s[2];
        self.s[0] ^= self.s[3];
        self.s[2] ^= t;
        self.s[3] = self.s[3].rotate_left(45);
        r
    }

    /// Uniform in 0..n (n > 0).
    pub fn below(&mut self, n: u64) -> u64 {
        debug_assert!(n > 0);
        self.u64() % n
    }

    /// Uniform in lo..=hi.
    pub fn range(&mut self, lo: u64, hi: u64) -> u64 {
        lo + self.below(hi - lo + 1)
    }

    pub fn usize(&mut self, n: usize) -> usize {
        self.below(n as u64) as usize
    }

    /// True with probability num/den.
    pub fn chance(&mut self, num: u64, den: u64) -> bool {
        self.below(den) < num
    }

    pub fn pick<'a, T>(&mut self, v: &'a [T]) -> &'a T {
        &v[self.usize(v.len())]
    }

    pub fn shuffle<T>(&mut self, v: &mut [T]) {
        for i in (1..v.len()).rev() {
            let j = self.usize(i + 1);
            v.swap(i, j);
        }
    }

    pub fn bytes(&mut self, n: usize) -> Vec<u8> {
        (0..n).map(|_| self.u64() as u8).collect()
    }
}

/// The first `n` bytes of `s`, cut back to a character boundary.
pub fn prefix(s: &str, n: usize) -> &str {
    let mut end = n.min(s.len());
    while !s.is_char_boundary(end) {
        end -= 1;
    }
    &s[..end]
}

/// FNV-1a, for counting distinct abstract cases.
pub fn fnv(data: &[u8]) -> u64 {
    let mut h: u64 = 0xcbf29ce484222325;
    for b in data {
        h ^= *b as u64;
        h = h.wrapping_mul(0x100000001b3);
    }
    h
}

pub fn fnv_str(s: &str) -> u64 {
    fnv(s.as_bytes())
}

// ---------------------------------------------------------------------------
// Panic recorder

#[derive(Clone, Debug)]
pub struct PanicInfo {
    pub msg: String,
    pub file: String,
    pub line: u32,
}

static DAEMON_PANICS: Mutex<Option<HashMap<u64, PanicInfo>>> = Mutex::new(None);

thread_local! {
    static LAST_PANIC: std::cell::RefCell<Option<PanicInfo>> = const { std::cell::RefCell::new(None) };
}

/// Installs a quiet panic hook that records what panicked where:
/// per simulated daemon (by context tag) and per harness thread.
pub fn install_panic_hook() {
    std::panic::set_hook(Box::new(|info| {
        let msg = if let Some(s) = info.payload().downcast_ref::<&str>() {
            s.to_string()
        } else if let Some(s) = info.payload().downcast_ref::<String>() {
            s.clone()
        } else if let Some(i) = info.payload().downcast_ref::<crate::world::Inconclusive>() {
            format!("inconclusive: {}", i.0)
        } else {
            "<non-string panic payload>".to_string()
        };
        let (file, line) = info
            .location()
            .map(|l| (l.file().to_string(), l.line()))
            .unwrap_or_default();
        let p = PanicInfo { msg, file, line };
        if std::env::var_os("VERIF_SHOW_PANICS").is_some() {
            eprintln!("[panic] {} at {}:{}", p.msg, p.file, p.line);
        }
        if let Some(tag) = mdns_sd::verif::ctx_tag() {
            let mut g = match DAEMON_PANICS.lock() {
                Ok(g) => g,
                Err(e) => e.into_inner(),
            };
            g.get_or_insert_with(HashMap::new).insert(tag, p);
        } else {
            LAST_PANIC.with(|l| *l.borrow_mut() = Some(p));
        }
    }));
}

pub fn take_daemon_panic(tag: u64) -> Option<PanicInfo> {
    let mut g = match DAEMON_PANICS.lock() {
        Ok(g) => g,
        Err(e) => e.into_inner(),
    };
    g.as_mut().and_then(|m| m.remove(&tag))
}

pub fn take_thread_panic() -> Option<PanicInfo> {
    LAST_PANIC.with(|l| l.borrow_mut().take())
}

/// Strips the registry/toolchain prefix and line numbers so that signatures are stable.
pub fn short_file(file: &str) -> String {
    if let Some(i) = file.rfind("/src/") {
        // keep "<crate dir>/src/..." tail
        let head = &file[..i];
        let krate = head.rsplit('/').next().unwrap_or("");
        format!("{}{}", krate, &file[i..])
    } else {
        file.to_string()
    }
}

/// Removes digit runs and quoted text from a message so that indices, lengths and the
/// offending input itself do not split signatures.
pub fn strip_numbers(msg: &str) -> String {
    let mut out = String::new();
    let mut in_num = false;
    let mut quote: Option<char> = None;
    for ch in msg.chars() {
        if let Some(q) = quote {
            if ch == q {
                quote = None;
                out.push(ch);
            }
            continue;
        }
        if ch == '`' || ch == '\'' {
            quote = Some(ch);
            out.push(ch);
            in_num = false;
            continue;
        }
        if ch.is_ascii_digit() {
            if !in_num {
                out.push('#');
            }
            in_num = true;
        } else {
            in_num = false;
            out.push(ch);
        }
    }
    if out.len() > 160 {
        let mut end = 160;
        while !out.is_char_boundary(end) {
            end -= 1;
        }
        out.truncate(end);
    }
    out
}
