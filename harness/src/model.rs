//! Reference models computed from the trace (never from the daemon's state).
//!
//! `Hist` = delivered-record history and liveness (DESIGN §5.2): what the statements
//! of C03/C05/C11/C17 mean by "received", "still within its TTL", "withdrawn by a
//! goodbye", "displaced by a cache-flush".

use crate::wire::{self, Message, Name, RData, Record};
use crate::world::{Ev, Trace};
use std::collections::HashMap;

/// One reception of one record.
#[derive(Clone, Debug)]
pub struct Delivery {
    pub t: u64,
    pub if_index: u32,
    pub section: u8,
    pub rec: Record,
    /// Index of the trace entry (Rx) that carried it.
    pub entry: usize,
    /// Index of the packet among the host's received packets.
    pub packet: usize,
}

/// Identity of a cached record as the statement sees it: same owner, type, class
/// (with the cache-flush bit), RDATA — and, for addresses, the receiving interface.
#[derive(Clone, Debug, PartialEq, Eq, Hash)]
pub struct RecId {
    pub name: Name,
    pub rtype: u16,
    pub class: u16,
    pub rdata: RData,
    pub if_index: Option<u32>,
}

pub fn rec_id(r: &Record, if_index: u32) -> RecId {
    RecId {
        name: r.name.clone(),
        rtype: r.rtype,
        class: r.class,
        rdata: r.rdata.clone(),
        if_index: if r.rtype == wire::T_A || r.rtype == wire::T_AAAA {
            Some(if_index)
        } else {
            None
        },
    }
}

/// A maximal period during which a record is held.
#[derive(Clone, Debug)]
pub struct Life {
    pub from: u64,
    /// Last (re-)reception inside this period: refresh marks count from here.
    pub created: u64,
    pub ttl: u32,
    /// End of life (exclusive): expiry, possibly shortened by a flush or a purge.
    pub until: u64,
    /// Why it ended at `until`.
    pub end: End,
    /// Interface of the first reception in this period.
    pub first_if: u32,
    /// Every (time, ttl) reception inside this period.
    pub receptions: Vec<(u64, u32)>,
    /// Every change of the expiry: (time of the change, expiry from then on).
    pub history: Vec<(u64, u64)>,
}

impl Life {
    /// The expiry the record carries at time `t`: set by the latest reception at or before
    /// `t` (a fresh copy restarts the life from its own TTL), never beyond the end of the life.
    pub fn expiry_at(&self, t: u64) -> u64 {
        self.history
            .iter()
            .filter(|(at, _)| *at <= t)
            .next_back()
            .map(|(_, e)| *e)
            .unwrap_or(self.until)
    }

    /// Held at `t` and not within `margin` ms of either end (ends judged by the copy held at `t`).
    pub fn surely_live_at(&self, t: u64, margin: u64) -> bool {
        // what happened at the very instant `t` may have happened before or after the
        // observation: the record must be live under both readings
        let before = self
            .history
            .iter()
            .filter(|(at, _)| *at < t)
            .next_back()
            .map(|(_, e)| *e)
            .unwrap_or(0);
        // … and under every intermediate state of that instant
        let during = self
            .history
            .iter()
            .filter(|(at, _)| *at == t)
            .map(|(_, e)| *e)
            .min()
            .unwrap_or(u64::MAX);
        self.from + margin <= t && t + margin < self.expiry_at(t).min(before).min(during)
    }
}

#[derive(Clone, Copy, Debug, PartialEq, Eq)]
pub enum End {
    Ttl,
    Goodbye,
    Flushed,
    Purged,
}

#[derive(Clone, Debug, Default)]
pub struct Hist {
    pub deliveries: Vec<Delivery>,
    pub lives: HashMap<RecId, Vec<Life>>,
}

/// A cut the API history implies: records matching `filter` that are held at `t` end no
/// later than `until` (stop_browse / interface removal: `until == t`; verify with timeout τ:
/// `until == t + τ`). A later reception restarts the record as usual.
pub struct Purge<'a> {
    pub t: u64,
    /// Trace index of the call that implies the cut: decides the order against packets
    /// delivered at the very same instant (`None`: before all of them).
    pub entry: Option<usize>,
    pub until: u64,
    pub filter: Box<dyn Fn(&RecId, &Life) -> bool + 'a>,
}

pub fn effective_ttl(ttl: u32) -> u64 {
    (ttl as u64).max(1)
}

impl Hist {
    /// Collects every record of every *response* delivered to `host` (as parsed by W).
    pub fn build(trace: &Trace, host: usize, purges: &[Purge]) -> Self {
        let mut deliveries = Vec::new();
        let mut packet = 0usize;
        for (idx, e) in trace.entries.iter().enumerate() {
            if e.host != host {
                continue;
            }
            if let Ev::Rx(rx) = &e.ev {
                packet += 1;
                let Ok((m, _)) = wire::parse_lenient(&rx.data) else {
                    continue;
                };
                if !m.is_response() {
                    continue;
                }
                collect(&m, e.t, rx.if_index, idx, packet - 1, &mut deliveries);
            }
        }
        let mut h = Hist {
            deliveries,
            lives: HashMap::new(),
        };
        h.compute(purges);
        h
    }

    fn compute(&mut self, purges: &[Purge]) {
        // Process deliveries in order; within one packet all records are "the same burst".
        let mut events: Vec<(u64, usize, Option<usize>)> = Vec::new(); // (t, order, delivery idx | purge idx)
        for (i, d) in self.deliveries.iter().enumerate() {
            events.push((d.t, i, Some(i)));
        }
        let mut lives: HashMap<RecId, Vec<Life>> = HashMap::new();
        let mut purge_i = 0;
        let mut sorted_purges: Vec<usize> = (0..purges.len()).collect();
        sorted_purges.sort_by_key(|i| (purges[*i].t, purges[*i].entry.unwrap_or(0)));
        for (t, _, di) in events {
            let d_entry = di.map(|i| self.deliveries[i].entry).unwrap_or(usize::MAX);
            while purge_i < sorted_purges.len() && {
                let p = &purges[sorted_purges[purge_i]];
                p.t < t || (p.t == t && p.entry.is_none_or(|e| e < d_entry))
            } {
                let p = &purges[sorted_purges[purge_i]];
                apply_purge(&mut lives, p);
                purge_i += 1;
            }
            let Some(di) = di else { continue };
            let d = &self.deliveries[di];
            let id = rec_id(&d.rec, d.if_index);
            // cache-flush: other records of the same name/type/class (addresses: same
            // interface) held for more than a second expire one second from now.
            if d.rec.flush() {
                for (oid, olives) in lives.iter_mut() {
                    if *oid == id {
                        continue;
                    }
                    if oid.rtype != id.rtype
                        || (oid.class & !wire::FLUSH) != (id.class & !wire::FLUSH)
                        || !wire::names_eq_nocase(&oid.name, &id.name)
                    {
                        continue;
                    }
                    if id.if_index.is_some() && oid.if_index != id.if_index {
                        continue;
                    }
                    if let Some(l) = olives.last_mut() {
                        if l.until > t && t > l.created + 1000 && l.until > t + 1000 {
                            l.until = t + 1000;
                            l.end = End::Flushed;
                            l.history.push((t, l.until));
                        }
                    }
                }
            }
            let ttl = effective_ttl(d.rec.ttl);
            let entry = lives.entry(id).or_default();
            match entry.last_mut() {
                Some(l) if l.until > t => {
                    // a fresh copy restarts the schedule from the new TTL
                    l.created = t;
                    l.ttl = ttl as u32;
                    l.until = t + 1000 * ttl;
                    l.end = if d.rec.ttl == 0 { End::Goodbye } else { End::Ttl };
                    l.receptions.push((t, d.rec.ttl));
                    l.history.push((t, l.until));
                }
                _ => entry.push(Life {
                    from: t,
                    created: t,
                    ttl: ttl as u32,
                    until: t + 1000 * ttl,
                    end: if d.rec.ttl == 0 { End::Goodbye } else { End::Ttl },
                    first_if: d.if_index,
                    receptions: vec![(t, d.rec.ttl)],
                    history: vec![(t, t + 1000 * ttl)],
                }),
            }
        }
        while purge_i < sorted_purges.len() {
            apply_purge(&mut lives, &purges[sorted_purges[purge_i]]);
            purge_i += 1;
        }
        self.lives = lives;
    }

    /// Lives of every record matching `pred`.
    pub fn lives_of<'a>(
        &'a self,
        pred: impl Fn(&RecId) -> bool + 'a,
    ) -> impl Iterator<Item = (&'a RecId, &'a Life)> + 'a {
        self.lives
            .iter()
            .filter(move |(id, _)| pred(id))
            .flat_map(|(id, ls)| ls.iter().map(move |l| (id, l)))
    }

    /// Records matching `pred` that may be held at `t`, boundaries treated leniently
    /// (`slack` ms on both ends).
    pub fn possibly_live<'a>(
        &'a self,
        t: u64,
        slack: u64,
        pred: impl Fn(&RecId) -> bool + 'a,
    ) -> impl Iterator<Item = (&'a RecId, &'a Life)> + 'a {
        self.lives_of(pred)
            .filter(move |(_, l)| l.from <= t + slack && t <= l.until + slack)
    }

    /// Was the record withdrawn by a goodbye by the time an event at `t` was built? The latest
    /// reception at or before `t` carried TTL 0 (the record stays cached for one more second,
    /// but must not be used). A goodbye arriving at the very instant `t` counts only when it was
    /// the single packet of that instant (the event cannot have been built before it).
    pub fn withdrawn_at(&self, life: &Life, t: u64) -> bool {
        let Some((at, ttl)) = life.receptions.iter().filter(|(at, _)| *at <= t).next_back() else { return false };
        if *ttl != 0 {
            return false;
        }
        if *at < t {
            return true;
        }
        let mut packets: Vec<usize> = self.deliveries.iter().filter(|d| d.t == t).map(|d| d.packet).collect();
        packets.dedup();
        packets.len() == 1
    }

    /// Records matching `pred` that are certainly held at `t` (strictly inside, `slack` away
    /// from both ends).
    pub fn surely_live<'a>(
        &'a self,
        t: u64,
        slack: u64,
        pred: impl Fn(&RecId) -> bool + 'a,
    ) -> impl Iterator<Item = (&'a RecId, &'a Life)> + 'a {
        self.lives_of(pred)
            .filter(move |(_, l)| l.from + slack <= t && t + slack < l.until)
    }
}

fn apply_purge(lives: &mut HashMap<RecId, Vec<Life>>, p: &Purge) {
    for (id, ls) in lives.iter_mut() {
        if let Some(l) = ls.last_mut() {
            if l.until > p.until && l.from <= p.t && l.until > p.t && (p.filter)(id, l) {
                l.until = p.until;
                l.end = End::Purged;
                l.history.push((p.t, l.until));
            }
        }
    }
}

fn collect(m: &Message, t: u64, if_index: u32, entry: usize, packet: usize, out: &mut Vec<Delivery>) {
    for (section, list) in [&m.answers, &m.authorities, &m.additionals].iter().enumerate() {
        for r in list.iter() {
            out.push(Delivery {
                t,
                if_index,
                section: section as u8,
                rec: r.clone(),
                entry,
                packet,
            });
        }
    }
}

// ---------------------------------------------------------------------------
// Small helpers shared by monitors

/// The instance/type/host names as the daemon reports them (labels joined by '.').
pub fn spelled(n: &Name) -> String {
    wire::dotted(n)
}

pub fn is_ptr_to(id: &RecId, ty: &Name, inst: &Name) -> bool {
    id.rtype == wire::T_PTR
        && wire::names_eq_exact(&id.name, ty)
        && matches!(&id.rdata, RData::Ptr(t) if wire::names_eq_exact(t, inst))
}

/// Query instants of a continuing search started at `t0`: t0, +1 s, +3 s, +7 s … with
/// the gap doubling up to 3600 s.
pub fn schedule(t0: u64, until: u64) -> Vec<u64> {
    let mut v = vec![t0];
    let mut t = t0;
    let mut gap: u64 = 1;
    loop {
        t += gap * 1000;
        if t > until {
            break;
        }
        v.push(t);
        gap = (gap * 2).min(3600);
    }
    v
}
