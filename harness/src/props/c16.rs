//! C16 — TXT properties survive the trip unchanged.
//!
//! Component part: property lists through every input type → `ServiceInfo::new`
//! (accepted / refused) → TXT RDATA the daemon would send (facade) → parsed by the
//! independent TXT parser of `W` and by the crate's public decoder
//! (`TxtProperties::from(&[u8])`), compared with the list that was given.
//! End-to-end part: a registering and a browsing daemon in one simulated world.

use crate::report::{run_parallel, threads, Local, Report, Violation};
use crate::util::{self, Rng};
use crate::wire;
use crate::Tier;
use mdns_sd::verif::codec;
use mdns_sd::{ServiceInfo, TxtProperties, TxtProperty};
use serde_json::json;
use std::collections::HashMap;

pub type Item = (String, Option<Vec<u8>>);

fn gen_key(rng: &mut Rng) -> String {
    match rng.below(16) {
        0 => String::new(),
        1 => "k=ey".to_string(),
        2 => "clé".to_string(),
        3 => "=".to_string(),
        4 => "K".to_string(),
        5 => "k".to_string(),
        6 => "Key".to_string(),
        7 => "KEY".to_string(),
        8 => "a".repeat(*rng.pick(&[253usize, 254, 255, 256])),
        9 => " ".to_string(),
        10 => "key with space".to_string(),
        11 => "\u{7f}".to_string(),
        _ => {
            let n = 1 + rng.usize(9);
            (0..n)
                .map(|_| *rng.pick(&['a', 'b', 'C', 'd', '1', '-', '_', 'z', 'Q']))
                .collect()
        }
    }
}

fn gen_val(rng: &mut Rng, key_len: usize) -> Option<Vec<u8>> {
    match rng.below(12) {
        0 => None,
        1 => Some(Vec::new()),
        2 => Some(b"=".to_vec()),
        3 => Some(vec![0]),
        4 => Some(vec![0xFF, 0xFE]),
        5 => Some(b"a=b=c".to_vec()),
        6 | 7 => {
            // around the 255-byte limit of key + '=' + value
            let total = *rng.pick(&[253usize, 254, 255, 256, 257]);
            let n = total.saturating_sub(key_len + 1);
            Some(rng.bytes(n))
        }
        _ => {
            let n = rng.usize(20);
            Some(rng.bytes(n))
        }
    }
}

pub fn gen_list(rng: &mut Rng) -> Vec<Item> {
    let n = match rng.below(8) {
        0 => 0,
        1 => 1,
        2 => 30 + rng.usize(11),
        _ => 1 + rng.usize(6),
    };
    let mut v: Vec<Item> = Vec::new();
    for _ in 0..n {
        let k = if !v.is_empty() && rng.chance(1, 6) {
            // duplicate or case variant of an earlier key
            let base = v[rng.usize(v.len())].0.clone();
            match rng.below(3) {
                0 => base,
                1 => base.to_uppercase(),
                _ => base.to_lowercase(),
            }
        } else {
            gen_key(rng)
        };
        let val = gen_val(rng, k.len());
        v.push((k, val));
    }
    v
}

/// Later case-insensitive duplicates removed, first occurrence kept.
pub fn first_wins(list: &[Item]) -> Vec<Item> {
    let mut seen: Vec<String> = Vec::new();
    let mut out = Vec::new();
    for (k, v) in list {
        let lk = k.to_lowercase();
        if !seen.contains(&lk) {
            seen.push(lk);
            out.push((k.clone(), v.clone()));
        }
    }
    out
}

fn representable(list: &[Item]) -> Option<&'static str> {
    for (k, v) in list {
        if !k.is_ascii() {
            return Some("non-ascii-key");
        }
        if k.contains('=') {
            return Some("equals-in-key");
        }
        if k.len() + v.as_ref().map_or(0, |v| v.len() + 1) > 255 {
            return Some("entry-over-255");
        }
    }
    None
}

#[derive(Clone, Copy, Debug, PartialEq, Eq)]
pub enum InputKind {
    VecTxtProperty,
    SliceOfPairs,
    HashMapStr,
    OptionSome,
    OptionNone,
}

/// Builds a ServiceInfo from `list` through input type `kind`. Returns the list as the
/// input type can express it (ground truth) and the creation result.
pub fn build(kind: InputKind, list: &[Item]) -> Option<(Vec<Item>, bool, Result<ServiceInfo, String>)> {
    let mk = |p: &dyn Fn() -> mdns_sd::Result<ServiceInfo>| -> Result<ServiceInfo, String> {
        match std::panic::catch_unwind(std::panic::AssertUnwindSafe(p)) {
            Ok(Ok(i)) => Ok(i),
            Ok(Err(e)) => Err(format!("err:{e}")),
            Err(_) => {
                let p = util::take_thread_panic();
                Err(format!("panic:{}", p.map(|p| p.msg).unwrap_or_default()))
            }
        }
    };
    match kind {
        InputKind::VecTxtProperty => {
            let props: Vec<TxtProperty> = list
                .iter()
                .map(|(k, v)| match v {
                    Some(v) => TxtProperty::from((k.as_str(), v.as_slice())),
                    None => TxtProperty::from(k.as_str()),
                })
                .collect();
            let r = mk(&|| ServiceInfo::new("_t._udp.local.", "i", "h.local.", "10.0.0.1", 80, props.clone()));
            Some((list.to_vec(), true, r))
        }
        InputKind::SliceOfPairs => {
            // ToString pairs: values must be text, every entry has a value
            let pairs: Vec<(String, String)> = list
                .iter()
                .map(|(k, v)| {
                    (
                        k.clone(),
                        v.as_ref()
                            .map(|v| String::from_utf8_lossy(v).to_string())
                            .unwrap_or_default(),
                    )
                })
                .collect();
            let truth: Vec<Item> = pairs
                .iter()
                .map(|(k, v)| (k.clone(), Some(v.clone().into_bytes())))
                .collect();
            let r = mk(&|| ServiceInfo::new("_t._udp.local.", "i", "h.local.", "10.0.0.1", 80, &pairs[..]));
            Some((truth, true, r))
        }
        InputKind::HashMapStr | InputKind::OptionSome => {
            let mut map: HashMap<String, String> = HashMap::new();
            for (k, v) in list {
                map.entry(k.clone()).or_insert_with(|| {
                    v.as_ref()
                        .map(|v| String::from_utf8_lossy(v).to_string())
                        .unwrap_or_default()
                });
            }
            let truth: Vec<Item> = map
                .iter()
                .map(|(k, v)| (k.clone(), Some(v.clone().into_bytes())))
                .collect();
            let r = if kind == InputKind::HashMapStr {
                mk(&|| ServiceInfo::new("_t._udp.local.", "i", "h.local.", "10.0.0.1", 80, map.clone()))
            } else {
                mk(&|| ServiceInfo::new("_t._udp.local.", "i", "h.local.", "10.0.0.1", 80, Some(map.clone())))
            };
            Some((truth, false, r))
        }
        InputKind::OptionNone => {
            let r = mk(&|| {
                ServiceInfo::new(
                    "_t._udp.local.",
                    "i",
                    "h.local.",
                    "10.0.0.1",
                    80,
                    None::<HashMap<String, String>>,
                )
            });
            Some((Vec::new(), true, r))
        }
    }
}

fn show(list: &[Item]) -> serde_json::Value {
    json!(list
        .iter()
        .take(12)
        .map(|(k, v)| match v {
            None => json!([util::prefix(k, 40), null]),
            Some(v) => json!([util::prefix(k, 40), format!("{} bytes: {}", v.len(), wire::hex(&v[..v.len().min(12)]))]),
        })
        .collect::<Vec<_>>())
}

/// Compares a decoded property list with the expectation. `ordered` = order matters.
fn compare(expected: &[Item], got: &[Item], ordered: bool) -> Option<String> {
    if expected.len() != got.len() {
        return Some(format!("{} properties expected, {} found", expected.len(), got.len()));
    }
    if ordered {
        for (i, (e, g)) in expected.iter().zip(got.iter()).enumerate() {
            if e != g {
                return Some(format!("property {i}: expected {:?}={:?}, found {:?}={:?}", e.0, e.1.as_ref().map(|v| v.len()), g.0, g.1.as_ref().map(|v| v.len())));
            }
        }
    } else {
        for e in expected {
            if !got.contains(e) {
                return Some(format!("property {:?} missing or changed", e.0));
            }
        }
    }
    None
}

pub fn props_to_items(p: &TxtProperties) -> Vec<Item> {
    p.iter()
        .map(|x| (x.key().to_string(), x.val().map(|v| v.to_vec())))
        .collect()
}

pub fn check_list(kind: InputKind, list: &[Item], l: &mut Local) {
    l.evaluations += 1;
    let Some((truth, ordered, result)) = build(kind, list) else {
        return;
    };
    // later duplicates are dropped ("only the first occurrence is kept"), so only the
    // entries that survive have to be representable
    let bad = representable(&first_wins(&truth));
    let key = format!(
        "{kind:?}|n{}|{}|{}|dup{}|nov{}|emptyv{}|emptyk{}",
        truth.len().min(8),
        bad.unwrap_or("ok"),
        result.is_ok(),
        first_wins(&truth).len() != truth.len(),
        truth.iter().any(|(_, v)| v.is_none()),
        truth.iter().any(|(_, v)| v.as_ref().is_some_and(|v| v.is_empty())),
        truth.iter().any(|(k, _)| k.is_empty()),
    );
    l.distinct.insert(util::fnv_str(&key));
    let witness = || json!({"input_type": format!("{kind:?}"), "properties": show(&truth)});
    match result {
        Err(e) => {
            if let Some(p) = e.strip_prefix("panic:") {
                l.violate(
                    Violation::new("Y2", format!("Y2/creation-panics/{}", util::strip_numbers(p)), format!("ServiceInfo::new panicked: {p}"))
                        .with(witness()),
                );
            } else {
                l.act("Y2-refused");
                l.count("refused", 1);
            }
        }
        Ok(info) => {
            l.count("accepted", 1);
            // Y2: what cannot be represented must have been refused
            if let Some(why) = bad {
                l.violate(
                    Violation::new("Y2", format!("Y2/accepted-unrepresentable/{why}"), format!("a property list with {why} was accepted"))
                        .with(witness()),
                );
                return;
            }
            l.act("Y2");
            let expected = first_wins(&truth);
            if !ordered && expected.len() != truth.len() {
                // a map holding case variants of one key: which one is "first" is not defined
                l.count("skipped_ambiguous_map_order", 1);
                return;
            }
            // Y1 on the wire
            let rdata = match std::panic::catch_unwind(std::panic::AssertUnwindSafe(|| codec::service_txt_rdata(&info))) {
                Ok(r) => r,
                Err(_) => {
                    let p = util::take_thread_panic();
                    l.violate(
                        Violation::new("Y1", "Y1/encode-panics", format!("encoding accepted properties panicked: {}", p.map(|p| p.msg).unwrap_or_default()))
                            .with(witness()),
                    );
                    return;
                }
            };
            l.act("Y1-wire");
            let items: Vec<Item> = wire::txt_items(&rdata, false)
                .into_iter()
                .map(|i| (String::from_utf8_lossy(&i.key).to_string(), i.val))
                .collect();
            // total coverage of the RDATA by strings (no garbage, every string ≤ 255 by construction)
            let on_wire_first = first_wins(&items);
            if let Some(diff) = compare(&expected, &on_wire_first, ordered) {
                let class = if truth.iter().any(|(k, v)| k.is_empty() && v.is_none()) {
                    "empty-key-without-value"
                } else {
                    "other"
                };
                l.violate(
                    Violation::new("Y1", format!("Y1/wire-differs/{class}"), format!("TXT RDATA on the wire does not carry the accepted properties: {diff}"))
                        .with(json!({"input_type": format!("{kind:?}"), "properties": show(&truth), "rdata": wire::hex(&rdata[..rdata.len().min(300)])})),
                );
                return;
            }
            // Y1 at the browser: the crate's public decoder
            l.act("Y1-decode");
            let decoded = TxtProperties::from(&rdata[..]);
            let got = props_to_items(&decoded);
            if let Some(diff) = compare(&expected, &got, ordered) {
                let class = if truth.iter().any(|(k, v)| k.is_empty() && v.is_none()) {
                    "empty-key-without-value"
                } else {
                    "other"
                };
                l.violate(
                    Violation::new("Y1", format!("Y1/decoded-differs/{class}"), format!("decoding the TXT record the daemon sends does not give back the accepted properties: {diff}"))
                        .with(json!({"input_type": format!("{kind:?}"), "properties": show(&truth), "rdata": wire::hex(&rdata[..rdata.len().min(300)])})),
                );
                return;
            }
            // case-insensitive lookup finds the first occurrence
            for (k, v) in expected.iter() {
                for variant in [k.to_uppercase(), k.to_lowercase()] {
                    l.act("Y1-lookup");
                    match decoded.get(&variant) {
                        Some(p) if p.key() == k && p.val().map(|x| x.to_vec()) == *v => {}
                        other => {
                            l.violate(
                                Violation::new("Y1", "Y1/lookup", format!("lookup of {variant:?} gives {other:?}, expected key {k:?}"))
                                    .with(witness()),
                            );
                            return;
                        }
                    }
                }
            }
        }
    }
}

/// Y3: decoding arbitrary bytes.
pub fn check_bytes(b: &[u8], l: &mut Local) {
    l.evaluations += 1;
    let r = std::panic::catch_unwind(|| TxtProperties::from(b));
    let witness = || json!({"txt_rdata": wire::hex(&b[..b.len().min(700)])});
    let decoded = match r {
        Ok(d) => d,
        Err(_) => {
            let p = util::take_thread_panic();
            l.violate(
                Violation::new("Y3", "Y3/decode-panics", format!("decoding TXT bytes panicked: {}", p.map(|p| p.msg).unwrap_or_default()))
                    .with(witness()),
            );
            return;
        }
    };
    l.act("Y3");
    let got = props_to_items(&decoded);
    // Both readings of a zero-length string are inside the record: "end of data" and "skip it".
    let model = |stop: bool| -> Vec<Item> {
        let items: Vec<Item> = wire::txt_items(b, stop)
            .into_iter()
            .filter_map(|i| String::from_utf8(i.key).ok().map(|k| (k, i.val)))
            .collect();
        first_wins(&items)
    };
    if got != model(true) && got != model(false) {
        l.violate(
            Violation::new("Y3", "Y3/decoded-not-from-record", format!("decoded properties are not the strings of the record: got {} properties", got.len()))
                .with(witness()),
        );
    }
    let key = format!("bytes|n{}|len{}", got.len().min(6), (b.len() + 1).ilog2());
    l.distinct.insert(util::fnv_str(&key));
}

pub fn gen_txt_bytes(rng: &mut Rng) -> Vec<u8> {
    match rng.below(4) {
        0 => {
            let n = rng.usize(601);
            rng.bytes(n)
        }
        1 => {
            // well-formed strings with occasional damage
            let mut b = Vec::new();
            for _ in 0..rng.usize(8) {
                let n = rng.usize(30);
                b.push(n as u8);
                let mut s = rng.bytes(n);
                if n > 2 && rng.chance(2, 3) {
                    for c in s.iter_mut() {
                        *c = b'a' + (*c % 26);
                    }
                    let at = rng.usize(n);
                    s[at] = b'=';
                }
                b.extend_from_slice(&s);
            }
            if rng.chance(1, 3) && !b.is_empty() {
                let at = rng.usize(b.len());
                b[at] = *rng.pick(&[0u8, 255, 1, 200]);
            }
            b
        }
        2 => {
            let list = gen_list(rng);
            let mut b = Vec::new();
            for (k, v) in list {
                let mut s = k.into_bytes();
                if let Some(v) = v {
                    s.push(b'=');
                    s.extend(v);
                }
                s.truncate(255);
                b.push(s.len() as u8);
                b.extend(s);
            }
            let cut = rng.usize(b.len() + 1);
            if rng.chance(1, 2) {
                b.truncate(cut);
            }
            b
        }
        _ => vec![*rng.pick(&[0u8, 1, 255]); rng.usize(5)],
    }
}

fn scripted(l: &mut Local) {
    let kinds = [
        InputKind::VecTxtProperty,
        InputKind::SliceOfPairs,
        InputKind::HashMapStr,
        InputKind::OptionSome,
        InputKind::OptionNone,
    ];
    let lists: Vec<Vec<Item>> = vec![
        vec![],
        vec![("k".into(), Some(b"v".to_vec()))],
        vec![("flag".into(), None), ("empty".into(), Some(vec![])), ("bin".into(), Some(vec![0, 255, b'=']))],
        vec![("Key".into(), Some(b"1".to_vec())), ("KEY".into(), Some(b"2".to_vec())), ("key".into(), None)],
        vec![("".into(), None), ("a".into(), Some(b"1".to_vec()))],
        vec![("".into(), Some(b"v".to_vec())), ("a".into(), Some(b"1".to_vec()))],
        vec![("a".repeat(255), None)],
        vec![("a".repeat(256), None)],
        vec![("a".repeat(250), Some(b"12345".to_vec()))],
        vec![("k=".into(), Some(b"v".to_vec()))],
        vec![("clé".into(), Some(b"v".to_vec()))],
    ];
    for list in lists.iter() {
        for k in kinds {
            check_list(k, list, l);
        }
    }
    for b in [&b""[..], &[0][..], &[1, b'a'][..], &[5, b'a'][..], &[3, b'a', b'=', b'b', 0, 1, b'c'][..], &[2, 0xC3, 0x28][..]] {
        check_bytes(b, l);
    }
}

pub fn run_component(report: &Report, tier: &Tier, share: f64) {
    let mut l = Local::default();
    scripted(&mut l);
    let mut rng = Rng::new(report.seed);
    for _ in 0..3 {
        let list = gen_list(&mut rng);
        l.samples.push(json!({"properties": show(&list)}));
    }
    report.merge(l);
    let seed = report.seed;
    let n: u64 = if tier.thorough { 30_000_000 } else { 60_000 };
    let batch = 100;
    let kinds = [
        InputKind::VecTxtProperty,
        InputKind::VecTxtProperty,
        InputKind::SliceOfPairs,
        InputKind::HashMapStr,
        InputKind::OptionSome,
    ];
    run_parallel(report, n / batch, threads(), tier.budget_s * share, |i, l| {
        let mut rng = Rng::new(util::mix(seed, 0xC16_0000 + i));
        for _ in 0..batch {
            let list = gen_list(&mut rng);
            let kind = *rng.pick(&kinds);
            check_list(kind, &list, l);
            let b = gen_txt_bytes(&mut rng);
            check_bytes(&b, l);
        }
    });
}

/// End-to-end: one daemon registers a service with the list, another one on the same link
/// browses the type; what the browser reports is compared with what was given.
pub fn e2e_case(seed: u64, l: &mut Local) {
    use crate::scen;
    use crate::world::*;
    let mut rng = Rng::new(seed);
    let mut list = gen_list(&mut rng);
    // keep the record within one packet
    while list.iter().map(|(k, v)| 2 + k.len() + v.as_ref().map_or(0, |v| v.len())).sum::<usize>() > 6000 {
        list.pop();
    }
    let truth = first_wins(&list);
    if representable(&truth).is_some() || truth.iter().any(|(k, _)| k.is_empty()) {
        return; // refused at creation: the component part's business
    }
    let mut w = World::new(seed);
    w.set_stepping(Stepping::Lazy);
    let a = w.add_host(vec![IfSpec::new("eth0", 2, 0, &[("10.0.0.5", 24)])]);
    let b = w.add_host(vec![IfSpec::new("eth0", 2, 0, &[("10.0.0.6", 24)])]);
    w.set_ip_check_interval(a, 3600);
    w.set_ip_check_interval(b, 3600);
    let late_browse = rng.chance(1, 2);
    let mut chan = if late_browse { None } else { w.browse(b, "_t._udp.local.") };
    let addrs: Vec<std::net::IpAddr> = vec!["10.0.0.5".parse().unwrap()];
    let mut reg = World::reg_info("_t._udp.local.", "txt", "txthost.local.", &addrs, 80, &[]);
    reg.txt = list.clone();
    reg.requires_probe = rng.chance(1, 2);
    l.evaluations += 1;
    if !w.register(a, reg) {
        // (the statement does not oblige creation to accept anything: a refusal is never a violation)
        l.act("Y4-refused");
        return;
    }
    w.run_for(2500);
    if late_browse {
        // learned through the answer to the browse query instead of the announcement
        chan = w.browse(b, "_t._udp.local.");
        w.run_for(1500);
    }
    if w.trace.deaths().any(|d| matches!(d.ev, Ev::Death { panicked: true, .. })) {
        l.inconclusive.push(format!("daemon died in a C16 end-to-end scenario (seed {seed})"));
        return;
    }
    let Some(chan) = chan else { return };
    let resolved: Vec<mdns_sd::ResolvedService> = w.trace.obs(chan).filter_map(|(_, o)| if let Obs::Resolved(r) = o { Some((**r).clone()) } else { None }).collect();
    l.act("Y4");
    l.distinct.insert(util::fnv_str(&format!("e2e|n{}|dup{}|nov{}|emptyv{}|late{late_browse}", truth.len().min(8), truth.len() != list.len(), truth.iter().any(|(_, v)| v.is_none()), truth.iter().any(|(_, v)| v.as_ref().is_some_and(|v| v.is_empty())))));
    let first_trace = scen::witness(&w.trace, 12);
    let wit = |got: &[Item]| json!({"given": show(&list), "expected": show(&truth), "reported": show(got), "learned_from": if late_browse { "answer to the browse query" } else { "announcement" }, "trace": first_trace});
    let Some(last) = resolved.last() else {
        l.violate(Violation::new("Y4", "Y4/never-resolved", "the browsing daemon never resolved the service").with(wit(&[])));
        return;
    };
    for r in resolved.iter() {
        let got = props_to_items(&r.txt_properties);
        if let Some(why) = compare(&truth, &got, true) {
            let class = if got.len() != truth.len() { "count" } else if got.iter().zip(truth.iter()).any(|(g, t)| g.0 != t.0) { "key-or-order" } else if got.iter().zip(truth.iter()).any(|(g, t)| g.1.is_none() != t.1.is_none()) { "none-vs-empty" } else { "value-bytes" };
            l.violate(Violation::new("Y4", format!("Y4/reported-properties-differ/{class}"), format!("the browser reports other properties than were registered: {why}")).with(wit(&got)));
            return;
        }
    }
    // the service is registered again with properties that differ in letter case only (keys and text values):
    // other bytes are other properties, the browser has to be told
    let flip = |b: &[u8]| -> Vec<u8> { b.iter().map(|c| if c.is_ascii_lowercase() { c.to_ascii_uppercase() } else { c.to_ascii_lowercase() }).collect() };
    let list2: Vec<Item> = truth.iter().map(|(k, v)| (String::from_utf8(flip(k.as_bytes())).unwrap_or_else(|_| k.clone()), v.as_ref().map(|v| flip(v)))).collect();
    if list2 != truth && rng.chance(1, 2) {
        let mut reg2 = World::reg_info("_t._udp.local.", "txt", "txthost.local.", &addrs, 80, &[]);
        reg2.txt = list2.clone();
        reg2.requires_probe = rng.chance(1, 2);
        if w.register(a, reg2) {
            w.run_for(4000);
            l.act("Y4-update");
            let after: Vec<&mdns_sd::ResolvedService> = w.trace.obs(chan).filter_map(|(_, o)| if let Obs::Resolved(r) = o { Some(&**r) } else { None }).collect();
            let got = after.last().map(|r| props_to_items(&r.txt_properties)).unwrap_or_default();
            if compare(&list2, &got, true).is_some() {
                l.violate(
                    Violation::new("Y4", "Y4/update-not-reported/differs-in-letter-case-only", "the service was registered again with keys and values in another letter case; the browser still shows the earlier bytes")
                        .with(json!({"first": show(&truth), "second": show(&list2), "reported_last": show(&got), "trace": scen::witness(&w.trace, 14)})),
                );
            }
            return;
        }
    }
    // case-insensitive lookup on what the browser holds
    for (k, v) in truth.iter() {
        l.act("Y4-lookup");
        for spelled in [k.to_uppercase(), k.to_lowercase()] {
            let got = last.txt_properties.get(&spelled).map(|p| p.val().map(|v| v.to_vec()));
            if got != Some(v.clone()) {
                l.violate(Violation::new("Y4", "Y4/lookup-by-other-case-fails", format!("get({spelled:?}) on the reported properties does not find the value registered under {k:?}")).with(wit(&props_to_items(&last.txt_properties))));
                return;
            }
        }
    }
}

pub fn run(report: &Report, tier: &Tier) {
    report.set_rule(
        "property lists of 0..40 entries (keys: empty, '=', non-ASCII, 253..256 bytes, case variants, duplicates; values: none, empty, \
         binary, '=', NUL, sizes around the 255-byte limit) through Vec<TxtProperty>, &[(K,V)], HashMap and Option<HashMap>; \
         plus arbitrary / damaged byte strings as received TXT data; end to end: accepted lists registered on one daemon and read from the \
         ServiceResolved of a second daemon on the same link (learned from the announcement or from the answer to its query); distinct by (input type, size, representability, accepted, \
         duplicate/no-value/empty-value/empty-key flags)",
    );
    report.assume("a zero-length TXT string may be read as 'end of data' or skipped (both stay inside the record)");
    for r in ["Y1-wire", "Y1-decode", "Y1-lookup", "Y2", "Y2-refused", "Y3", "Y4", "Y4-lookup"] {
        report.floor(r, 20);
    }
    run_component(report, tier, 0.6);
    // end to end: a registering and a browsing daemon on one simulated link
    let seed = report.seed;
    let n: u64 = if tier.thorough { 400_000 } else { 3_000 };
    run_parallel(report, n, threads(), tier.budget_s * 0.4, |i, l| {
        e2e_case(util::mix(seed, 0xC16_E2E0 + i), l);
    });
}
