//! C19 — repeated queries back off: 1 s, 2 s, 4 s … capped at one hour.
//!
//! Every query the daemon sends for a browsed type (PTR) or a resolved host name
//! (A/AAAA) must be explained by exactly one of: a schedule instant of the running
//! search, a refresh mark (80/85/90/95 %) of a live cached record, the one query for
//! a new interface; and every schedule instant must produce its query (B1), with gaps
//! never above one hour (B3).

use crate::model::{self, Hist};
use crate::props::c13::{self, ChanInfo, Kind};
use crate::report::{run_parallel, threads, Local, Report, Violation};
use crate::scen::{self, TxM};
use crate::util::{self, Rng};
use crate::wire::{self, Name};
use crate::world::*;
use crate::Tier;
use serde_json::json;

fn slack(stepping: Stepping) -> u64 {
    match stepping {
        Stepping::Lazy => 0,
        Stepping::Eager(g) => g,
        Stepping::Oversleep(m) => m,
    }
}

/// A search as the API history defines it: (name, qtypes, start, end, channel).
struct Search {
    name: Name,
    qtypes: Vec<u16>,
    t0: u64,
    t_end: u64,
    is_host: bool,
    /// Trace index of the call that started it (orders things that happen at one virtual instant).
    idx0: usize,
}

fn searches(trace: &Trace, host: usize, horizon: u64) -> Vec<Search> {
    let chans: Vec<ChanInfo> = c13::channels(trace).into_iter().filter(|c| c.host == host).collect();
    let mut v = Vec::new();
    for ci in chans.iter() {
        let (name, qtypes, is_host) = match &ci.kind {
            Kind::Browse(ty) => (scen::wire_name(ty), vec![wire::T_PTR], false),
            Kind::Resolve(h, _) => (scen::wire_name(h), vec![wire::T_A, wire::T_AAAA], true),
            Kind::BrowseCache(_) => continue,
        };
        let mut t_end = c13::ended_by_api(trace, ci).map(|(t, _)| t).unwrap_or(horizon);
        // a timeout, or the listener going away, also ends a search
        if let Some((e, _)) = trace.obs(ci.chan).find(|(_, o)| matches!(o, Obs::SearchStopped(_) | Obs::HStopped(_))) {
            t_end = t_end.min(e.t);
        }
        if let Some(d) = ci.dropped_at {
            // the chain ends when its next query finds the channel closed: no obligation after the drop
            t_end = t_end.min(d);
        }
        if trace.deaths().any(|d| d.host == host) {
            let t_death = trace.deaths().find(|d| d.host == host).map(|d| d.t).unwrap();
            t_end = t_end.min(t_death);
        }
        v.push(Search { name, qtypes, t0: ci.t_start, t_end, is_host, idx0: ci.idx });
    }
    v
}

pub fn monitor(trace: &Trace, stepping: Stepping, horizon: u64, l: &mut Local) {
    let g = slack(stepping);
    let hosts = trace.entries.iter().map(|e| e.host + 1).max().unwrap_or(0);
    for host in 0..hosts {
        let txs = scen::tx_msgs(trace, host);
        let all = searches(trace, host, horizon);
        let hist = Hist::build(trace, host, &[]);
        // names searched on this host (case-insensitive)
        let mut names: Vec<(Name, Vec<u16>, bool)> = Vec::new();
        for s in all.iter() {
            if !names.iter().any(|(n, _, _)| wire::names_eq_nocase(n, &s.name)) {
                names.push((s.name.clone(), s.qtypes.clone(), s.is_host));
            }
        }
        for (name, qtypes, is_host) in names.iter() {
            let qt = qtypes[0];
            // one stream of query instants per (interface, family)
            let mut streams: Vec<(Option<u32>, bool)> = txs.iter().map(|tx| (tx.out_if, tx.v4)).collect();
            streams.sort();
            streams.dedup();
            let mine: Vec<&Search> = all.iter().filter(|s| wire::names_eq_nocase(&s.name, name)).collect();
            for (out_if, v4) in streams {
                let qs: Vec<&TxM> = txs
                    .iter()
                    .filter(|tx| tx.out_if == out_if && tx.v4 == v4 && tx.msg.is_query() && scen::has_question(tx.msg, name, qt))
                    .collect();
                // refresh marks that may explain a query: (mark, latest time it can be acted on, used).
                // A mark passed while no search was open is acted on when a search opens.
                let mut marks: Vec<(u64, u64, bool)> = Vec::new();
                for (id, life) in hist.lives_of(|id| {
                    if *is_host {
                        (id.rtype == wire::T_A || id.rtype == wire::T_AAAA) && wire::names_eq_nocase(&id.name, name)
                    } else {
                        id.rtype == wire::T_PTR && wire::names_eq_nocase(&id.name, name)
                    }
                }) {
                    // (marks only ever explain a query here, so the marks of one-second records count as well:
                    // the crate does refresh them, which C11 leaves open)
                    let _ = id;
                    let pcts: &[u64] = if *is_host { &[800] } else { &[800, 850, 900, 950] };
                    // marks of every reception inside the life (a fresh copy restarts the schedule)
                    for (k, (t_rx, ttl)) in life.receptions.iter().enumerate() {
                        let next_rx = life.receptions.get(k + 1).map(|(t, _)| *t).unwrap_or(life.until);
                        for p in pcts {
                            let m = t_rx + model::effective_ttl(*ttl) * p;
                            if m < next_rx.min(life.until) + g + 1 {
                                marks.push((m, next_rx.min(life.until) + g, false));
                            }
                        }
                    }
                }
                // interface arrivals explain one PTR query on that interface
                let mut if_adds: Vec<(u64, bool)> = trace
                    .entries
                    .iter()
                    .filter(|e| e.host == host && matches!(e.ev, Ev::Obs { obs: Obs::IpAdd(_), .. }))
                    .map(|e| (e.t, false))
                    .collect();
                // walk the searches in time order; each has a chain t0, +1 s, +2 s … relative to the
                // previous actual query
                let mut explained = vec![false; qs.len()];
                for s in mine.iter() {
                    // a query sent before this search was started, or after the next search of the name was, is not this chain's
                    let next_idx0 = mine.iter().filter(|o| o.idx0 > s.idx0).map(|o| o.idx0).min().unwrap_or(usize::MAX);
                    let mut expect = s.t0; // next expected chain instant
                    let mut gap: u64 = 1;
                    let mut prev: Option<u64> = None;
                    loop {
                        if expect + g >= s.t_end.min(horizon.saturating_sub(g + 5)) {
                            // A query due within one step of the end of the search may or may not be
                            // sent (the ending call is executed first when both fall into one
                            // iteration); nothing of this chain is sent after the end.
                            if let Some((k, _)) = qs
                                .iter()
                                .enumerate()
                                .find(|(k, q)| !explained[*k] && q.idx > s.idx0 && q.idx < next_idx0 && q.t >= expect && q.t <= expect + g && q.t <= s.t_end)
                            {
                                explained[k] = true;
                            }
                            break;
                        }
                        l.act("B1");
                        // find an unexplained query in [expect, expect + g]
                        let hit = qs
                            .iter()
                            .enumerate()
                            .find(|(k, q)| !explained[*k] && q.idx > s.idx0 && q.t >= expect && q.t <= expect + g);
                        match hit {
                            Some((k, q)) => {
                                explained[k] = true;
                                if let Some(p) = prev {
                                    l.act("B3");
                                    if q.t - p > 3_600_000 + g {
                                        l.violate(
                                            Violation::new("B3", "B3/gap-over-one-hour", format!("{} ms between consecutive queries for {}", q.t - p, wire::escaped(name)))
                                                .with(json!({"api": scen::api_log(trace)})),
                                        );
                                    }
                                }
                                prev = Some(q.t);
                                expect = q.t + gap * 1000;
                                gap = (gap * 2).min(3600);
                            }
                            None => {
                                // interfaces without an address of the family send nothing
                                let sig = if *is_host { "B1/missing-scheduled-query/hostname" } else { "B1/missing-scheduled-query/browse" };
                                l.violate(
                                    Violation::new(
                                        "B1",
                                        sig,
                                        format!(
                                            "no query for {} at +{} ms of its search (expected gap {} s) on interface {:?}",
                                            wire::escaped(name),
                                            expect - s.t0,
                                            gap / 2,
                                            out_if
                                        ),
                                    )
                                    .with(json!({"api": scen::api_log(trace), "stepping": format!("{stepping:?}"),
                                                 "trace": scen::witness_window(trace, expect.saturating_sub(3000), expect + 1500, 40)})),
                                );
                                break;
                            }
                        }
                    }
                }
                // B2: everything else needs another explanation
                for (k, q) in qs.iter().enumerate() {
                    if explained[k] {
                        continue;
                    }
                    l.act("B2");
                    if let Some(m) = marks.iter_mut().find(|(m, last, used)| !*used && q.t >= *m && q.t <= *last) {
                        m.2 = true;
                        l.act("B2-refresh");
                        continue;
                    }
                    if !*is_host {
                        if let Some(a) = if_adds.iter_mut().find(|(t, used)| !*used && q.t == *t) {
                            a.1 = true;
                            l.act("B2-new-interface");
                            continue;
                        }
                    }
                    // a query sent in the very iteration of the stop/replacement call is the old chain's last
                    let running = mine.iter().any(|s| q.t >= s.t0 && q.t <= s.t_end);
                    let class = if !running {
                        "no-search-running"
                    } else if mine.iter().filter(|s| s.t0 <= q.t).count() > 1 {
                        "after-search-was-replaced"
                    } else {
                        "extra-query"
                    };
                    if class == "no-search-running" {
                        // C13-T4's business; here only the schedule of running searches is judged
                        continue;
                    }
                    l.violate(
                        Violation::new(
                            "B2",
                            format!("B2/unexplained-query/{}/{class}", if *is_host { "hostname" } else { "browse" }),
                            format!(
                                "a query for {} at +{} ms is explained neither by the back-off schedule of the running search, nor by a refresh mark, nor by a new interface",
                                wire::escaped(name),
                                q.t.saturating_sub(mine.first().map(|s| s.t0).unwrap_or(q.t))
                            ),
                        )
                        .with(json!({"api": scen::api_log(trace), "stepping": format!("{stepping:?}"),
                                     "trace": scen::witness_window(trace, q.t.saturating_sub(4000), q.t + 10, 50)})),
                    );
                    break;
                }
            }
        }
    }
}

pub fn run_one(seed: u64, mode: u64, l: &mut Local) {
    // mode 0: mixed short histories; 1: hours-long; 2: a lone search over three days
    let made = match mode {
        2 => lone_search(seed),
        1 => c13::scenario(seed, None, true),
        _ => c13::scenario(seed, None, false),
    };
    l.evaluations += 1;
    let w = &made.world;
    l.count("daemon_iterations", w.total_iterations);
    l.count("virtual_s", (made.horizon - w.trace.entries.first().map(|e| e.t).unwrap_or(made.horizon)) / 1000);
    l.count("queries_seen", scen::tx_msgs(&w.trace, 0).iter().filter(|t| t.msg.is_query()).count() as u64);
    if let Some(d) = w.trace.deaths().find(|d| matches!(d.ev, Ev::Death { panicked: true, .. })) {
        // nothing hostile happens in these histories: a daemon thread that panics here ends every search without a
        // word - "for as long as it runs" is over, and so are the queries the statement asks for
        let Ev::Death { msg, file, .. } = &d.ev else { unreachable!() };
        l.act("B3");
        l.violate(
            Violation::new("B3", format!("B3/search-fell-silent/daemon-thread-died/{}/{}", util::strip_numbers(msg), file), format!("the daemon thread panicked {} s into the history ({msg}): its searches ask nothing any more", (d.t - w.trace.entries.first().map(|e| e.t).unwrap_or(d.t)) / 1000))
                .with(json!({"scenario": made.desc, "api": scen::api_log(&w.trace), "seed": seed})),
        );
        return;
    }
    l.distinct.insert(util::fnv_str(&format!("{mode}|{}", made.desc)));
    if l.samples.len() < 2 {
        l.samples.push(json!({"scenario": made.desc, "api": scen::api_log(&w.trace)}));
    }
    monitor(&w.trace, w.stepping, made.horizon, l);
}

/// One browse (or hostname search) left alone for three virtual days, with or without a responder.
fn lone_search(seed: u64) -> c13::Made {
    let mut rng = Rng::new(seed);
    let mut w = World::new(seed);
    w.stepping = Stepping::Lazy;
    let h = w.add_host(if rng.chance(1, 2) { scen::single_v4() } else { scen::single_dual() });
    w.set_ip_check_interval(h, 3600);
    let t0 = w.now();
    let host_search = rng.chance(1, 3);
    let mut desc = String::from("lone ");
    if host_search {
        w.resolve_hostname(h, "alpha.local.", None);
        desc.push_str("resolve_hostname");
    } else {
        w.browse(h, "_t._udp.local.");
        desc.push_str("browse");
    }
    if rng.chance(1, 2) {
        // a responder that announces once with long TTLs (refresh marks far out)
        w.run_for(rng.below(5000));
        if host_search {
            let mut m = wire::Message::response();
            m.answers.push(wire::a(&wire::name("alpha.local"), 4500, [10, 0, 0, 60]));
            w.inject_msg(h, 2, scen::peer4(60), &m);
        } else {
            let mut s = scen::Svc::new("_t._udp.local.", "inst0", "srvhost0.local", [10, 0, 0, 30]);
            s.ttl_ptr = 4500;
            s.ttl_srv = 4500;
            s.ttl_addr = 4500;
            w.inject_msg(h, 2, scen::peer4(30), &s.announce());
        }
        desc.push_str(" +responder");
    }
    let horizon = t0 + 3 * 86_400_000;
    w.run_until(horizon);
    c13::Made { world: w, horizon, desc }
}

/// B4: the follow-up exemption is "at most three, half a second apart, for a newly found
/// instance". An instance is delivered in stages (PTR first; SRV/TXT later or never; no
/// address ever), nobody answers the daemon's follow-up questions, the type is sometimes
/// browsed again: every query instant that asks about the instance or its host is a
/// follow-up round; more than three rounds, or two rounds closer than half a second, is
/// asking more often than the statement allows.
pub fn followup_case(seed: u64, l: &mut Local) {
    let mut rng = Rng::new(seed);
    let mut w = World::new(seed);
    let stepping = if rng.chance(1, 3) { Stepping::Eager(10) } else { Stepping::Lazy };
    w.set_stepping(stepping);
    let sl = slack(stepping);
    let h = w.add_host(if rng.chance(1, 3) { scen::single_dual() } else { scen::single_v4() });
    w.set_ip_check_interval(h, 3600);
    let t0 = w.now();
    w.browse(h, "_t._udp.local.");
    let mut s = scen::Svc::new("_t._udp.local.", "staged", "printer.local", [10, 0, 0, 30]);
    s.ttl_ptr = 4500;
    s.ttl_srv = 4500;
    s.ttl_txt = 4500;
    let t_ptr = 50 + rng.below(900);
    let mut events: Vec<(u64, u8)> = vec![(t_ptr, 0)];
    let srv_later = rng.chance(2, 3);
    if srv_later {
        events.push((t_ptr + 20 + rng.below(2500), 1));
    }
    if rng.chance(1, 3) {
        events.push((t_ptr + 300 + rng.below(4000), 2)); // the PTR once more
    }
    if rng.chance(1, 2) {
        events.push((8000 + rng.below(4000), 3)); // the type browsed again
    }
    events.sort();
    let mut desc = String::from("staged delivery:");
    for (t, k) in events {
        w.run_until(t0 + t);
        let mut m = wire::Message::response();
        match k {
            0 | 2 => {
                m.answers.push(s.ptr());
                desc.push_str(&format!(" @{t}:ptr"));
            }
            1 => {
                m.answers.push(s.srv());
                // one delivery in three: a second SRV record for the instance (another port, same target, neither
                // with the cache-flush bit), as a service that moved ports leaves behind
                let two = util::mix(seed, 0x2B) % 3 == 0;
                if two {
                    m.answers[0].class &= !wire::FLUSH;
                    let mut second = s.srv();
                    second.class &= !wire::FLUSH;
                    if let wire::RData::Srv { port, .. } = &mut second.rdata {
                        *port += 1;
                    }
                    m.answers.push(second);
                }
                if rng.chance(2, 3) {
                    m.answers.push(s.txt());
                }
                desc.push_str(&format!(" @{t}:srv{}", if two { "-twice" } else { "" }));
            }
            _ => {
                w.browse(h, "_t._udp.local.");
                desc.push_str(&format!(" @{t}:browse-again"));
                continue;
            }
        }
        w.inject_msg(h, 2, scen::peer4(30), &m);
    }
    let horizon = t0 + 16_000;
    w.run_until(horizon);
    l.evaluations += 1;
    l.distinct.insert(util::fnv_str(&format!("followup|{}", desc.split('@').map(|x| x.split(':').nth(1).unwrap_or("")).collect::<Vec<_>>().join(","))));
    if w.trace.deaths().any(|d| matches!(d.ev, Ev::Death { panicked: true, .. })) {
        l.inconclusive.push(format!("daemon died in a C19 follow-up scenario (seed {seed})"));
        return;
    }
    let txs = scen::tx_msgs(&w.trace, 0);
    let about = |q: &wire::Question| wire::names_eq_nocase(&q.name, &s.inst) || wire::names_eq_nocase(&q.name, &s.host);
    let mut rounds: Vec<u64> = txs.iter().filter(|tx| tx.msg.is_query() && tx.msg.questions.iter().any(about)).map(|tx| tx.t - t0).collect();
    rounds.dedup();
    l.act("B4");
    let wit = || json!({"scenario": desc, "follow_up_rounds_ms": rounds, "trace": scen::witness_window(&w.trace, t0, horizon, 60)});
    if rounds.len() > 3 {
        l.violate(Violation::new("B4", "B4/more-than-three-follow-up-rounds", format!("{} query rounds about one newly found instance and its host (at {:?} ms)", rounds.len(), rounds)).with(wit()));
        return;
    }
    if let Some(p) = rounds.windows(2).find(|p| p[1] - p[0] + sl + 1 < 500) {
        l.violate(Violation::new("B4", "B4/follow-ups-closer-than-half-a-second", format!("follow-up rounds {} ms apart (at {:?} ms)", p[1] - p[0], rounds)).with(wit()));
        return;
    }
    // within a round each question leaves once on each interface and family
    let mut seen: std::collections::HashSet<(u64, Option<u32>, bool, String, u16)> = std::collections::HashSet::new();
    for tx in txs.iter().filter(|tx| tx.msg.is_query()) {
        for q in tx.msg.questions.iter().filter(|q| about(q)) {
            if !seen.insert((tx.t, tx.out_if, tx.v4, wire::dotted(&q.name).to_lowercase(), q.qtype)) {
                l.violate(
                    Violation::new("B4", "B4/same-follow-up-question-twice-in-one-round", format!("the question {} type {} left twice at +{} ms on interface {:?} over {}", wire::dotted(&q.name), q.qtype, tx.t - t0, tx.out_if, if tx.v4 { "IPv4" } else { "IPv6" }))
                        .with(wit()),
                );
                return;
            }
        }
    }
}

/// "for as long as it runs": a second browse of the type whose receiver is dropped before the daemon gets to
/// it either replaces the search or is ignored - in both readings questions for the type keep going out.
pub fn abandoned_rebrowse_case(seed: u64, l: &mut Local) {
    let mut rng = Rng::new(seed);
    let mut w = World::new(seed);
    let stepping = if rng.chance(1, 3) { Stepping::Eager(10) } else { Stepping::Lazy };
    w.set_stepping(stepping);
    let h = w.add_host(if rng.chance(1, 3) { scen::single_dual() } else { scen::single_v4() });
    w.set_ip_check_interval(h, 3600);
    let ty = "_t._udp.local.";
    let t0 = w.now();
    let Some(_kept) = w.browse(h, ty) else { return };
    let d = *rng.pick(&[0u64, 200, 1000, 1500, 3500, 8000]);
    w.run_until(t0 + d);
    let cache_only = rng.chance(1, 4);
    let c2 = if cache_only { w.browse_cache(h, ty) } else { w.browse(h, ty) };
    if let Some(c2) = c2 {
        w.drop_chan(c2);
    }
    let t2 = w.now();
    w.run_until(t2 + 34_000);
    l.evaluations += 1;
    l.distinct.insert(util::fnv_str(&format!("abandoned|{d}|{cache_only}|{stepping:?}")));
    if w.trace.deaths().any(|d| matches!(d.ev, Ev::Death { panicked: true, .. })) {
        l.inconclusive.push(format!("daemon died in a C19 scenario (seed {seed})"));
        return;
    }
    l.act("B1-abandoned-rebrowse");
    let ty_name = scen::wire_name(ty);
    let txs = scen::tx_msgs(&w.trace, 0);
    let mut later: Vec<u64> = txs.iter().filter(|tx| tx.t > t2 && tx.msg.is_query() && scen::has_question(tx.msg, &ty_name, wire::T_PTR)).map(|tx| tx.t - t2).collect();
    later.dedup();
    // whichever chain is the right one (started at the first call or at the second), it has at least two
    // instants inside 34 s
    if later.len() < 2 {
        l.violate(
            Violation::new("B1", "B1/search-fell-silent/after-abandoned-second-browse", format!("a second {} of the type was issued {d} ms into the search and its receiver dropped at once; in the 34 s after that the type was asked for at {later:?} ms only", if cache_only { "browse_cache" } else { "browse" }))
                .with(json!({"trace": scen::witness_window(&w.trace, t0, t2 + 34_000, 50)})),
        );
    }
}

/// B5: an explicit verify request is exempt from the schedule of the search, not from backing off: the
/// questions it causes about the instance and its host may come at the request, one second later, three
/// seconds later ... (the doubling chain started afresh), never more often.
pub fn verify_case(seed: u64, l: &mut Local) {
    let mut rng = Rng::new(seed);
    let mut w = World::new(seed);
    let stepping = if rng.chance(1, 3) { Stepping::Eager(10) } else { Stepping::Lazy };
    w.set_stepping(stepping);
    let sl = slack(stepping);
    let dual = rng.chance(1, 3);
    let h = w.add_host(if dual { scen::single_dual() } else { scen::single_v4() });
    w.set_ip_check_interval(h, 3600);
    let t0 = w.now();
    w.browse(h, "_t._udp.local.");
    let label = if rng.chance(1, 2) { "Front Desk" } else { "verified" };
    let mut s = scen::Svc::new("_t._udp.local.", label, "printer.local", [10, 0, 0, 30]);
    s.ttl_ptr = 4500;
    s.ttl_srv = 4500;
    s.ttl_txt = 4500;
    s.ttl_addr = 4500;
    w.run_until(t0 + 50 + rng.below(900));
    w.inject_msg(h, 2, scen::peer4(30), &s.announce());
    let tv = t0 + 2000 + rng.below(6000);
    w.run_until(tv);
    let timeout = *rng.pick(&[3000u64, 5000, 10_000, 30_000]);
    w.verify(h, &s.fullname(), timeout);
    let answers = rng.chance(1, 2);
    let horizon = tv + timeout + 3000;
    let mut seen = w.trace.entries.len();
    let mut cb = |w: &mut World| {
        let mut any = false;
        let n = w.trace.entries.len();
        let mut replies = Vec::new();
        for e in w.trace.entries[seen..n].iter() {
            let Ev::Tx(tx) = &e.ev else { continue };
            let Ok(m) = &tx.msg else { continue };
            if !answers || !m.is_query() {
                continue;
            }
            if m.questions.iter().any(|q| wire::names_eq_nocase(&q.name, &s.inst) || wire::names_eq_nocase(&q.name, &s.host)) {
                let mut r = wire::Message::response();
                r.answers.push(s.srv());
                r.answers.push(s.txt());
                r.answers.extend(s.addrs());
                replies.push(r);
            }
        }
        seen = n;
        for r in replies {
            w.inject_msg(h, 2, scen::peer4(30), &r);
            any = true;
        }
        any
    };
    w.run_until_cb(horizon, &mut cb);
    l.evaluations += 1;
    l.distinct.insert(util::fnv_str(&format!("verify|{timeout}|{answers}|{dual}|{stepping:?}|{}", (tv - t0) / 500)));
    if w.trace.deaths().any(|d| matches!(d.ev, Ev::Death { panicked: true, .. })) {
        l.inconclusive.push(format!("daemon died in a C19 verify scenario (seed {seed})"));
        return;
    }
    let txs = scen::tx_msgs(&w.trace, 0);
    let about = |q: &wire::Question| wire::names_eq_nocase(&q.name, &s.inst) || wire::names_eq_nocase(&q.name, &s.host);
    let mut rounds: Vec<u64> = txs.iter().filter(|tx| tx.t >= tv && tx.t < tv + timeout && tx.msg.is_query() && tx.msg.questions.iter().any(about)).map(|tx| tx.t - tv).collect();
    rounds.dedup();
    l.act("B5");
    let chain = crate::model::schedule(0, timeout + 1000);
    let wit = || json!({"scenario": format!("verify({}, {timeout} ms) at +{} ms, responder {}", s.fullname(), tv - t0, if answers { "answers" } else { "silent" }), "query_rounds_ms_after_the_request": rounds, "trace": scen::witness_window(&w.trace, tv, horizon, 60)});
    for (j, at) in rounds.iter().enumerate() {
        let allowed = chain.get(j).copied().unwrap_or(u64::MAX);
        if at + sl + 1 < allowed {
            l.violate(
                Violation::new(
                    "B5",
                    format!("B5/verify-asks-more-often-than-the-back-off-allows/{}", if answers { "answered" } else { "unanswered" }),
                    format!("after one verify request the questions about the instance went out at {rounds:?} ms; the round no. {} came {} ms after the request, the doubling schedule allows it after {} ms", j + 1, at, allowed),
                )
                .with(wit()),
            );
            return;
        }
    }
}

pub fn run(report: &Report, tier: &Tier) {
    report.set_rule(
        "the C13 'searches' workload (browse / browse again / stop / resolve_hostname with and without timeouts / dropped receivers, with \
         responders) over 20 s and over 2-3 virtual hours, plus lone searches left running for three virtual days; every PTR query for a \
         browsed type and every A/AAAA query for a resolved host name is attributed; plus an instance delivered in stages (PTR, then SRV/TXT or not, \
         never an address; PTR repeated; type browsed again) with nobody answering: the follow-up rounds about it are counted and timed; \
         plus one verify request (timeout 3..30 s) for a resolved instance whose responder answers or stays silent: the questions it causes are held against the doubling chain started at the request; \
         distinct by (mode, stepping, operation sequence) / staging",
    );
    report.assume("services of browsed types live on hosts nobody resolves by name; in the search workloads follow-up and verify queries (instance ANY/SRV/TXT, host A/AAAA of browsed instances) are not attributed; the follow-up exemption is judged by B4 on staged deliveries");
    for r in ["B1", "B2", "B3", "B4", "B5", "B1-abandoned-rebrowse"] {
        report.floor(r, 50);
    }
    report.floor("B2-refresh", 5);
    let seed = report.seed;
    let n: u64 = if tier.thorough { 250_000 } else { 2_400 };
    // follow-up rounds for an instance delivered in stages
    let nf: u64 = if tier.thorough { 120_000 } else { 1_000 };
    run_parallel(report, nf, threads(), tier.budget_s * 0.15, |i, l| {
        if i % 3 == 2 {
            verify_case(util::mix(seed, 0xC19_E000 + i), l);
        } else if i % 6 == 1 {
            abandoned_rebrowse_case(util::mix(seed, 0xC19_D000 + i), l);
        } else {
            followup_case(util::mix(seed, 0xC19_F000 + i), l);
        }
    });
    run_parallel(report, n, threads(), tier.budget_s * 0.85, |i, l| {
        let mode = match i % 12 {
            0 => 2,
            1..=3 => 1,
            _ => 0,
        };
        run_one(util::mix(seed, 0xC19_0000 + i), mode, l);
    });
}
