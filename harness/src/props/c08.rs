//! C08 — name conflicts resolve to one winner and a consistent new name for the loser.
//!
//! Part R: one daemon, conflicting responses injected at every point of probing, hostile
//!   names; afterwards questions of every type for old and new names, then unregister or
//!   shutdown. Rules N1 (old name not taken, NameChange, new name probed), N4 (every later
//!   packet uses the new names only, and the new names are answered for), N5 (encodable).
//! Part T: the simultaneous-probe comparison: one daemon probing with record set X is shown
//!   a probe carrying Y; N2 (a loser waits one second, then probes again), N3 (X against Y
//!   and Y against X reach opposite verdicts), N3b (direction where the statement fixes it).
//! Part D: two or three daemons on one loss-free link claim the same names with different
//!   data at every relative offset; N6 (exactly one keeps the original names, all announced).

use crate::report::{run_parallel, threads, Local, Report, Violation};
use crate::scen::{self, TxM};
use crate::util::{self, Rng};
use crate::wire::{self, Message, Name, RData};
use crate::world::*;
use crate::Tier;
use serde_json::json;
use std::net::IpAddr;

// ---------------------------------------------------------------------------
// The renaming rule of the statement, on labels

/// 'x' -> 'x (2)' -> 'x (3)' ...
pub fn next_instance_label(label: &[u8]) -> Vec<u8> {
    if let Some(pos) = find_last(label, b" (") {
        if label.last() == Some(&b')') {
            let digits = &label[pos + 2..label.len() - 1];
            if !digits.is_empty() && digits.iter().all(|b| b.is_ascii_digit()) {
                if let Ok(n) = std::str::from_utf8(digits).unwrap().parse::<u64>() {
                    let mut v = label[..pos].to_vec();
                    v.extend(format!(" ({})", n + 1).as_bytes());
                    return v;
                }
            }
        }
    }
    let mut v = label.to_vec();
    v.extend(b" (2)");
    v
}

/// 'h' -> 'h-2' -> 'h-3' ...
pub fn next_host_label(label: &[u8]) -> Vec<u8> {
    if let Some(pos) = label.iter().rposition(|b| *b == b'-') {
        let digits = &label[pos + 1..];
        if !digits.is_empty() && digits.iter().all(|b| b.is_ascii_digit()) {
            if let Ok(n) = std::str::from_utf8(digits).unwrap().parse::<u64>() {
                let mut v = label[..pos].to_vec();
                v.extend(format!("-{}", n + 1).as_bytes());
                return v;
            }
        }
    }
    let mut v = label.to_vec();
    v.extend(b"-2");
    v
}

fn find_last(hay: &[u8], needle: &[u8]) -> Option<usize> {
    (0..hay.len().saturating_sub(needle.len() - 1)).rev().find(|i| &hay[*i..*i + needle.len()] == needle)
}

fn label_text(l: &[u8]) -> String {
    String::from_utf8_lossy(l).to_string()
}

// ---------------------------------------------------------------------------
// Part R

#[derive(Clone, Debug, PartialEq)]
pub enum Conflict {
    Srv,
    Txt,
    A,
    Aaaa,
    SrvAndA,
}

pub struct MadeR {
    pub world: World,
    pub desc: String,
    pub reg: RegInfo,
    pub reg_idx: usize,
    pub if_index: u32,
    pub other_ifs: Vec<u32>,
    /// (entry index of the injected packet, what it contested, the names it named)
    pub conflicts: Vec<(usize, Conflict, Name, Name)>,
    pub monitor_chan: Option<usize>,
    /// (entry index, time, question)
    pub questions: Vec<(usize, u64, wire::Question, bool)>,
    pub end_idx: usize,
    pub ended_by_shutdown: bool,
    pub horizon: u64,
}

fn instance_labels(rng: &mut Rng) -> String {
    // as given to ServiceInfo::new (dots inside the instance name are allowed there)
    let long = |n: usize| "L".repeat(n);
    match rng.below(18) {
        // a full-length label whose counter gains a digit with the next rename
        14 => format!("{} (9)", long(59)),
        15 => format!("{} (9)", long(*rng.pick(&[56usize, 57, 58]))),
        16 => format!("{} (99)", long(*rng.pick(&[55usize, 56, 57]))),
        17 => format!("{} (999)", long(56)),
        0 => "printer".into(),
        1 => "Printer One".into(),
        2 => "x (2)".into(),
        3 => "x (9)".into(),
        4 => "x (99)".into(),
        5 => "x (4294967295)".into(),
        6 => "y (3) z".into(),
        7 => "a.b".into(),
        8 => "v1.2 (2)".into(),
        9 => long(57),
        10 => long(59),
        11 => long(60),
        12 => long(63),
        _ => "caf\u{e9} (x)".into(),
    }
}

fn host_names(rng: &mut Rng) -> String {
    let long = |n: usize| "h".repeat(n);
    match rng.below(14) {
        11 => format!("{}-9.local.", long(61)),
        12 => format!("{}-9.local.", long(*rng.pick(&[58usize, 59, 60]))),
        13 => format!("{}-99.local.", long(*rng.pick(&[58usize, 59, 60]))),
        0 => "box.local.".into(),
        1 => "Box.local.".into(),
        2 => "box-2.local.".into(),
        3 => "box-9.local.".into(),
        4 => "box-4294967295.local.".into(),
        5 => "my-host.local.".into(),
        6 => "host-x.local.".into(),
        7 => format!("{}.local.", long(60)),
        8 => format!("{}.local.", long(61)),
        9 => format!("{}.local.", long(63)),
        _ => "a-1-2.local.".into(),
    }
}

pub fn scenario_r(seed: u64) -> MadeR {
    let mut rng = Rng::new(seed);
    let mut w = World::new(seed);
    w.set_stepping(Stepping::Lazy);
    let ifs = match rng.below(4) {
        0 | 1 => scen::single_v4(),
        2 => scen::single_dual(),
        _ => scen::two_v4(),
    };
    let jitter = *rng.pick(&[0u64, 3, 120, 249]);
    let h = w.add_host_with(ifs.clone(), |g| g.jitter = [jitter, jitter, jitter, jitter].into_iter().collect());
    w.set_ip_check_interval(h, 3600);
    let monitor_chan = w.monitor(h);
    let t0 = w.now();
    let addrs: Vec<IpAddr> = ifs.iter().flat_map(|i| i.addrs.iter().map(|(a, _)| *a)).collect();
    let ty = if rng.chance(1, 4) { "_p._sub._t._udp.local." } else { "_t._udp.local." };
    let inst_label = instance_labels(&mut rng);
    let host = host_names(&mut rng);
    let reg0 = World::reg_info(ty, &inst_label, &host, &addrs, 1000, &[("k", Some(b"v"))]);
    let ok = w.register(h, reg0.clone());
    let reg_idx = w.trace.entries.len() - 1;
    let reg = match &w.trace.entries[reg_idx].ev {
        Ev::Api { call: ApiCall::Register(r), .. } => (**r).clone(),
        _ => reg0,
    };
    let inst = scen::wire_name(&reg.fullname);
    let host_name = scen::wire_name(&reg.host);
    let if_index = ifs[0].index;
    let other_ifs: Vec<u32> = ifs.iter().skip(1).map(|i| i.index).collect();
    let mut desc = format!("ifs={} jitter={jitter} type={ty} instance={inst_label:?} host={host:?} registered={ok}:", ifs.len());
    let mut conflicts = Vec::new();
    // the first conflict: anywhere from before the first probe to just before the announcement
    let kind = match rng.below(6) {
        0 | 1 => Conflict::Srv,
        2 => Conflict::Txt,
        3 => Conflict::A,
        4 => Conflict::SrvAndA,
        _ => {
            if ifs[0].has_family(false) {
                Conflict::Aaaa
            } else {
                Conflict::A
            }
        }
    };
    let at = if rng.chance(1, 5) { *rng.pick(&[jitter + 1, jitter + 249, jitter + 251, jitter + 499, jitter + 501, jitter + 749]) } else { 1 + rng.below(jitter + 745) };
    let build = |kind: &Conflict, inst: &Name, host_name: &Name| {
        let mut m = Message::response();
        if matches!(kind, Conflict::Srv | Conflict::SrvAndA) {
            m.answers.push(wire::srv(inst, 120, 9, &scen::wire_name("other.local.")));
        }
        if matches!(kind, Conflict::Txt) {
            m.answers.push(wire::txt(inst, 4500, wire::txt_encode(&[(b"other".to_vec(), Some(b"1".to_vec()))])));
        }
        if matches!(kind, Conflict::A | Conflict::SrvAndA) {
            m.answers.push(wire::a(host_name, 120, [10, 0, 0, 77]));
        }
        if matches!(kind, Conflict::Aaaa) {
            m.answers.push(wire::aaaa(host_name, 120, "fe80::77".parse::<std::net::Ipv6Addr>().unwrap().octets()));
        }
        for r in m.answers.iter_mut() {
            r.class |= wire::FLUSH;
        }
        m
    };
    if ok {
        w.run_until(t0 + at);
        let idx = w.trace.entries.len();
        // the other host may spell the name in another letter case: it is the same name
        let other_case = rng.chance(1, 6);
        let respell = |n: &Name| {
            let mut n = n.clone();
            if other_case {
                n[0] = n[0].iter().map(|b| if b.is_ascii_lowercase() { b.to_ascii_uppercase() } else { b.to_ascii_lowercase() }).collect();
            }
            n
        };
        w.inject_msg(h, if_index, scen::peer4(77), &build(&kind, &respell(&inst), &respell(&host_name)));
        conflicts.push((idx, kind.clone(), inst.clone(), host_name.clone()));
        desc.push_str(&format!(" @{at}:conflict-{kind:?}{}", if other_case { "-in-other-letter-case" } else { "" }));
        // sometimes the new name is contested too
        if rng.chance(1, 4) {
            // the names being probed now, read off the daemon's latest probe
            let (mut inst2, mut host2) = (inst.clone(), host_name.clone());
            let at_probe = at + 20 + rng.below(500);
            w.run_until(t0 + at_probe);
            {
                let txs = scen::tx_msgs(&w.trace, 0);
                for tx in txs.iter().filter(|tx| tx.out_if == Some(if_index) && tx.msg.is_query()) {
                    for r in tx.msg.authorities.iter() {
                        match r.rtype {
                            wire::T_SRV => inst2 = r.name.clone(),
                            wire::T_A | wire::T_AAAA => host2 = r.name.clone(),
                            _ => {}
                        }
                    }
                }
            }
            let at2 = at_probe + rng.below(500);
            w.run_until(t0 + at2);
            let idx = w.trace.entries.len();
            let (i2, h2) = (if matches!(kind, Conflict::A | Conflict::Aaaa) { inst.clone() } else { inst2 }, if matches!(kind, Conflict::Srv | Conflict::Txt) { host_name.clone() } else { host2 });
            if i2[0].len() <= 63 && h2[0].len() <= 63 {
                w.inject_msg(h, if_index, scen::peer4(78), &build(&kind, &i2, &h2));
                conflicts.push((idx, kind.clone(), i2, h2));
                desc.push_str(&format!(" @{at2}:second-conflict"));
            }
        }
    }
    // questions of every type for every name the service ever had
    let mut questions = Vec::new();
    let q_from = at + 3200;
    let mut times: Vec<u64> = (0..12 + rng.usize(10)).map(|_| q_from + rng.below(4000)).collect();
    times.sort();
    let ty_name = scen::wire_name(&reg.ty_only);
    for t in times {
        w.run_until(t0 + t);
        // names as announced most recently (read off the wire), or the registered ones
        let txs = scen::tx_msgs(&w.trace, 0);
        let current = txs.iter().filter(|tx| tx.out_if == Some(if_index)).filter_map(|tx| names_announced(tx, &ty_name, reg.port)).last();
        let (cur_inst, cur_host) = current.unwrap_or((inst.clone(), host_name.clone()));
        let q = match rng.below(10) {
            0 => wire::question(&ty_name, wire::T_PTR),
            1 => wire::question(&cur_inst, wire::T_SRV),
            2 => wire::question(&cur_inst, wire::T_TXT),
            3 => wire::question(&cur_inst, wire::T_ANY),
            4 => wire::question(&cur_host, if rng.chance(1, 2) { wire::T_A } else { wire::T_ANY }),
            5 => wire::question(&inst, wire::T_SRV),
            6 => wire::question(&inst, wire::T_ANY),
            7 => wire::question(&host_name, wire::T_A),
            8 => wire::question(&scen::wire_name("_services._dns-sd._udp.local."), wire::T_PTR),
            _ => wire::question(&inst, wire::T_TXT),
        };
        let wake = w.hosts[h].ctx.lock().wakeup;
        let isolated = wake.is_none_or(|x| x > w.now()) && !w.hosts[h].needs_run;
        let mut m = Message::query();
        m.questions.push(q.clone());
        let idx = w.trace.entries.len();
        w.inject_msg(h, if_index, scen::peer4(99), &m);
        w.settle();
        questions.push((idx, w.now(), q, isolated));
    }
    w.run_until(t0 + q_from + 4200);
    let ended_by_shutdown = rng.chance(1, 2);
    if ended_by_shutdown {
        w.shutdown(h);
    } else {
        w.unregister(h, &reg.fullname);
    }
    let end_idx = w.trace.entries.len() - 1;
    desc.push_str(if ended_by_shutdown { " shutdown" } else { " unregister" });
    let horizon = w.now() + 1500;
    w.run_until(horizon);
    MadeR { world: w, desc, reg, reg_idx, if_index, other_ifs, conflicts, monitor_chan, questions, end_idx, ended_by_shutdown, horizon }
}

/// (instance, host) under which a multicast response carries the service of `ty` on `port`, TTL above zero.
fn names_announced(tx: &TxM, ty: &Name, port: u16) -> Option<(Name, Name)> {
    if !tx.msg.is_response() || !tx.multicast {
        return None;
    }
    for p in tx.msg.answers.iter().filter(|r| r.ttl > 0 && r.rtype == wire::T_PTR && wire::names_eq_nocase(&r.name, ty)) {
        let RData::Ptr(inst) = &p.rdata else { continue };
        for s in tx.msg.answers.iter().filter(|r| r.rtype == wire::T_SRV && wire::names_eq_nocase(&r.name, inst)) {
            if let RData::Srv { port: sp, target, .. } = &s.rdata {
                if *sp == port {
                    return Some((inst.clone(), target.clone()));
                }
            }
        }
    }
    None
}

fn mentions(m: &Message, name: &Name) -> Option<&'static str> {
    for (sec, recs) in [("answer", &m.answers), ("authority", &m.authorities), ("additional", &m.additionals)] {
        for r in recs.iter() {
            if wire::names_eq_nocase(&r.name, name) {
                return Some(match (sec, r.rtype) {
                    ("answer", wire::T_SRV) => "srv-owner",
                    ("answer", wire::T_TXT) => "txt-owner",
                    ("answer", wire::T_A | wire::T_AAAA) => "address-owner",
                    ("answer", _) => "owner",
                    ("additional", wire::T_A | wire::T_AAAA) => "additional-address-owner",
                    ("additional", wire::T_NSEC) => "additional-nsec-owner",
                    ("additional", _) => "additional-owner",
                    _ => "authority-owner",
                });
            }
            match &r.rdata {
                RData::Ptr(t) if wire::names_eq_nocase(t, name) => return Some("ptr-target"),
                RData::Srv { target, .. } if wire::names_eq_nocase(target, name) => return Some("srv-target"),
                RData::NSec { next, .. } if wire::names_eq_nocase(next, name) => return Some("nsec-next"),
                _ => {}
            }
        }
    }
    None
}

pub fn monitor_r(made: &MadeR, l: &mut Local) {
    let trace = &made.world.trace;
    let reg = &made.reg;
    if made.conflicts.is_empty() {
        return;
    }
    let txs_all = scen::tx_msgs(trace, 0);
    let txs: Vec<&TxM> = txs_all.iter().filter(|tx| tx.out_if == Some(made.if_index)).collect();
    let ty = scen::wire_name(&reg.ty_only);
    let inst0 = scen::wire_name(&reg.fullname);
    let host0 = scen::wire_name(&reg.host);
    let query_iters = scen::query_iters(trace, 0);
    // was the first conflict delivered while the name was still being probed? (nothing announced before it)
    let (c_idx, kind, _, _) = &made.conflicts[0];
    let t_conf = trace.entries[*c_idx].t;
    let announced_before = txs.iter().any(|tx| tx.idx < *c_idx && names_announced(tx, &ty, reg.port).is_some());
    if announced_before {
        l.count("conflict_after_announcement", 1);
        return;
    }
    // a conflict binds when it is delivered while the name is being probed: before the third probe is 250 ms old
    let during_probing = |name: &Name, idx: usize| -> bool {
        let t = trace.entries[idx].t;
        let probes: Vec<u64> = txs.iter().filter(|tx| tx.idx < idx && tx.v4 && tx.msg.is_query() && scen::has_question(tx.msg, name, wire::T_ANY) && tx.msg.authorities.iter().any(|r| wire::names_eq_nocase(&r.name, name))).map(|tx| tx.t).collect();
        probes.len() < 3 || t < probes[probes.len() - 1] + 250
    };
    // names that were lost, in order
    let mut lost_insts: Vec<Name> = Vec::new();
    let mut lost_hosts: Vec<Name> = Vec::new();
    let mut binding: Vec<&(usize, Conflict, Name, Name)> = Vec::new();
    for c in made.conflicts.iter() {
        let (idx, k, i, h) = c;
        let mut bound = false;
        if matches!(k, Conflict::Srv | Conflict::Txt | Conflict::SrvAndA) && during_probing(i, *idx) && !lost_insts.iter().any(|x| wire::names_eq_nocase(x, i)) {
            // (only a name the daemon actually holds: the registered one or the successor of a lost one)
            lost_insts.push(i.clone());
            bound = true;
        }
        if matches!(k, Conflict::A | Conflict::Aaaa | Conflict::SrvAndA) && during_probing(h, *idx) && !lost_hosts.iter().any(|x| wire::names_eq_nocase(x, h)) {
            lost_hosts.push(h.clone());
            bound = true;
        }
        if bound {
            binding.push(c);
        } else {
            l.count("conflict_after_probing", 1);
        }
    }
    if binding.is_empty() || binding[0].0 != *c_idx {
        return;
    }
    let inst_contested = !lost_insts.is_empty();
    let host_contested = !lost_hosts.is_empty();
    let kind_s = format!("{kind:?}").to_lowercase();
    let wit = |from: u64, to: u64| {
        json!({"scenario": made.desc, "registered": format!("{} on {}", reg.fullname, reg.host),
               "events": made.monitor_chan.map(|c| trace.obs(c).map(|(e, o)| format!("+{}ms {:?}", e.t - EPOCH, o)).collect::<Vec<_>>()),
               "trace": scen::witness_window(trace, from, to, 60)})
    };
    let end_t = trace.entries[made.end_idx].t;
    // N1: a lost name is never announced after the conflict
    l.act("N1");
    for tx in txs.iter().filter(|tx| tx.idx > *c_idx && tx.msg.is_response()) {
        for lost in lost_insts.iter().chain(lost_hosts.iter()) {
            // the second conflict's names only count from its own delivery on
            let since = made.conflicts.iter().find(|(_, _, i, h)| wire::names_eq_nocase(i, lost) || wire::names_eq_nocase(h, lost)).map(|(i, _, _, _)| *i).unwrap_or(0);
            let is_inst = lost_insts.iter().any(|x| wire::names_eq_nocase(x, lost));
            let since = made.conflicts.iter().filter(|(_, k, i, h)| if is_inst { matches!(k, Conflict::Srv | Conflict::Txt | Conflict::SrvAndA) && wire::names_eq_nocase(i, lost) } else { matches!(k, Conflict::A | Conflict::Aaaa | Conflict::SrvAndA) && wire::names_eq_nocase(h, lost) }).map(|(i, _, _, _)| *i).next().unwrap_or(since);
            if tx.idx <= since {
                continue;
            }
            let Some(place) = mentions(tx.msg, lost) else { continue };
            let what = if tx.msg.records().all(|r| r.ttl == 0) {
                "goodbye"
            } else if tx.multicast && !query_iters.contains(&tx.iter) {
                "announcement"
            } else {
                "answer"
            };
            let rule = if what == "announcement" && tx.t < t_conf + 3000 { "N1" } else { "N4" };
            l.violate(
                Violation::new(
                    rule,
                    format!("{rule}/lost-name-used/{}/{what}/{place}/conflict-{kind_s}", if is_inst { "instance" } else { "host" }),
                    format!("after losing {} to a conflicting {kind:?} record the daemon still sent it ({what}, as {place})", wire::escaped(lost)),
                )
                .with(wit(tx.t.saturating_sub(1200), tx.t)),
            );
            return;
        }
    }
    // N1b: the service is announced under the statement's new names, after three probes for each new name, and a NameChange tells
    let mut exp_inst = inst0.clone();
    for _ in lost_insts.iter() {
        exp_inst[0] = next_instance_label(&exp_inst[0]);
    }
    let mut exp_host = host0.clone();
    for _ in lost_hosts.iter() {
        exp_host[0] = next_host_label(&exp_host[0]);
    }
    let encodable = exp_inst[0].len() <= 63 && exp_host[0].len() <= 63;
    let last_conf_t = binding.iter().map(|(i, _, _, _)| trace.entries[*i].t).max().unwrap();
    let first_ann = txs.iter().filter(|tx| tx.idx > *c_idx && tx.t <= end_t).find_map(|tx| names_announced(tx, &ty, reg.port).map(|n| (tx.t, tx.idx, n)));
    l.act("N1-renamed");
    let Some((t_ann, ann_idx, _)) = first_ann.clone() else {
        l.violate(
            Violation::new("N1", format!("N1/never-announced-after-conflict/conflict-{kind_s}{}", if encodable { "" } else { "/new-label-longer-than-63" }), format!("after the conflict the service was never announced under any name ({} s watched)", (end_t - t_conf) / 1000))
                .with(wit(t_conf.saturating_sub(300), t_conf + 4000)),
        );
        return;
    };
    // the names in force at the end (after all conflicts)
    let last_ann = txs.iter().filter(|tx| tx.idx > *c_idx && tx.t <= end_t && tx.t > last_conf_t).filter_map(|tx| names_announced(tx, &ty, reg.port)).last();
    let Some((fin_inst, fin_host)) = last_ann else {
        l.violate(Violation::new("N1", format!("N1/never-announced-after-conflict/conflict-{kind_s}"), "after the last conflict the service was never announced").with(wit(last_conf_t, last_conf_t + 4000)));
        return;
    };
    if encodable {
        // (a counter at 2^32-1 may count on or start over with a fresh suffix: the statement does not say; DESIGN §12)
        let alt = |lost: &[Name], orig: &Name, host: bool| -> Name {
            let mut n = orig.clone();
            for _ in lost.iter() {
                let l = label_text(&n[0]);
                let at_max = if host { l.ends_with("-4294967295") } else { l.ends_with(" (4294967295)") };
                n[0] = if at_max {
                    let mut v = n[0].clone();
                    v.extend(if host { b"-2".to_vec() } else { b" (2)".to_vec() });
                    v
                } else if host {
                    next_host_label(&n[0])
                } else {
                    next_instance_label(&n[0])
                };
            }
            n
        };
        let inst_ok = wire::names_eq_nocase(&fin_inst, &exp_inst) || wire::names_eq_nocase(&fin_inst, &alt(&lost_insts, &inst0, false));
        let host_ok = wire::names_eq_nocase(&fin_host, &exp_host) || wire::names_eq_nocase(&fin_host, &alt(&lost_hosts, &host0, true));
        if !inst_ok || !host_ok {
            let shape = |orig: &Name| {
                let s = label_text(&orig[0]);
                if s.contains('.') {
                    "label-with-dot"
                } else if s.ends_with(')') || s.rsplit('-').next().is_some_and(|d| !d.is_empty() && d.chars().all(|c| c.is_ascii_digit())) {
                    "label-with-suffix"
                } else {
                    "plain-label"
                }
            };
            l.violate(
                Violation::new(
                    "N1",
                    format!("N1/new-name-not-by-the-rule/{}/{}/conflict-{kind_s}", if !inst_ok { "instance" } else { "host" }, if !inst_ok { shape(&inst0) } else { shape(&host0) }),
                    format!("announced as {} on {}; by the rule ('x' -> 'x (2)', 'h' -> 'h-2', counting up) it is {} on {}", wire::escaped(&fin_inst), wire::escaped(&fin_host), wire::escaped(&exp_inst), wire::escaped(&exp_host)),
                )
                .with(wit(t_conf.saturating_sub(300), t_ann + 100)),
            );
            return;
        }
    } else {
        // N5: any encodable name other than the lost ones will do, but it must be what the daemon says it is
        l.act("N5");
        let bad = (inst_contested && lost_insts.iter().any(|x| wire::names_eq_nocase(x, &fin_inst))) || (host_contested && lost_hosts.iter().any(|x| wire::names_eq_nocase(x, &fin_host)));
        if bad {
            l.violate(Violation::new("N5", format!("N5/kept-lost-name-when-new-label-too-long/conflict-{kind_s}"), "the rule's new label would exceed 63 bytes; the daemon kept the name it lost").with(wit(t_conf, t_ann + 100)));
            return;
        }
    }
    // NameChange events: one for each renamed name, naming what is on the wire
    if let Some(c) = made.monitor_chan {
        l.act("N1-event");
        let changes: Vec<(String, String)> = trace.obs(c).filter_map(|(_, o)| if let Obs::NameChange { original, new_name, .. } = o { Some((original.clone(), new_name.clone())) } else { None }).collect();
        let said = |wire_name: &Name| changes.iter().any(|(_, n)| wire::names_eq_nocase(&scen::wire_name(n), wire_name));
        if inst_contested && !said(&fin_inst) {
            l.violate(
                Violation::new("N1", format!("N1/no-NameChange-for-announced-name/instance/conflict-{kind_s}{}", if encodable { "" } else { "/new-label-longer-than-63" }), format!("the service is announced as {} but no NameChange event names it (events: {changes:?})", wire::escaped(&fin_inst)))
                    .with(wit(t_conf, t_ann + 100)),
            );
            return;
        }
        if host_contested && !said(&fin_host) {
            l.violate(
                Violation::new("N1", format!("N1/no-NameChange-for-announced-name/host/conflict-{kind_s}{}", if encodable { "" } else { "/new-label-longer-than-63" }), format!("the host is announced as {} but no NameChange event names it (events: {changes:?})", wire::escaped(&fin_host)))
                    .with(wit(t_conf, t_ann + 100)),
            );
            return;
        }
    }
    // three probes for every new name before its announcement
    l.act("N1-probed");
    for (name, contested) in [(&fin_inst, inst_contested), (&fin_host, host_contested)] {
        if !contested {
            continue;
        }
        let first_ann_of_name = txs.iter().find(|tx| tx.idx > *c_idx && names_announced(tx, &ty, reg.port).is_some_and(|(i, h)| wire::names_eq_nocase(&i, name) || wire::names_eq_nocase(&h, name)));
        let Some(fa) = first_ann_of_name else { continue };
        let probes: Vec<u64> = txs
            .iter()
            .filter(|tx| tx.idx > *c_idx && tx.idx < fa.idx && tx.v4 == fa.v4 && tx.msg.is_query() && scen::has_question(tx.msg, name, wire::T_ANY) && tx.msg.authorities.iter().any(|r| wire::names_eq_nocase(&r.name, name)))
            .map(|tx| tx.t)
            .collect();
        let spaced = probes.windows(2).all(|p| p[1] - p[0] >= 250);
        if probes.len() < 3 || !spaced || fa.t < probes[probes.len() - 1] + 250 {
            l.violate(
                Violation::new("N1", format!("N1/new-name-announced-without-three-probes/conflict-{kind_s}"), format!("{} was announced after {} probe(s) at {:?}", wire::escaped(name), probes.len(), probes.iter().map(|t| t - EPOCH).collect::<Vec<_>>()))
                    .with(wit(t_conf, fa.t + 10)),
            );
            return;
        }
    }
    let _ = ann_idx;
    // N4 positive: questions for the names in force are answered with them
    for (q_idx, q_t, q, isolated) in made.questions.iter() {
        if !*isolated || *q_t <= t_ann + 1100 || *q_t <= last_conf_t + 3000 {
            continue;
        }
        let rx_iter = trace.entries[*q_idx].iter;
        let replies: Vec<&&TxM> = txs.iter().filter(|tx| tx.idx > *q_idx && tx.t == *q_t && tx.iter == rx_iter + 1 && tx.msg.is_response()).collect();
        let answered_with = |owner: &Name, rtype: u16| replies.iter().any(|tx| tx.msg.answers.iter().any(|r| r.rtype == rtype && r.ttl > 0 && wire::names_eq_nocase(&r.name, owner)));
        let for_inst = wire::names_eq_nocase(&q.name, &fin_inst);
        let for_host = wire::names_eq_nocase(&q.name, &fin_host);
        let for_type = wire::names_eq_nocase(&q.name, &ty);
        let qn = match q.qtype {
            wire::T_PTR => "PTR",
            wire::T_SRV => "SRV",
            wire::T_TXT => "TXT",
            wire::T_A => "A",
            wire::T_ANY => "ANY",
            _ => "other",
        };
        let renamed = !wire::names_eq_nocase(&fin_inst, &inst0) || !wire::names_eq_nocase(&fin_host, &host0);
        if !renamed {
            continue;
        }
        let missing = if for_inst && matches!(q.qtype, wire::T_SRV | wire::T_ANY) && !answered_with(&fin_inst, wire::T_SRV) {
            Some("srv")
        } else if for_inst && matches!(q.qtype, wire::T_TXT | wire::T_ANY) && !answered_with(&fin_inst, wire::T_TXT) {
            Some("txt")
        } else if for_host && matches!(q.qtype, wire::T_A | wire::T_ANY) && !answered_with(&fin_host, wire::T_A) {
            Some("address")
        } else if for_type && q.qtype == wire::T_PTR && !replies.iter().any(|tx| scen::answers_ptr(tx.msg, &ty, &fin_inst)) {
            Some("ptr")
        } else {
            None
        };
        if for_inst || for_host || for_type {
            l.act("N4-answers");
        }
        if let Some(m) = missing {
            l.violate(
                Violation::new("N4", format!("N4/question-for-new-name-unanswered/{qn}/{m}/conflict-{kind_s}"), format!("a {qn} question for {} (the name in force after the rename) got no {m} answer", wire::escaped(&q.name)))
                    .with(json!({"scenario": made.desc, "replies": replies.iter().map(|tx| render_msg(tx.msg)).collect::<Vec<_>>(), "trace": scen::witness_window(trace, q_t.saturating_sub(200), *q_t, 30)})),
            );
            return;
        }
        // and with the new host in SRV rdata and as owner of additional addresses
        for tx in replies.iter() {
            for r in tx.msg.records() {
                if let RData::Srv { target, .. } = &r.rdata {
                    if wire::names_eq_nocase(&r.name, &fin_inst) && !wire::names_eq_nocase(target, &fin_host) {
                        l.violate(
                            Violation::new("N4", format!("N4/srv-target-not-the-name-in-force/{qn}/conflict-{kind_s}"), format!("SRV of {} points at {}, the host name in force is {}", wire::escaped(&fin_inst), wire::escaped(target), wire::escaped(&fin_host)))
                                .with(json!({"scenario": made.desc, "replies": replies.iter().map(|tx| render_msg(tx.msg)).collect::<Vec<_>>()})),
                        );
                        return;
                    }
                }
            }
        }
    }
    // N5: whatever the daemon said the new names are is what is on the wire, and fits
    if let Some(c) = made.monitor_chan {
        for (_, o) in trace.obs(c) {
            let Obs::NameChange { new_name, .. } = o else { continue };
            l.act("N5");
            let n = scen::wire_name(new_name);
            if n.iter().any(|lab| lab.len() > 63) || n.iter().map(|lab| lab.len() + 1).sum::<usize>() + 1 > 255 {
                l.violate(
                    Violation::new("N5", format!("N5/reported-new-name-not-encodable/conflict-{kind_s}"), format!("NameChange reports a new name with a label of {} bytes: it cannot be what is on the wire", n.iter().map(|lab| lab.len()).max().unwrap_or(0)))
                        .with(wit(t_conf, t_ann + 100)),
                );
                return;
            }
        }
    }
}

pub fn run_r(seed: u64, l: &mut Local) {
    let made = scenario_r(seed);
    l.evaluations += 1;
    l.count("daemon_iterations", made.world.total_iterations);
    if made.world.trace.deaths().any(|d| matches!(d.ev, Ev::Death { panicked: true, .. })) {
        let d = made.world.trace.deaths().find(|d| matches!(d.ev, Ev::Death { panicked: true, .. })).unwrap();
        let Ev::Death { msg, file, .. } = &d.ev else { unreachable!() };
        l.act("N5");
        l.violate(
            Violation::new("N5", format!("N5/daemon-died-renaming/{}", util::strip_numbers(&format!("{msg} @{file}"))), format!("the daemon thread died after a conflict: {msg} @{file}"))
                .with(json!({"scenario": made.desc, "trace": made.world.trace.render_tail(25)})),
        );
        return;
    }
    let shape = format!("R|{}|{}|{}", made.conflicts.len(), made.conflicts.first().map(|c| format!("{:?}", c.1)).unwrap_or_default(), made.desc.split("instance=").nth(1).unwrap_or("").split(':').next().unwrap_or(""));
    l.distinct.insert(util::fnv_str(&shape));
    if l.samples.len() < 2 {
        l.samples.push(json!({"scenario": made.desc}));
    }
    let before = l.violations.len();
    monitor_r(&made, l);
    // names with a dot or backslash inside the instance label are their own class (DESIGN §12: the daemon decodes names without escapes)
    if made.reg.instance.contains('.') || made.reg.instance.contains('\\') {
        for v in l.violations.iter_mut().skip(before) {
            v.signature = if v.signature.starts_with("N1/lost-name-used/instance/") {
                "N1/conflict-on-instance-name-not-noticed/instance-label-with-dot".to_string()
            } else if v.signature.starts_with("N4/question-for-new-name-unanswered/") && !v.signature.contains("/address/") && !v.signature.contains("/ptr/") {
                "N4/question-for-instance-unanswered/instance-label-with-dot".to_string()
            } else {
                format!("{}/instance-label-with-dot", v.signature)
            };
        }
    }
}

// ---------------------------------------------------------------------------
// Part T: the simultaneous-probe comparison

/// What one prober proposes for the contested names.
#[derive(Clone, Debug, PartialEq)]
pub struct Claim {
    pub port: u16,
    pub txt: Vec<u8>,
    pub host: String,
    pub v4: Vec<[u8; 4]>,
    pub v6: Vec<[u8; 16]>,
}

const T_INST: &str = "contested";
const T_TY: &str = "_t._udp.local.";

impl Claim {
    pub fn records_for(&self, which: Which) -> Vec<wire::Record> {
        let inst = scen::wire_name(&format!("{T_INST}.{T_TY}"));
        let host = scen::wire_name(&self.host);
        let mut v = match which {
            Which::Instance => vec![wire::rec(&inst, wire::T_TXT, 1, 4500, RData::Txt(self.txt.clone())), wire::srv(&inst, 120, self.port, &host)],
            Which::Host => {
                let mut v: Vec<wire::Record> = self.v4.iter().map(|a| wire::a(&host, 120, *a)).collect();
                v.extend(self.v6.iter().map(|a| wire::aaaa(&host, 120, *a)));
                v
            }
        };
        // as a prober sends them: by class, type, then rdata
        v.sort_by(|a, b| (a.class_only(), a.rtype, rdata_bytes(&a.rdata)).cmp(&(b.class_only(), b.rtype, rdata_bytes(&b.rdata))));
        v
    }
}

#[derive(Clone, Copy, Debug, PartialEq)]
pub enum Which {
    Instance,
    Host,
}

/// RDATA as it is on the wire, names uncompressed.
fn rdata_bytes(r: &RData) -> Vec<u8> {
    let name_bytes = |n: &Name| {
        let mut v = Vec::new();
        for l in n {
            v.push(l.len() as u8);
            v.extend(l);
        }
        v.push(0);
        v
    };
    match r {
        RData::A(a) => a.to_vec(),
        RData::Aaaa(a) => a.to_vec(),
        RData::Ptr(n) => name_bytes(n),
        RData::Srv { priority, weight, port, target } => {
            let mut v = Vec::new();
            v.extend(priority.to_be_bytes());
            v.extend(weight.to_be_bytes());
            v.extend(port.to_be_bytes());
            v.extend(name_bytes(target));
            v
        }
        RData::Txt(t) => t.clone(),
        RData::Raw(t) => t.clone(),
        _ => Vec::new(),
    }
}

/// The statement's order on record sets: class, then type, then RDATA, then number of records.
pub fn compare_sets(x: &[wire::Record], y: &[wire::Record]) -> std::cmp::Ordering {
    for (a, b) in x.iter().zip(y.iter()) {
        let o = (a.class_only(), a.rtype, rdata_bytes(&a.rdata)).cmp(&(b.class_only(), b.rtype, rdata_bytes(&b.rdata)));
        if o != std::cmp::Ordering::Equal {
            return o;
        }
    }
    x.len().cmp(&y.len())
}

#[derive(Clone, Copy, Debug, PartialEq)]
pub enum Verdict {
    Yields,
    Ignores,
    Unclear,
}

pub struct ShownRun {
    pub verdict: Verdict,
    pub probes_after: Vec<u64>,
    pub t_shown: u64,
    pub announced_at: Option<u64>,
    pub trace: Vec<String>,
    pub died: bool,
}

/// A daemon registers `mine` and, `at` ms into probing, is shown a probe carrying `theirs` for `which` name.
pub fn shown(seed: u64, mine: &Claim, theirs: &Claim, which: Which, at: u64, jitter: u64, hostile_order: bool, other_case: bool) -> ShownRun {
    let mut w = World::new(seed);
    w.set_stepping(Stepping::Lazy);
    let ifs = if mine.v6.is_empty() { scen::single_v4() } else { scen::single_dual() };
    let h = w.add_host_with(ifs, |g| g.jitter = [jitter, jitter].into_iter().collect());
    w.set_ip_check_interval(h, 3600);
    let t0 = w.now();
    let mut addrs: Vec<IpAddr> = mine.v4.iter().map(|a| IpAddr::from(*a)).collect();
    addrs.extend(mine.v6.iter().map(|a| IpAddr::from(*a)));
    let mut reg = World::reg_info(T_TY, T_INST, &mine.host, &addrs, mine.port, &[]);
    reg.txt = Vec::new();
    // TXT bytes are set through one key=value item whose encoding is exactly `txt`
    let items = wire::txt_items(&mine.txt, false);
    reg.txt = items.iter().map(|i| (String::from_utf8_lossy(&i.key).to_string(), i.val.clone())).collect();
    w.register(h, reg);
    w.run_until(t0 + jitter + at);
    let name = match which {
        Which::Instance => scen::wire_name(&format!("{T_INST}.{T_TY}")),
        Which::Host => scen::wire_name(&mine.host),
    };
    let mut shown_name = name.clone();
    if other_case {
        shown_name[0] = shown_name[0].to_ascii_uppercase();
    }
    let mut q = Message::query();
    q.questions.push(wire::question(&shown_name, wire::T_ANY));
    let mut auth = theirs.records_for(which);
    for r in auth.iter_mut() {
        r.name = shown_name.clone();
    }
    if hostile_order {
        auth.reverse();
    }
    q.authorities = auth;
    let idx = w.trace.entries.len();
    w.inject_msg(h, 2, scen::peer4(77), &q);
    let t_shown = w.now();
    w.run_until(t_shown + 4000);
    let txs = scen::tx_msgs(&w.trace, 0);
    let probes_after: Vec<u64> = txs
        .iter()
        .filter(|tx| tx.idx > idx && tx.v4 && tx.msg.is_query() && scen::has_question(tx.msg, &name, wire::T_ANY) && tx.msg.authorities.iter().any(|r| wire::names_eq_nocase(&r.name, &name)))
        .map(|tx| tx.t - t_shown)
        .collect();
    let announced_at = txs.iter().find(|tx| tx.idx > idx && tx.v4 && tx.msg.is_response() && tx.multicast && tx.msg.answers.iter().any(|r| r.rtype == wire::T_SRV)).map(|tx| tx.t - t_shown);
    // on schedule: the next probe comes 250 ms after the previous one, i.e. within 250 ms of the shown probe
    let verdict = match probes_after.first() {
        Some(d) if *d <= 250 => Verdict::Ignores,
        Some(d) if *d >= 1000 && *d <= 1001 => Verdict::Yields,
        None if announced_at.is_some_and(|a| a <= 250) => Verdict::Ignores, // shown after the third probe
        _ => Verdict::Unclear,
    };
    let died = w.trace.deaths().any(|d| matches!(d.ev, Ev::Death { panicked: true, .. }));
    let trace = w.trace.render_tail(40);
    ShownRun { verdict, probes_after, t_shown, announced_at, trace, died }
}

pub fn random_claim(rng: &mut Rng, base: &Claim) -> Claim {
    let mut c = base.clone();
    match rng.below(8) {
        0 => c.port = *rng.pick(&[1u16, 79, 80, 81, 255, 256, 0x7fff, 0x8000, 0xffff]),
        1 => c.txt = wire::txt_encode(&[(b"k".to_vec(), Some(vec![*rng.pick(&[0u8, 1, 0x41, 0x61, 0x7f, 0x80, 0xff])]))]),
        2 => c.txt = wire::txt_encode(&[(b"k".to_vec(), Some(b"v".to_vec())), (b"x".to_vec(), None)]),
        3 => c.v4 = vec![[10, 0, 0, *rng.pick(&[1u8, 4, 5, 6, 127, 128, 255])]],
        4 => c.v4 = vec![[10, 0, 0, 5], [10, 0, 0, *rng.pick(&[1u8, 6, 200])]],
        5 => c.v6 = vec!["fe80::5".parse::<std::net::Ipv6Addr>().unwrap().octets()],
        6 => c.v6 = vec![format!("fe80::{:x}", 1 + rng.below(300)).parse::<std::net::Ipv6Addr>().unwrap().octets()],
        _ => c.txt = wire::txt_encode(&[(b"k".to_vec(), Some(b"va".to_vec()))]),
    }
    c
}

pub fn run_t(seed: u64, l: &mut Local) {
    let mut rng = Rng::new(seed);
    let base = Claim { port: 80, txt: wire::txt_encode(&[(b"k".to_vec(), Some(b"v".to_vec()))]), host: "contested-host.local.".into(), v4: vec![[10, 0, 0, 5]], v6: vec![] };
    let x = if rng.chance(1, 2) { random_claim(&mut rng, &base) } else { base.clone() };
    let from_x = rng.chance(1, 3);
    let y = random_claim(&mut rng, &if from_x { x.clone() } else { base.clone() });
    let which = if x.port != y.port || x.txt != y.txt { Which::Instance } else { Which::Host };
    let jitter = *rng.pick(&[0u64, 7, 130, 249]);
    // between the first and the second probe, the second and the third, or after the third
    let at = *rng.pick(&[1u64, 100, 249, 251, 400, 499, 501, 700, 749]);
    let hostile_order = rng.chance(1, 6);
    let other_case = !hostile_order && rng.chance(1, 8);
    let variant = if hostile_order { "/authority-in-reverse-order" } else if other_case { "/name-in-other-letter-case" } else { "" };
    l.evaluations += 1;
    let xs = x.records_for(which);
    let ys = y.records_for(which);
    l.distinct.insert(util::fnv_str(&format!("T|{:?}|{:?}|{which:?}|{at}|{variant}", xs, ys)));
    let a = shown(seed, &x, &y, which, at, jitter, hostile_order, other_case);
    let b = shown(seed ^ 1, &y, &x, which, at, jitter, hostile_order, other_case);
    if a.died || b.died {
        l.inconclusive.push(format!("daemon died in a C08 tiebreak scenario (seed {seed})"));
        return;
    }
    let desc = format!("{which:?} name; X={:?} Y={:?}; shown {at} ms after the first probe (jitter {jitter}){variant}", xs.iter().map(|r| format!("t{} {}", r.rtype, render_rdata(&r.rdata))).collect::<Vec<_>>(), ys.iter().map(|r| format!("t{} {}", r.rtype, render_rdata(&r.rdata))).collect::<Vec<_>>());
    let wit = || json!({"scenario": desc, "daemon_with_X_shown_Y": {"verdict": format!("{:?}", a.verdict), "probes_after_ms": a.probes_after, "announced_after_ms": a.announced_at, "trace": a.trace},
                        "daemon_with_Y_shown_X": {"verdict": format!("{:?}", b.verdict), "probes_after_ms": b.probes_after, "announced_after_ms": b.announced_at, "trace": b.trace}});
    let step = if at < 250 { "after-first-probe" } else if at < 500 { "after-second-probe" } else { "after-third-probe" };
    // N2: a verdict is one of the two: on schedule, or exactly one second later followed by three probes
    for (r, side) in [(&a, "X"), (&b, "Y")] {
        l.act("N2");
        if r.verdict == Verdict::Unclear {
            l.violate(
                Violation::new("N2", format!("N2/neither-on-schedule-nor-one-second-later/{step}{variant}"), format!("after being shown the other probe the daemon holding {side} probed next after {:?} ms: neither on schedule (<= 250) nor after the one-second wait", r.probes_after.first()))
                    .with(wit()),
            );
            return;
        }
        if r.verdict == Verdict::Yields {
            let p = &r.probes_after;
            let ok = p.len() >= 3 && p[1] - p[0] >= 250 && p[2] - p[1] >= 250 && r.announced_at.is_some_and(|t| t >= p[2] + 250);
            if !ok {
                l.violate(
                    Violation::new("N2", format!("N2/no-three-probes-after-the-wait/{step}{variant}"), format!("after yielding the daemon holding {side} probed at {:?} ms and announced at {:?} ms", p, r.announced_at))
                        .with(wit()),
                );
                return;
            }
        }
    }
    // N3: opposite verdicts, unless the data are the same
    l.act("N3");
    let same = xs == ys;
    if same {
        if a.verdict == Verdict::Yields || b.verdict == Verdict::Yields {
            l.violate(Violation::new("N3", format!("N3/yields-to-identical-data/{step}{variant}"), "a prober with identical data is not a conflict, yet the daemon waited").with(wit()));
        }
        return;
    }
    if a.verdict == b.verdict {
        l.violate(
            Violation::new("N3", format!("N3/both-{}/{which:?}/{step}{variant}", if a.verdict == Verdict::Yields { "yield" } else { "ignore" }).to_lowercase(), format!("both sides reach the same verdict ({:?}) for different data", a.verdict))
                .with(wit()),
        );
        return;
    }
    // N3b: the side with the earlier data yields
    l.act("N3b");
    let x_earlier = compare_sets(&xs, &ys) == std::cmp::Ordering::Less;
    if (a.verdict == Verdict::Yields) != x_earlier {
        l.violate(
            Violation::new("N3", format!("N3b/later-data-yields/{which:?}/{step}{variant}").to_lowercase(), "the side whose data sort later (class, type, RDATA bytes, then count) is the one that yields".to_string())
                .with(wit()),
        );
    }
}

/// N3b against a prober of another make: its SRV may carry a priority and a weight (this crate always sends 0 0).
/// RDATA is compared byte by byte, so priority decides before weight, weight before port, port before target.
pub fn foreign_srv_case(seed: u64, l: &mut Local) {
    let mut rng = Rng::new(seed);
    let mine = Claim { port: *rng.pick(&[80u16, 9000, 0x7fff]), txt: wire::txt_encode(&[(b"k".to_vec(), Some(b"v".to_vec()))]), host: "contested-host.local.".into(), v4: vec![[10, 0, 0, 5]], v6: vec![] };
    let (prio, weight) = *rng.pick(&[(0u16, 5u16), (0, 0xffff), (1, 0), (3, 7), (0, 0)]);
    let their_port = *rng.pick(&[1u16, 80, 0xffff]);
    let at = *rng.pick(&[1u64, 100, 251, 400, 501, 700]);
    let jitter = *rng.pick(&[0u64, 7, 130]);
    let mut w = World::new(seed);
    w.set_stepping(Stepping::Lazy);
    let h = w.add_host_with(scen::single_v4(), |g| g.jitter = [jitter, jitter].into_iter().collect());
    w.set_ip_check_interval(h, 3600);
    let t0 = w.now();
    let addrs: Vec<IpAddr> = vec!["10.0.0.5".parse().unwrap()];
    let mut reg = World::reg_info(T_TY, T_INST, &mine.host, &addrs, mine.port, &[]);
    reg.txt = vec![("k".to_string(), Some(b"v".to_vec()))];
    w.register(h, reg);
    w.run_until(t0 + jitter + at);
    let inst = scen::wire_name(&format!("{T_INST}.{T_TY}"));
    let host = scen::wire_name(&mine.host);
    let mut q = Message::query();
    q.questions.push(wire::question(&inst, wire::T_ANY));
    // same TXT; the SRV differs
    q.authorities.push(wire::rec(&inst, wire::T_TXT, 1, 4500, RData::Txt(mine.txt.clone())));
    q.authorities.push(wire::rec(&inst, wire::T_SRV, 1, 120, RData::Srv { priority: prio, weight, port: their_port, target: host.clone() }));
    let idx = w.trace.entries.len();
    w.inject_msg(h, 2, scen::peer4(77), &q);
    let t_shown = w.now();
    w.run_until(t_shown + 4000);
    l.evaluations += 1;
    l.distinct.insert(util::fnv_str(&format!("T-foreign|{prio}|{weight}|{their_port}|{}|{at}", mine.port)));
    if w.trace.deaths().any(|d| matches!(d.ev, Ev::Death { panicked: true, .. })) {
        l.inconclusive.push(format!("daemon died in a C08 tiebreak scenario (seed {seed})"));
        return;
    }
    let txs = scen::tx_msgs(&w.trace, 0);
    let probes_after: Vec<u64> = txs.iter().filter(|tx| tx.idx > idx && tx.v4 && tx.msg.is_query() && scen::has_question(tx.msg, &inst, wire::T_ANY)).map(|tx| tx.t - t_shown).collect();
    let announced_at = txs.iter().find(|tx| tx.idx > idx && tx.v4 && tx.msg.is_response() && tx.multicast && tx.msg.answers.iter().any(|r| r.rtype == wire::T_SRV)).map(|tx| tx.t - t_shown);
    let yields = match probes_after.first() {
        Some(d) if *d <= 250 => Some(false),
        Some(d) if *d >= 1000 && *d <= 1001 => Some(true),
        None if announced_at.is_some_and(|a| a <= 250) => Some(false),
        _ => None,
    };
    let ours = (0u16, 0u16, mine.port);
    let theirs = (prio, weight, their_port);
    if ours == theirs {
        return;
    }
    l.act("N3b-foreign-srv");
    let must_yield = ours < theirs;
    if yields != Some(must_yield) {
        l.violate(
            Violation::new("N3", "N3b/wrong-verdict-against-srv-with-priority-or-weight", format!("our SRV is 0 0 {} and the other prober's {prio} {weight} {their_port} (same target, same TXT): we {} yield, the daemon {}", mine.port, if must_yield { "must" } else { "must not" }, match yields { Some(true) => "yielded", Some(false) => "went on", None => "did neither on schedule" }))
                .with(json!({"probes_after_ms": probes_after, "announced_after_ms": announced_at, "trace": w.trace.render_tail(30)})),
        );
    }
}

// ---------------------------------------------------------------------------
// Part R2: a name that finished probing is defended, also a renamed one, also before the service is announced
//
// The instance name loses to a conflicting response and becomes 'x (2)'; the host name loses a simultaneous-probe
// comparison and has to wait a second, so 'x (2)' finishes probing while the service cannot be announced yet.
// Another prober for 'x (2)' with other data must be answered (our records for the name) at once.

pub fn defend_renamed_case(seed: u64, l: &mut Local) {
    window_question_case(seed, false, l);
}

/// `plain`: the third party does not probe for the name but merely asks about it (a type-ANY question without
/// authority records, as a resolver sends): there is nothing to defend, and a service that is not announced yet
/// is not answered for (C07).
pub fn window_question_case(seed: u64, plain: bool, l: &mut Local) {
    let mut rng = Rng::new(seed);
    let mut w = World::new(seed);
    w.set_stepping(Stepping::Lazy);
    let h = w.add_host_with(scen::single_v4(), |g| g.jitter_const = Some(0));
    w.set_ip_check_interval(h, 3600);
    let t0 = w.now();
    let label = *rng.pick(&["contested", "Front Desk", "x (7)"]);
    let addrs: Vec<IpAddr> = vec!["10.0.0.5".parse().unwrap()];
    let reg = World::reg_info(T_TY, label, "defended-host.local.", &addrs, 80, &[("k", Some(b"v"))]);
    w.register(h, reg);
    let inst = scen::wire_name(&format!("{label}.{T_TY}"));
    let host = scen::wire_name("defended-host.local.");
    // 1. somebody else holds the instance name
    let at1 = 20 + rng.below(200);
    w.run_until(t0 + at1);
    let mut m = Message::response();
    m.answers.push(wire::srv(&inst, 120, 9, &scen::wire_name("somebody-else.local.")));
    m.answers[0].class |= wire::FLUSH;
    w.inject_msg(h, 2, scen::peer4(77), &m);
    // 2. a competing prober for the host name whose data sort later: we wait a second
    let at2 = at1 + 10 + rng.below(150);
    w.run_until(t0 + at2);
    let mut q = Message::query();
    q.questions.push(wire::question(&host, wire::T_ANY));
    q.authorities.push(wire::a(&host, 120, [10, 0, 0, 200]));
    w.inject_msg(h, 2, scen::peer4(78), &q);
    // 3. inside the window (the renamed instance is done ~750 ms after the rename, the host not before at2 + 1750)
    let at3 = at1 + 1000 + rng.below(at2 + 1700 - (at1 + 1000));
    w.run_until(t0 + at3);
    let new_label = next_instance_label(label.as_bytes());
    let mut new_inst = inst.clone();
    new_inst[0] = new_label.clone();
    let mut q = Message::query();
    q.questions.push(wire::question(&new_inst, wire::T_ANY));
    if !plain {
        q.authorities.push(wire::srv(&new_inst, 120, 65000, &scen::wire_name("zz-third.local.")));
    }
    let idx = w.trace.entries.len();
    w.inject_msg(h, 2, scen::peer4(79), &q);
    w.settle();
    let t3 = w.now();
    w.run_until(t0 + 6000);
    l.evaluations += 1;
    l.distinct.insert(util::fnv_str(&format!("R2|{label}|{}|{}|{}", at1 / 50, (at2 - at1) / 50, (at3 - at1) / 100)));
    if w.trace.deaths().any(|d| matches!(d.ev, Ev::Death { panicked: true, .. })) {
        l.inconclusive.push(format!("daemon died in a C08 defence scenario (seed {seed})"));
        return;
    }
    let txs = scen::tx_msgs(&w.trace, 0);
    // the scenario is what it is meant to be only if the daemon did rename to the expected name and had not yet
    // announced when the third party probed (otherwise nothing is judged here: parts R and D cover those)
    let probed_new = txs.iter().any(|tx| tx.idx < idx && tx.msg.is_query() && scen::has_question(tx.msg, &new_inst, wire::T_ANY));
    let announced_before = txs.iter().any(|tx| tx.idx < idx && tx.msg.is_response() && tx.multicast && tx.msg.answers.iter().any(|r| r.rtype == wire::T_PTR && r.ttl > 0));
    let last_probe_new = txs.iter().filter(|tx| tx.idx < idx && tx.msg.is_query() && scen::has_question(tx.msg, &new_inst, wire::T_ANY)).map(|tx| tx.t).max().unwrap_or(0);
    let probes_new = txs.iter().filter(|tx| tx.idx < idx && tx.msg.is_query() && scen::has_question(tx.msg, &new_inst, wire::T_ANY)).count();
    if !probed_new || announced_before || probes_new < 3 || t3 < last_probe_new + 260 {
        return;
    }
    if plain {
        l.act("P3-window");
        if let Some(tx) = txs.iter().find(|tx| tx.idx > idx && tx.t == t3 && tx.msg.is_response() && !tx.msg.answers.iter().any(|r| r.rtype == wire::T_PTR) && tx.msg.records().any(|r| wire::names_eq_nocase(&r.name, &new_inst) && matches!(r.rdata, RData::Srv { .. } | RData::Txt(_)))) {
            // (not before its announcement - which has not happened: the host name is still waiting)
            let announced_by_then = txs.iter().any(|a| a.idx > idx && a.idx < tx.idx && a.msg.is_response() && a.multicast && a.msg.answers.iter().any(|r| r.rtype == wire::T_PTR && r.ttl > 0));
            if !announced_by_then {
                l.violate(
                    Violation::new("P3", "P3/answered-before-announcement/plain-question-while-the-host-name-waits", format!("the instance name {} had finished probing, the host name was still waiting after a lost comparison; a plain ANY question (no authority records: nobody is probing) {} ms later was answered with the service's records although nothing is announced yet", wire::escaped(&new_inst), t3 - last_probe_new))
                        .with(json!({"trace": scen::witness_window(&w.trace, t0, tx.t + 50, 60)})),
                );
            }
        }
        return;
    }
    l.act("N4-defend-renamed");
    let defended = txs.iter().any(|tx| tx.idx > idx && tx.t == t3 && tx.msg.is_response() && tx.msg.records().any(|r| wire::names_eq_nocase(&r.name, &new_inst) && matches!(r.rdata, RData::Srv { .. } | RData::Txt(_))));
    if !defended {
        l.violate(
            Violation::new("N4", "N4/finished-renamed-name-not-defended-before-announcement", format!("the instance name had become {} and finished probing; a third party probing for it with other data {} ms later got no answer (the service was not announced yet: its host name was still waiting after a lost comparison)", wire::escaped(&new_inst), t3 - last_probe_new))
                .with(json!({"trace": scen::witness_window(&w.trace, t0, t3 + 50, 60)})),
        );
    }
}

/// A name the daemon held before is registered again with other data (after an unregister, or as an update of the
/// announced service); while the new data is probed a response claims the name with different data.
pub fn conflict_after_history_case(seed: u64, l: &mut Local) {
    let mut rng = Rng::new(seed);
    let mut w = World::new(seed);
    w.set_stepping(Stepping::Lazy);
    let jitter = *rng.pick(&[0u64, 40, 125, 249]);
    let h = w.add_host_with(scen::single_v4(), move |g| g.jitter_const = Some(jitter));
    w.set_ip_check_interval(h, 3600);
    let t0 = w.now();
    let label = *rng.pick(&["held-before", "Front Desk", "x (7)"]);
    let addrs: Vec<IpAddr> = vec!["10.0.0.5".parse().unwrap()];
    let host_s = "history-host.local.";
    let reg1 = World::reg_info(T_TY, label, host_s, &addrs, 80, &[("k", Some(b"first"))]);
    let fullname = reg1.fullname.clone();
    w.register(h, reg1);
    let inst = scen::wire_name(&format!("{label}.{T_TY}"));
    w.run_until(t0 + 3000 + rng.below(2000));
    let withdrawn = rng.chance(1, 2);
    if withdrawn {
        w.unregister(h, &fullname);
        let now = w.now();
        w.run_until(now + 1500 + rng.below(3000));
    }
    let keep_port = rng.chance(1, 3);
    let reg2 = World::reg_info(T_TY, label, host_s, &addrs, if keep_port { 80 } else { 81 }, &[("k", Some(b"second"))]);
    let idx_reg2 = w.trace.entries.len();
    let t_reg2 = w.now();
    w.register(h, reg2);
    // somebody else claims the instance name while the new data is probed
    let at = jitter + 5 + rng.below(740);
    w.run_until(t_reg2 + at);
    let mut m = Message::response();
    let kind = if keep_port || rng.chance(1, 2) { "txt" } else { "srv" };
    if kind == "txt" {
        m.answers.push(wire::txt(&inst, 4500, b"\x08k=theirs".to_vec()));
    } else {
        m.answers.push(wire::srv(&inst, 120, 9, &scen::wire_name("somebody-else.local.")));
    }
    m.answers[0].class |= wire::FLUSH;
    let idx = w.trace.entries.len();
    w.inject_msg(h, 2, scen::peer4(77), &m);
    w.settle();
    let t_c = w.now();
    w.run_until(t_c + 6000);
    l.evaluations += 1;
    l.distinct.insert(util::fnv_str(&format!("R3|{label}|{withdrawn}|{keep_port}|{kind}|{jitter}|{}", at / 25)));
    if w.trace.deaths().any(|d| matches!(d.ev, Ev::Death { panicked: true, .. })) {
        l.inconclusive.push(format!("daemon died in a C08 history scenario (seed {seed})"));
        return;
    }
    let txs = scen::tx_msgs(&w.trace, 0);
    // judged only if the daemon was probing for the name when the claim arrived: it asked its probe question
    // after the second registration, not longer than 250 ms ago, and had not announced the new data yet
    let probes_before: Vec<u64> = txs.iter().filter(|tx| tx.idx > idx_reg2 && tx.idx < idx && tx.msg.is_query() && scen::has_question(tx.msg, &inst, wire::T_ANY)).map(|tx| tx.t).collect();
    let announced_between = txs.iter().any(|tx| tx.idx > idx_reg2 && tx.idx < idx && tx.msg.is_response() && tx.multicast && tx.msg.answers.iter().any(|r| r.rtype == wire::T_PTR && r.ttl > 0));
    let Some(last_probe) = probes_before.iter().max() else { return };
    if announced_between || t_c > last_probe + 245 {
        return;
    }
    l.act("N1-after-history");
    let new_label = next_instance_label(label.as_bytes());
    let mut new_inst = inst.clone();
    new_inst[0] = new_label;
    let old_announced = txs.iter().find(|tx| tx.idx > idx && tx.msg.is_response() && tx.multicast && tx.msg.answers.iter().any(|r| r.ttl > 0 && r.rtype == wire::T_PTR && matches!(&r.rdata, RData::Ptr(n) if wire::names_eq_nocase(n, &inst))));
    let new_announced = txs.iter().any(|tx| tx.idx > idx && tx.msg.is_response() && tx.multicast && tx.msg.answers.iter().any(|r| r.ttl > 0 && r.rtype == wire::T_PTR && matches!(&r.rdata, RData::Ptr(n) if wire::names_eq_nocase(n, &new_inst))));
    let hist = if withdrawn { "registered-again-after-unregister" } else { "update-of-announced-service" };
    if let Some(tx) = old_announced {
        l.violate(
            Violation::new("N1", format!("N1/contested-name-announced/{hist}/conflict-{kind}"), format!("{} ms after a response claimed {} with other data, while the daemon was probing for it, the daemon announced that very name", tx.t - t_c, wire::escaped(&inst)))
                .with(json!({"seed": seed, "trace": scen::witness_window(&w.trace, t_reg2, tx.t + 50, 60)})),
        );
    } else if !new_announced {
        l.violate(
            Violation::new("N1", format!("N1/renamed-service-never-announced/{hist}/conflict-{kind}"), format!("a response claimed {} with other data while the daemon was probing for it; within six seconds the service was not announced as {}", wire::escaped(&inst), wire::escaped(&new_inst)))
                .with(json!({"seed": seed, "trace": scen::witness_window(&w.trace, t_reg2, t_c + 6000, 90)})),
        );
    }
}

// ---------------------------------------------------------------------------
// Part D: two or three daemons claim the same names on one loss-free link

pub struct MadeD {
    pub world: World,
    pub desc: String,
    pub ports: Vec<u16>,
    pub horizon: u64,
}

const D_INST: &str = "shared";
const D_HOST: &str = "shared-host.local.";

pub fn scenario_d(seed: u64, offsets: &[u64], jitters: &[u64], swap: bool, dual: bool, same_machine: bool) -> MadeD {
    let mut w = World::new(seed);
    w.set_stepping(Stepping::Lazy);
    let n = offsets.len();
    let mut hosts = Vec::new();
    for k in 0..n {
        // several daemons of one machine share its interface and so the source address of all they send
        let ifk = if same_machine { 0 } else { k };
        let mut addrs: Vec<(String, u8)> = vec![(format!("10.0.0.{}", 5 + ifk), 24)];
        if dual {
            addrs.push((format!("fe80::{}", 5 + ifk), 64));
        }
        let refs: Vec<(&str, u8)> = addrs.iter().map(|(a, p)| (a.as_str(), *p)).collect();
        let j = jitters[k];
        let h = w.add_host_with(vec![IfSpec::new("eth0", 2, 0, &refs)], |g| g.jitter = std::iter::repeat(j).take(6).collect());
        w.set_ip_check_interval(h, 3600);
        let _ = w.monitor(h);
        hosts.push(h);
    }
    let t0 = w.now();
    // different data: ports (decides the instance name) and addresses (decide the host name); `swap` makes the two orders disagree
    let ports: Vec<u16> = (0..n).map(|k| if swap { 90 - k as u16 } else { 80 + k as u16 }).collect();
    let mut order: Vec<usize> = (0..n).collect();
    order.sort_by_key(|k| offsets[*k]);
    for k in order {
        w.run_until(t0 + offsets[k]);
        let mut addrs: Vec<IpAddr> = vec![format!("10.0.0.{}", 5 + k).parse().unwrap()];
        if dual {
            addrs.push(format!("fe80::{}", 5 + k).parse().unwrap());
        }
        let reg = World::reg_info("_t._udp.local.", D_INST, D_HOST, &addrs, ports[k], &[("k", Some(b"v"))]);
        w.register(hosts[k], reg);
    }
    let last = offsets.iter().max().copied().unwrap_or(0);
    let horizon = t0 + last + 10_000;
    w.run_until(horizon);
    let desc = format!("{n} daemons{}, offsets {offsets:?} ms, jitters {jitters:?}, ports {ports:?}, dual-stack {dual}", if same_machine { " on one machine (same interface address)" } else { "" });
    MadeD { world: w, desc, ports, horizon }
}

pub fn monitor_d(made: &MadeD, l: &mut Local) {
    let trace = &made.world.trace;
    let ty = scen::wire_name("_t._udp.local.");
    let inst0 = scen::wire_name(&format!("{D_INST}._t._udp.local."));
    let host0 = scen::wire_name(D_HOST);
    let n = made.ports.len();
    let mut finals: Vec<Option<(Name, Name)>> = Vec::new();
    for k in 0..n {
        let txs = scen::tx_msgs(trace, k);
        finals.push(txs.iter().filter_map(|tx| names_announced(tx, &ty, made.ports[k])).last());
    }
    let same_machine = made.desc.contains("on one machine");
    let shape = {
        let mut o: Vec<u64> = made.desc.split("offsets [").nth(1).unwrap_or("").split(']').next().unwrap_or("").split(", ").filter_map(|x| x.parse().ok()).collect();
        o.sort();
        let gap = o.last().copied().unwrap_or(0) - o.first().copied().unwrap_or(0);
        let s = if gap == 0 { "simultaneous" } else if gap < 750 { "overlapping-probes" } else if gap < 1800 { "during-announcement" } else { "after-announcement" };
        if same_machine { format!("{s}/same-machine") } else { s.to_string() }
    };
    let wit = || {
        let mut per_host = Vec::new();
        for k in 0..n {
            let lines: Vec<String> = trace.entries.iter().filter(|e| e.host == k && matches!(e.ev, Ev::Tx(_) | Ev::Obs { .. } | Ev::Api { .. })).map(render_entry).filter(|s| !s.contains(" tx v6 ")).map(|s| util::prefix(&s, 260).to_string()).take(45).collect();
            per_host.push(json!({"host": k, "final": finals[k].as_ref().map(|(i, h)| format!("{} on {}", wire::escaped(i), wire::escaped(h))), "log": lines}));
        }
        json!({"scenario": made.desc, "hosts": per_host})
    };
    l.act("N6");
    if let Some(k) = finals.iter().position(|f| f.is_none()) {
        l.violate(Violation::new("N6", format!("N6/a-daemon-never-announced/{n}-daemons/{shape}"), format!("daemon {k} had not announced its service 10 s after the last registration")).with(wit()));
        return;
    }
    let fin: Vec<(Name, Name)> = finals.iter().map(|f| f.clone().unwrap()).collect();
    for (what, orig, pick) in [("instance", &inst0, 0usize), ("host", &host0, 1usize)] {
        let names: Vec<&Name> = fin.iter().map(|f| if pick == 0 { &f.0 } else { &f.1 }).collect();
        let holders = names.iter().filter(|x| wire::names_eq_nocase(x, orig)).count();
        if holders != 1 {
            l.violate(
                Violation::new("N6", format!("N6/{}-hold-the-original-{what}-name/{n}-daemons/{shape}", if holders == 0 { "none" } else { "several" }), format!("{holders} daemons end up announcing the original {what} name {}", wire::escaped(orig)))
                    .with(wit()),
            );
            return;
        }
        for a in 0..n {
            for b in a + 1..n {
                if wire::names_eq_nocase(names[a], names[b]) {
                    l.violate(
                        Violation::new("N6", format!("N6/two-daemons-share-a-renamed-{what}-name/{n}-daemons/{shape}"), format!("daemons {a} and {b} both end up announcing {}", wire::escaped(names[a])))
                            .with(wit()),
                    );
                    return;
                }
            }
        }
    }
}

pub fn d_case(i: u64, thorough: bool, seed: u64) -> (Vec<u64>, Vec<u64>, bool, bool, bool) {
    let mut rng = Rng::new(util::mix(seed, 0xD0 + i));
    // the dense grid: every millisecond around the probe steps, 25 ms elsewhere up to 3 s
    let mut grid: Vec<u64> = Vec::new();
    for c in [0u64, 250, 500, 750, 1000] {
        for d in 0..=8 {
            grid.push(c + d);
            if c >= d {
                grid.push(c - d);
            }
        }
    }
    let mut g = 0;
    while g <= 3000 {
        grid.push(g);
        g += 25;
    }
    grid.push(4000);
    grid.push(6000);
    grid.sort();
    grid.dedup();
    let jit = [0u64, 1, 100, 125, 249];
    let three = rng.chance(1, 4);
    let off = if thorough { grid[(i as usize) % grid.len()] } else { *rng.pick(&grid) };
    let mut offsets = vec![0, off];
    if three {
        offsets.push(*rng.pick(&grid));
    }
    if rng.chance(1, 2) {
        offsets.reverse();
    }
    let jitters: Vec<u64> = offsets.iter().map(|_| *rng.pick(&jit)).collect();
    let swap = rng.chance(1, 2);
    let dual = rng.chance(1, 4);
    (offsets, jitters, swap, dual, rng.chance(1, 3))
}

pub fn run_d(i: u64, thorough: bool, seed: u64, l: &mut Local) {
    let (offsets, jitters, swap, dual, same_machine) = d_case(i, thorough, seed);
    let made = scenario_d(util::mix(seed, i), &offsets, &jitters, swap, dual, same_machine);
    l.evaluations += 1;
    l.count("daemon_iterations", made.world.total_iterations);
    if made.world.trace.deaths().any(|d| matches!(d.ev, Ev::Death { panicked: true, .. })) {
        l.inconclusive.push(format!("daemon died in a C08 two-daemon scenario ({})", made.desc));
        return;
    }
    l.distinct.insert(util::fnv_str(&format!("D|{offsets:?}|{jitters:?}|{swap}|{dual}|{same_machine}")));
    monitor_d(&made, l);
}

pub fn run(report: &Report, tier: &Tier) {
    report.set_rule(
        "part R: one daemon (1..2 interfaces, v4/v6), a service with instance names {plain, upper case, existing ' (N)' up to 2^32-1, inner '(N)', dots, \
         57..63-byte labels, non-ASCII} and host names {plain, upper case, '-N' up to 2^32-1, inner hyphens, 60..63-byte labels}; a conflicting SRV / TXT / A / \
         AAAA / SRV+A response (one in six spelt in the other letter case) injected at every millisecond of the probing period and on the probe instants, in \
         one run of four the new name contested again; then 12..21 questions (PTR, SRV, TXT, ANY, A, meta) for the old and the new names, then unregister \
         or shutdown. part T: pairs of record sets (port, TXT bytes, one or two IPv4 addresses, an IPv6 address) for the instance or host name, each side \
         shown the other's probe after its first, second or third probe, authority sorted / reversed / in other letter case. part D: two or three \
         daemons on one loss-free link registering the same instance and host name with different ports and addresses at offsets from a grid (every \
         ms within 8 ms of 0/250/500/750/1000, every 25 ms to 3 s, 4 s, 6 s) x jitters {0,1,100,125,249}, one run in three with all daemons on one machine (same interface and source address); distinct by (names, conflict kind) / record-set pair / (offsets, jitters)",
    );
    for r in ["N1", "N1-renamed", "N1-event", "N1-probed", "N1-after-history", "N4-answers", "N4-defend-renamed", "N5", "N2", "N3", "N3b", "N3b-foreign-srv", "N6"] {
        report.floor(r, 30);
    }
    report.assume("a counter already at 2^32-1 may count on or start a fresh suffix; a conflict delivered after the third probe is 250 ms old is not 'while probing' and is not judged (DESIGN §12)");
    let seed = report.seed;
    let n: u64 = if tier.thorough { 600_000 } else { 6_000 };
    let thorough = tier.thorough;
    // (runs with two or three daemon threads are an order of magnitude dearer: one in ten)
    run_parallel(report, n, threads(), tier.budget_s, |i, l| match i % 10 {
        0..=3 => run_r(util::mix(seed, 0xC08_0000 + i), l),
        4..=8 => run_t(util::mix(seed, 0xC08_0000 + i), l),
        _ => run_d(i / 10, thorough, seed, l),
    });
    let n2: u64 = if tier.thorough { 120_000 } else { 1_800 };
    run_parallel(report, n2, threads(), tier.budget_s * 0.1, |i, l| {
        match i % 3 {
            0 => defend_renamed_case(util::mix(seed, 0xC08_A000 + i), l),
            1 => foreign_srv_case(util::mix(seed, 0xC08_B000 + i), l),
            _ => conflict_after_history_case(util::mix(seed, 0xC08_C000 + i), l),
        }
    });
}
