//! C03 — a resolved service only ever shows live data that was actually received.
//! C05 — departed services are reported removed, on time and only when true.
//!
//! Both are decided against the delivered-record history `Hist` (model.rs): what was
//! delivered when, with which TTL, withdrawn by which goodbye, displaced by which flush.

use crate::model::{Hist, Life, Purge, RecId};
use crate::props::browser::{self, Made, Opts};
use crate::props::c16;
use crate::report::{run_parallel, threads, Local, Report, Violation};
use crate::scen;
use crate::util;
use crate::wire::{self, Name, RData};
use crate::world::*;
use crate::Tier;
use serde_json::json;
use std::net::IpAddr;

pub fn slack(stepping: Stepping) -> u64 {
    match stepping {
        Stepping::Lazy => 1,
        Stepping::Eager(g) => g + 1,
        Stepping::Oversleep(m) => m + 1,
    }
}

/// The history of `host`, with the cuts that `verify` calls imply.
pub fn hist_with_verifies(made: &Made, host: usize) -> Hist {
    hist_with_verifies_mode(made, host, false)
}

/// `lenient`: the cut of a verify call reaches the addresses of every host any SRV record
/// ever received for the instance pointed to (the daemon keeps SRV records without a PTR
/// indefinitely, and verify finds the host through them).
pub fn hist_with_verifies_mode(made: &Made, host: usize, lenient: bool) -> Hist {
    let plain = Hist::build(&made.world.trace, host, &[]);
    if made.verifies.is_empty() {
        return plain;
    }
    let mut purges: Vec<Purge> = Vec::new();
    for (t, inst, timeout) in made.verifies.iter() {
        let inst_name = scen::wire_name(inst);
        // hosts the instance's SRV records point to at the time of the call
        let hosts: Vec<Name> = plain
            .lives_of(|id| id.rtype == wire::T_SRV && wire::names_eq_exact(&id.name, &inst_name))
            .filter(|(_, l)| lenient || (l.from <= *t && *t < l.until))
            .filter_map(|(id, _)| match &id.rdata {
                RData::Srv { target, .. } => Some(target.clone()),
                _ => None,
            })
            .collect();
        let i2 = inst_name.clone();
        // the call's place in the trace (packets of the same instant delivered before it are cut, later ones are not)
        let entry = made.world.trace.entries.iter().position(|e| e.host == host && e.t == *t && matches!(&e.ev, Ev::Api { call: ApiCall::Verify(i, to), .. } if i == inst && to == timeout));
        purges.push(Purge {
            t: *t,
            entry,
            until: t + timeout,
            filter: Box::new(move |id: &RecId, _l: &Life| {
                (id.rtype == wire::T_SRV && wire::names_eq_exact(&id.name, &i2))
                    || ((id.rtype == wire::T_A || id.rtype == wire::T_AAAA) && hosts.iter().any(|h| wire::names_eq_nocase(h, &id.name)))
            }),
        });
    }
    Hist::build(&made.world.trace, host, &purges)
}

fn txt_as_crate_decodes(rdata: &[u8]) -> Vec<c16::Item> {
    let items: Vec<c16::Item> = wire::txt_items(rdata, true)
        .into_iter()
        .filter_map(|i| String::from_utf8(i.key).ok().map(|k| (k, i.val)))
        .collect();
    c16::first_wins(&items)
}

pub fn monitor_c03(made: &Made, l: &mut Local) {
    let trace = &made.world.trace;
    let Some(chan) = made.browse_chan else { return };
    let host = 0;
    let hist = hist_with_verifies(made, host);
    let sl = slack(made.world.stepping);
    for (e, o) in trace.obs(chan) {
        let Obs::Resolved(r) = o else { continue };
        let t = e.t;
        // the daemon spells names without escapes: compare spellings, not label lists
        let full = r.fullname.clone();
        let wit = || {
            json!({"scenario": made.desc, "event": format!("{:?}", r), "t_ms": t - crate::world::EPOCH,
                   "trace": scen::witness_window(trace, t.saturating_sub(6000), t, 60)})
        };
        // S4
        l.act("S4");
        if r.host.is_empty() || r.addresses.is_empty() {
            l.violate(Violation::new("S4", "S4/resolved-without-host-or-address", "ServiceResolved without a host or without any address").with(wit()));
            continue;
        }
        // S1
        l.act("S1");
        let srv_matches = |id: &RecId| matches!(&id.rdata, RData::Srv { port, target, .. } if *port == r.port && wire::dotted(target) == r.host);
        let srv_ok = hist
            .possibly_live(t, sl, |id| id.rtype == wire::T_SRV && wire::dotted(&id.name) == full)
            .any(|(id, life)| srv_matches(id) && !hist.withdrawn_at(life, t));
        if !srv_ok {
            if hist.possibly_live(t, sl, |id| id.rtype == wire::T_SRV && wire::dotted(&id.name) == full).any(|(id, _)| srv_matches(id)) {
                l.violate(Violation::new("S1", "S1/host-port-from-srv-withdrawn-by-goodbye", format!("ServiceResolved({}) shows {}:{} from an SRV record that a goodbye had withdrawn", r.fullname, r.host, r.port)).with(wit()));
                continue;
            }
            let ever = hist
                .lives_of(|id| id.rtype == wire::T_SRV && wire::dotted(&id.name) == full)
                .any(|(id, _)| matches!(&id.rdata, RData::Srv { port, target, .. } if *port == r.port && wire::dotted(target) == r.host));
            l.violate(
                Violation::new(
                    "S1",
                    if ever { "S1/host-port-from-dead-srv" } else { "S1/host-port-never-received" },
                    format!("ServiceResolved({}) shows {}:{} but no SRV record with that data is within its life at that time", r.fullname, r.host, r.port),
                )
                .with(wit()),
            );
            continue;
        }
        // S1-latest: "as the network last advertised it": of several live SRV records the one received last is shown
        {
            let live: Vec<(&RecId, &Life)> = hist
                .possibly_live(t, 0, |id| id.rtype == wire::T_SRV && wire::dotted(&id.name) == full)
                .filter(|(_, life)| life.from <= t && t + sl + 1 < life.until && !hist.withdrawn_at(life, t))
                .collect();
            // a packet delivered at the very instant of the event is in, if it was the only packet of that instant
            // (events are built after the whole packet was taken in); with several packets at one instant nothing is judged
            let mut packets_at_t: Vec<usize> = hist.deliveries.iter().filter(|d| d.t == t).map(|d| d.packet).collect();
            packets_at_t.dedup();
            let at_t = packets_at_t.len() > 1;
            let last_rx = |life: &Life| life.receptions.iter().filter(|(at, _)| *at <= t).map(|(at, _)| *at).max().unwrap_or(0);
            if live.len() > 1 {
                let newest = live.iter().map(|(_, l)| last_rx(l)).max().unwrap();
                let winners: Vec<&(&RecId, &Life)> = live.iter().filter(|(_, l)| last_rx(l) == newest).collect();
                if winners.len() == 1 && !at_t {
                    l.act("S1-latest");
                    if !srv_matches(winners[0].0) {
                        l.violate(
                            Violation::new("S1", "S1/not-the-srv-received-last", format!("ServiceResolved({}) shows {}:{} although a different SRV record was received later and both are live", r.fullname, r.host, r.port))
                                .with(wit()),
                        );
                        continue;
                    }
                }
            }
        }
        // S2
        let host_spelled = r.host.to_lowercase();
        let mut bad = None;
        for (ip, ifs) in resolved_addrs(r) {
            l.act("S2");
            let matches_ip = |id: &RecId| match (&id.rdata, ip) {
                (RData::A(a), IpAddr::V4(v)) => v.octets() == *a,
                (RData::Aaaa(a), IpAddr::V6(v)) => v.octets() == *a,
                _ => false,
            };
            if ifs.is_empty() {
                bad = Some((ip, "no-interface-tag"));
                break;
            }
            for ifi in ifs.iter() {
                let ok = hist
                    .possibly_live(t, sl, |id| (id.rtype == wire::T_A || id.rtype == wire::T_AAAA) && wire::dotted(&id.name).to_lowercase() == host_spelled && id.if_index == Some(*ifi))
                    .any(|(id, life)| matches_ip(id) && !hist.withdrawn_at(life, t));
                if !ok {
                    let withdrawn = hist
                        .possibly_live(t, sl, |id| (id.rtype == wire::T_A || id.rtype == wire::T_AAAA) && wire::dotted(&id.name).to_lowercase() == host_spelled && id.if_index == Some(*ifi))
                        .any(|(id, _)| matches_ip(id));
                    if withdrawn {
                        bad = Some((ip, "address-withdrawn-by-goodbye"));
                        break;
                    }
                    let ever = hist
                        .lives_of(|id| (id.rtype == wire::T_A || id.rtype == wire::T_AAAA) && wire::dotted(&id.name).to_lowercase() == host_spelled)
                        .any(|(id, _)| matches_ip(id));
                    bad = Some((ip, if ever { "address-from-dead-or-other-interface-record" } else { "address-never-received" }));
                    break;
                }
            }
            if bad.is_some() {
                break;
            }
        }
        if let Some((ip, why)) = bad {
            l.violate(
                Violation::new("S2", format!("S2/{why}"), format!("ServiceResolved({}) lists address {ip} which no live address record of {} explains", r.fullname, r.host))
                    .with(wit()),
            );
            continue;
        }
        // S3
        let got = c16::props_to_items(&r.txt_properties);
        if !got.is_empty() {
            l.act("S3");
            let ok = hist
                .possibly_live(t, sl, |id| id.rtype == wire::T_TXT && wire::dotted(&id.name) == full)
                .any(|(id, life)| matches!(&id.rdata, RData::Txt(b) if txt_as_crate_decodes(b) == got) && !hist.withdrawn_at(life, t));
            if !ok {
                l.violate(
                    Violation::new("S3", "S3/properties-not-from-live-txt", format!("ServiceResolved({}) shows properties that no live TXT record of the instance decodes to", r.fullname))
                        .with(wit()),
                );
                continue;
            }
            // S3-latest: of several live TXT records the one received last is shown
            let live: Vec<(&RecId, &Life)> = hist
                .possibly_live(t, 0, |id| id.rtype == wire::T_TXT && wire::dotted(&id.name) == full)
                .filter(|(_, life)| life.from <= t && t + sl + 1 < life.until && !hist.withdrawn_at(life, t))
                .collect();
            let mut packets_at_t: Vec<usize> = hist.deliveries.iter().filter(|d| d.t == t).map(|d| d.packet).collect();
            packets_at_t.dedup();
            if live.len() > 1 && packets_at_t.len() <= 1 {
                let last_rx = |life: &Life| life.receptions.iter().filter(|(at, _)| *at <= t).map(|(at, _)| *at).max().unwrap_or(0);
                let newest = live.iter().map(|(_, l)| last_rx(l)).max().unwrap();
                let winners: Vec<&(&RecId, &Life)> = live.iter().filter(|(_, l)| last_rx(l) == newest).collect();
                if winners.len() == 1 {
                    l.act("S3-latest");
                    if !matches!(&winners[0].0.rdata, RData::Txt(b) if txt_as_crate_decodes(b) == got) {
                        l.violate(
                            Violation::new("S3", "S3/not-the-txt-received-last", format!("ServiceResolved({}) shows the properties of a TXT record although a different one was received later and both are live", r.fullname))
                                .with(wit()),
                        );
                    }
                }
            }
        }
    }
}

// ---------------------------------------------------------------------------
// C05

/// End of coverage instants of a set of lives: times at which the union of the lives stops
/// covering (i.e. nothing is held any more).
fn coverage_ends(lives: &[(u64, u64)]) -> Vec<u64> {
    let mut v: Vec<(u64, u64)> = lives.to_vec();
    v.sort();
    let mut ends = Vec::new();
    let mut cur: Option<(u64, u64)> = None;
    for (a, b) in v {
        match cur {
            Some((s, e)) if a <= e => cur = Some((s, e.max(b))),
            Some((_, e)) => {
                ends.push(e);
                cur = Some((a, b));
            }
            None => cur = Some((a, b)),
        }
    }
    if let Some((_, e)) = cur {
        ends.push(e);
    }
    ends
}

fn covered(lives: &[&Life], t: u64, margin: u64) -> bool {
    lives.iter().any(|l| l.surely_live_at(t, margin))
}

fn spans(lives: &[&Life]) -> Vec<(u64, u64)> {
    lives.iter().map(|l| (l.from, l.until)).collect()
}

pub fn monitor_c05(made: &Made, l: &mut Local) {
    let trace = &made.world.trace;
    let Some(chan) = made.browse_chan else { return };
    let host = 0;
    let hist = hist_with_verifies(made, host);
    let hist_lenient = if made.verifies.is_empty() { None } else { Some(hist_with_verifies_mode(made, host, true)) };
    let sl = slack(made.world.stepping);
    let g_early = 1001 + sl; // the crate treats the last second of a record as already gone
    let ty = wire::name(browser::TY);
    let obs: Vec<(u64, &Obs)> = trace.obs(chan).map(|(e, o)| (e.t, o)).collect();
    // instances ever reported
    let mut instances: Vec<String> = Vec::new();
    for (_, o) in obs.iter() {
        if let Obs::Found(_, i) = o {
            if !instances.contains(i) {
                instances.push(i.clone());
            }
        }
    }
    let rx_times: Vec<u64> = trace
        .rxs(host)
        .filter(|(_, rx)| wire::parse_lenient(&rx.data).is_ok_and(|(m, _)| m.is_response()))
        .map(|(e, _)| e.t)
        .collect();
    for inst_s in instances.iter() {
        let inst = wire::name(inst_s);
        let ptr_l: Vec<&Life> = hist.lives_of(|id| crate::model::is_ptr_to(id, &ty, &inst)).map(|(_, l)| l).collect();
        let ptr = spans(&ptr_l);
        let srv_lives: Vec<(&RecId, &Life)> = hist.lives_of(|id| id.rtype == wire::T_SRV && wire::names_eq_exact(&id.name, &inst)).collect();
        let srv_l: Vec<&Life> = srv_lives.iter().map(|(_, l)| *l).collect();
        let srv = spans(&srv_l);
        // addresses of every host an SRV of the instance ever pointed to
        let mut hosts: Vec<Name> = Vec::new();
        for (id, _) in srv_lives.iter() {
            if let RData::Srv { target, .. } = &id.rdata {
                if !hosts.iter().any(|h| wire::names_eq_nocase(h, target)) {
                    hosts.push(target.clone());
                }
            }
        }
        let addr_l: Vec<&Life> = hist
            .lives_of(|id| (id.rtype == wire::T_A || id.rtype == wire::T_AAAA) && hosts.iter().any(|h| wire::names_eq_nocase(h, &id.name)))
            .map(|(_, l)| l)
            .collect();
        let addr = spans(&addr_l);
        // for "removed only when true": the reading that cuts more
        let addr_lenient: Vec<&Life> = match &hist_lenient {
            Some(hl) => hl
                .lives_of(|id| (id.rtype == wire::T_A || id.rtype == wire::T_AAAA) && hosts.iter().any(|h| wire::names_eq_nocase(h, &id.name)))
                .map(|(_, l)| l)
                .collect(),
            None => addr_l.clone(),
        };
        let srv_lenient: Vec<&Life> = match &hist_lenient {
            Some(hl) => hl.lives_of(|id| id.rtype == wire::T_SRV && wire::names_eq_exact(&id.name, &inst)).map(|(_, l)| l).collect(),
            None => srv_l.clone(),
        };
        let removed: Vec<u64> = obs.iter().filter(|(_, o)| matches!(o, Obs::Removed(_, i) if i == inst_s)).map(|(t, _)| *t).collect();
        let reported: Vec<(u64, bool)> = obs
            .iter()
            .filter_map(|(t, o)| match o {
                Obs::Found(_, i) if i == inst_s => Some((*t, false)),
                Obs::Resolved(r) if r.fullname == *inst_s => Some((*t, true)),
                _ => None,
            })
            .collect();
        let wit = |at: u64| {
            json!({"scenario": made.desc, "instance": inst_s, "at_ms": at - crate::world::EPOCH,
                   "ptr_lives_ms": ptr.iter().map(|(a, b)| [a - crate::world::EPOCH, b - crate::world::EPOCH]).collect::<Vec<_>>(),
                   "srv_lives_ms": srv.iter().map(|(a, b)| [a - crate::world::EPOCH, b - crate::world::EPOCH]).collect::<Vec<_>>(),
                   "addr_lives_ms": addr.iter().map(|(a, b)| [a - crate::world::EPOCH, b - crate::world::EPOCH]).collect::<Vec<_>>(),
                   "removed_ms": removed.iter().map(|t| t - crate::world::EPOCH).collect::<Vec<_>>(),
                   "trace": scen::witness_window(trace, at.saturating_sub(3000), at + sl + 1100, 50)})
        };
        // departures: (instant, kind)
        let mut departures: Vec<(u64, &'static str)> = Vec::new();
        departures.extend(coverage_ends(&ptr).into_iter().map(|t| (t, "ptr")));
        departures.extend(coverage_ends(&srv).into_iter().map(|t| (t, "srv")));
        departures.extend(coverage_ends(&addr).into_iter().map(|t| (t, "address")));
        departures.sort();
        // D1/D2: a departure of a reported instance is followed by ServiceRemoved at that moment
        for (e_t, kind) in departures.iter() {
            if *e_t + sl + 5 > made.horizon {
                continue;
            }
            // reported (and not yet removed) just before the departure?
            let last_report = reported.iter().filter(|(t, _)| *t + g_early < *e_t || (*t <= *e_t && *kind != "address")).map(|(t, _)| *t).max();
            let Some(lr) = last_report else { continue };
            if *kind != "ptr" && !covered(&ptr_l, *e_t, g_early) {
                // The PTR itself is within its last second (or gone): the daemon no longer looks at
                // the instance, and its removal is due at the PTR's own end.
                continue;
            }
            if *kind != "ptr" && made.verifies.iter().any(|(t, vi, to)| (t + to).abs_diff(*e_t) <= sl + 1 && !scen::wire_name(vi).eq(&inst)) {
                // the records ended because a verify request for ANOTHER instance (sharing the host) timed out:
                // the statement obliges a removal for the verified instance only
                continue;
            }
            if *kind == "address" {
                // only an instance that was resolved can lose "the last address of its host"
                let resolved_before = reported.iter().any(|(t, res)| *res && *t + g_early < *e_t && !removed.iter().any(|r| *r >= *t && *r + g_early < *e_t));
                if !resolved_before {
                    continue;
                }
            }
            let removed_since = removed.iter().any(|r| *r >= lr && *r + g_early < *e_t);
            if removed_since {
                continue;
            }
            // a re-report inside the window makes the outcome ambiguous (removal and re-resolution race)
            if reported.iter().any(|(t, _)| *t + g_early >= *e_t && *t <= *e_t + sl + 1) && *kind == "address" {
                continue;
            }
            // was the goodbye-shortened or the natural end?
            l.act("D2");
            let ok = removed.iter().any(|r| *r + g_early >= *e_t && *r <= *e_t + sl);
            if !ok {
                let late = removed.iter().find(|r| **r > *e_t + sl).map(|r| r - e_t);
                l.violate(
                    Violation::new(
                        "D2",
                        format!("D2/no-removal-at-departure/{kind}/{}", if late.is_some() { "late" } else { "never" }),
                        format!(
                            "{inst_s} was reported and its {kind} record(s) ended at +{} ms, but ServiceRemoved {}",
                            e_t - crate::world::EPOCH,
                            match late {
                                Some(d) => format!("came {d} ms later"),
                                None => "never came".to_string(),
                            }
                        ),
                    )
                    .with(wit(*e_t)),
                );
                break;
            }
        }
        // D3 / D5 for each removal
        for r in removed.iter() {
            l.act("D3");
            if covered(&ptr_l, *r, g_early) && covered(&srv_lenient, *r, g_early) && covered(&addr_lenient, *r, g_early) {
                let covering: Vec<String> = hist
                    .lives_of(|id| (id.rtype == wire::T_A || id.rtype == wire::T_AAAA) && hosts.iter().any(|h| wire::names_eq_nocase(h, &id.name)))
                    .filter(|(_, l)| l.surely_live_at(*r, g_early))
                    .map(|(id, l)| format!("{} if{:?} from +{} expiry_at +{} receptions {:?}", crate::world::render_rdata(&id.rdata), id.if_index, l.from - crate::world::EPOCH, l.expiry_at(*r) - crate::world::EPOCH,
                        l.receptions.iter().filter(|(t, _)| *t <= *r).rev().take(3).map(|(t, ttl)| (t - crate::world::EPOCH, *ttl)).collect::<Vec<_>>()))
                    .collect();
                let mut w = wit(*r);
                w["covering_addresses"] = json!(covering);
                l.violate(
                    Violation::new("D3", "D3/removed-while-alive", format!("ServiceRemoved({inst_s}) at +{} ms while it has a live PTR, SRV and address", r - crate::world::EPOCH))
                        .with(w),
                );
                break;
            }
            l.act("D5");
            let explained = departures.iter().any(|(e_t, _)| *r + g_early >= *e_t && *r <= *e_t + sl + 1)
                // the instance was incomplete (no live address / SRV) when something made the daemon look again
                || !covered(&addr_lenient, *r, g_early)
                || !covered(&srv_lenient, *r, g_early)
                || !covered(&ptr_l, *r, g_early);
            if !explained {
                l.violate(
                    Violation::new("D5", "D5/unexplained-removal", format!("ServiceRemoved({inst_s}) at +{} ms is explained by no departure", r - crate::world::EPOCH))
                        .with(wit(*r)),
                );
                break;
            }
        }
        // D4: after a removal no ServiceResolved unless something arrived in between
        for r in removed.iter() {
            if let Some((t_res, _)) = reported.iter().find(|(t, res)| *res && *t > *r) {
                l.act("D4");
                let arrived = rx_times.iter().any(|x| *x >= *r && *x <= *t_res);
                if !arrived {
                    l.violate(
                        Violation::new("D4", "D4/resolved-after-removed-without-new-records", format!("ServiceResolved({inst_s}) {} ms after ServiceRemoved although nothing arrived in between", t_res - r))
                            .with(wit(*t_res)),
                    );
                    break;
                }
            }
        }
    }
}

pub fn run_one(seed: u64, which: &str, opts: &Opts, l: &mut Local) {
    let made = browser::scenario(seed, opts);
    l.evaluations += 1;
    let w = &made.world;
    l.count("daemon_iterations", w.total_iterations);
    l.count("virtual_s", (made.horizon - w.trace.entries[0].t) / 1000);
    l.count("records_delivered", Hist::build(&w.trace, 0, &[]).deliveries.len() as u64);
    l.count("events_observed", w.trace.entries.iter().filter(|e| matches!(e.ev, Ev::Obs { .. })).count() as u64);
    if w.trace.deaths().any(|d| matches!(d.ev, Ev::Death { panicked: true, .. })) {
        l.inconclusive.push(format!("daemon died in a browser scenario (seed {seed})"));
        return;
    }
    let shape: String = made.desc.split(" events:").next().unwrap_or("").to_string();
    let kinds: Vec<&str> = made.desc.split(':').skip(2).map(|s| s.split(|c: char| c.is_ascii_digit() || c == ' ' || c == '(').next().unwrap_or("")).collect();
    l.distinct.insert(util::fnv_str(&format!("{shape}|{kinds:?}")));
    if l.samples.len() < 2 {
        l.samples.push(json!({"scenario": made.desc}));
    }
    match which {
        "C03" => monitor_c03(&made, l),
        _ => monitor_c05(&made, l),
    }
}

pub fn run_c03(report: &Report, tier: &Tier) {
    report.set_rule(
        "browser scenarios: 1..3 scripted services (TTLs from {1,2,3,10,120,4500} s per record type, shared or separate hosts, several \
         addresses, v4/v6), 2..9 events among announce / split announce / update with cache-flush (port, TXT, address) / goodbye / partial \
         goodbye / vanish / verify / foreign records, responders answering the daemon's queries never / always / sometimes, deliveries with \
         loss, duplication and delay, horizon 3 x largest TTL; lazy, eager and oversleep stepping; plus the two-interface scenarios of C18 part P (an interface lost or switched off) judged for the interface tags of the addresses shown; distinct by (shape, event kinds)",
    );
    report.assume("records keep one spelling and one cache-flush setting per identity (PTR shared, SRV/TXT/address unique), so 'the same record' is unambiguous");
    for r in ["S1", "S2", "S3", "S4", "S2-interface-loss", "S2-flush-in-foreign-packet", "S1-srv-in-foreign-packet"] {
        report.floor(r, 100);
    }
    let seed = report.seed;
    let n: u64 = if tier.thorough { 250_000 } else { 4_000 };
    let opts = Opts::default();
    run_parallel(report, n, threads(), tier.budget_s * 0.9, |i, l| {
        run_one(util::mix(seed, 0xC03_0000 + i), "C03", &opts, l);
    });
    // addresses and the interfaces they were received on, when one of two interfaces goes
    let np: u64 = if tier.thorough { 60_000 } else { 1_200 };
    run_parallel(report, np, threads(), tier.budget_s * 0.1, |i, l| {
        match i % 3 {
            0 => interface_loss_case(util::mix(seed, 0xC03_9000 + i), "C03", l),
            1 => foreign_flush_case(util::mix(seed, 0xC03_A000 + i), l),
            _ => foreign_srv_update_case(util::mix(seed, 0xC03_B000 + i), l),
        }
    });
}

/// The interface-loss scenarios of C18 part P (instances learned over two interfaces, one of which goes
/// away or is switched off), judged for the clauses of C03 and C05 that speak of interfaces: an address
/// is shown with the interface(s) it was received on and only while that reception stands (S2); an instance
/// that still has a live PTR, SRV and address on an interface that is left is not reported removed (D5).
pub fn interface_loss_case(seed: u64, which: &str, l: &mut Local) {
    use crate::props::c18;
    let made = c18::scenario_p(seed);
    l.evaluations += 1;
    l.count("daemon_iterations", made.world.total_iterations);
    if made.world.trace.deaths().any(|d| matches!(d.ev, Ev::Death { panicked: true, .. })) {
        l.inconclusive.push(format!("daemon died in an interface-loss scenario (seed {seed})"));
        return;
    }
    l.distinct.insert(util::fnv_str(&format!("P|{:?}|{}|{}", made.loss, made.lost, made.second_loss.is_some())));
    let mut found = Local::default();
    c18::monitor_p(&made, &mut found);
    l.act(if which == "C05" { "D5-interface-loss" } else { "S2-interface-loss" });
    for v in found.violations {
        let class = v.signature.rsplit('/').next().unwrap_or("").to_string();
        if which == "C05" && v.signature.starts_with("I4/ServiceRemoved-for-instance-known-elsewhere/") {
            l.violate(Violation::new("D5", format!("D5/removed-while-live-on-another-interface/{class}"), v.message).with(v.witness));
        } else if which == "C03" && (v.signature.contains("/address-learned-on-lost-link-still-reported/") || v.signature.starts_with("I4/resolved-again-with-wrong-addresses/")) {
            l.violate(Violation::new("S2", format!("S2/address-from-dead-or-other-interface-record/after-interface-loss/{class}"), v.message).with(v.witness));
        }
    }
}

/// A browsed instance and a service of a type nobody browses share a host; the host's new address (cache-flush
/// bit set) reaches the daemon inside the other service's announcement - a packet whose PTR answers are none of
/// ours -, and 1.2-3 s later a changed TXT of the browsed instance makes the daemon report it again. Everything
/// is long-lived, so what is shown is decided by the cache-flush rule alone; judged by the rules of C03.
pub fn foreign_flush_case(seed: u64, l: &mut Local) {
    use crate::scen::Svc;
    let mut rng = crate::util::Rng::new(seed);
    let mut w = World::new(seed);
    let stepping = if rng.chance(1, 3) { Stepping::Eager(10) } else { Stepping::Lazy };
    w.set_stepping(stepping);
    let dual = rng.chance(1, 3);
    let h = w.add_host(if dual { scen::single_dual() } else { scen::single_v4() });
    w.set_ip_check_interval(h, 3600);
    let browse_chan = w.browse(h, browser::TY);
    w.run_for(rng.below(900));
    let host = if rng.chance(1, 2) { "Shared-Box.local" } else { "shared-box.local" };
    let mut s = Svc::new(browser::TY, if rng.chance(1, 2) { "Ours Upstairs" } else { "ours" }, host, [10, 0, 0, 50]);
    if dual && rng.chance(1, 2) {
        s.v6.push([0xfe, 0x80, 0, 0, 0, 0, 0, 0, 0, 0, 0, 0, 0, 0, 0, 0x50]);
    }
    for t in [&mut s.ttl_ptr, &mut s.ttl_srv, &mut s.ttl_txt, &mut s.ttl_addr] {
        *t = *rng.pick(&[120u32, 4500]);
    }
    w.inject_msg(h, 2, scen::peer4(50), &s.announce());
    w.run_for(1500 + rng.below(2500));
    // the other service announces itself with the host's new address set
    let mut s2 = s.clone();
    s2.v4 = vec![[10, 0, 0, 51]];
    if rng.chance(1, 3) {
        s2.v4.push([10, 0, 0, 52]);
    }
    let mut f = Svc::new("_elsewhere._tcp.local.", "thing", host, [0, 0, 0, 0]);
    f.v4 = s2.v4.clone();
    f.v6 = s2.v6.clone();
    f.ttl_addr = s2.ttl_addr;
    w.inject_msg(h, 2, scen::peer4(50), &f.announce());
    w.run_for(1200 + rng.below(1800));
    s2.txt = wire::txt_encode(&[(b"id".to_vec(), Some(b"moved".to_vec()))]);
    let mut m = wire::Message::response();
    m.answers.push(s2.ptr());
    m.answers.push(s2.txt());
    w.inject_msg(h, 2, scen::peer4(50), &m);
    let horizon = w.now() + 4000;
    w.run_until(horizon);
    l.evaluations += 1;
    l.distinct.insert(util::fnv_str(&format!("foreign-flush|{dual}|{stepping:?}|{host}|{}|{}", s.ttl_addr, s2.v4.len())));
    if w.trace.deaths().any(|d| matches!(d.ev, Ev::Death { panicked: true, .. })) {
        l.inconclusive.push(format!("daemon died in a C03 scenario (seed {seed})"));
        return;
    }
    l.act("S2-flush-in-foreign-packet");
    let made = Made { world: w, horizon, desc: format!("{stepping:?} dual={dual} address update of {host} delivered inside the announcement of a service of an unbrowsed type, TXT update afterwards events: @0:announce0 @1:foreign-flush0 @2:update0"), svcs: vec![s2], policy: browser::Policy::Never, browse_chan, host_chans: Vec::new(), verifies: Vec::new() };
    monitor_c03(&made, l);
}

/// An instance that carries no TXT record (PTR, SRV and address only) moves to another port; the new SRV record,
/// cache-flush bit set, arrives inside the announcement of a service of an unbrowsed type (an aggregated response
/// of a box that runs both). More than a second later another address of the host shows up and the instance is
/// reported again: with the port of the SRV record that is live then.
pub fn foreign_srv_update_case(seed: u64, l: &mut Local) {
    use crate::scen::Svc;
    let mut rng = crate::util::Rng::new(seed);
    let mut w = World::new(seed);
    let stepping = if rng.chance(1, 3) { Stepping::Eager(10) } else { Stepping::Lazy };
    w.set_stepping(stepping);
    let h = w.add_host(scen::single_v4());
    w.set_ip_check_interval(h, 3600);
    let browse_chan = w.browse(h, browser::TY);
    w.run_for(rng.below(900));
    let host = if rng.chance(1, 2) { "Bare-Box.local" } else { "bare-box.local" };
    let mut s = Svc::new(browser::TY, if rng.chance(1, 2) { "Bare Upstairs" } else { "bare" }, host, [10, 0, 0, 54]);
    for t in [&mut s.ttl_ptr, &mut s.ttl_srv, &mut s.ttl_addr] {
        *t = *rng.pick(&[120u32, 4500]);
    }
    let without_txt = rng.chance(1, 2);
    let mut m = wire::Message::response();
    m.answers = s.records().into_iter().filter(|r| !(without_txt && r.rtype == wire::T_TXT)).collect();
    w.inject_msg(h, 2, scen::peer4(54), &m);
    w.run_for(1500 + rng.below(2500));
    // the move, told inside the other service's announcement
    let mut s2 = s.clone();
    // (the SRV record, the TXT record of an instance that has one, or both)
    let what = if without_txt { 0 } else { 1 + util::mix(seed, 0x7C) % 2 };
    if what != 1 {
        s2.port = s.port + 100;
    }
    if what != 0 {
        s2.txt = wire::txt_encode(&[(b"id".to_vec(), Some(b"moved".to_vec()))]);
    }
    let f = Svc::new("_elsewhere._tcp.local.", "thing", host, [10, 0, 0, 54]);
    let mut m = f.announce();
    if what != 1 {
        let at = rng.usize(m.answers.len()) + 1;
        m.answers.insert(at.min(m.answers.len()), s2.srv());
    }
    if what != 0 {
        let at = rng.usize(m.answers.len()) + 1;
        m.answers.insert(at.min(m.answers.len()), s2.txt());
    }
    w.inject_msg(h, 2, scen::peer4(54), &m);
    w.run_for(1200 + rng.below(1800));
    // another address of the host
    s2.v4.push([10, 0, 0, 55]);
    let mut m = wire::Message::response();
    m.answers = s2.addrs();
    w.inject_msg(h, 2, scen::peer4(54), &m);
    let horizon = w.now() + 4000;
    w.run_until(horizon);
    l.evaluations += 1;
    l.distinct.insert(util::fnv_str(&format!("foreign-srv|{without_txt}|{what}|{stepping:?}|{host}|{}", s.ttl_srv)));
    if w.trace.deaths().any(|d| matches!(d.ev, Ev::Death { panicked: true, .. })) {
        l.inconclusive.push(format!("daemon died in a C03 scenario (seed {seed})"));
        return;
    }
    l.act("S1-srv-in-foreign-packet");
    let made = Made { world: w, horizon, desc: format!("{stepping:?} txt={} SRV update of an instance on {host} delivered inside the announcement of a service of an unbrowsed type, another address afterwards events: @0:announce0 @1:foreign-srv0 @2:address0", !without_txt), svcs: vec![s2], policy: browser::Policy::Never, browse_chan, host_chans: Vec::new(), verifies: Vec::new() };
    monitor_c03(&made, l);
}

/// Two types are browsed; the search for the other one is stopped (or replaced, or started later) while an
/// instance of ours is resolved; then the last address of its host runs out, PTR and SRV still live:
/// ServiceRemoved is owed at that moment all the same (D2).
pub fn other_search_case(seed: u64, l: &mut Local) {
    use crate::scen::Svc;
    let mut rng = crate::util::Rng::new(seed);
    let mut w = World::new(seed);
    let stepping = if rng.chance(1, 3) { Stepping::Eager(10) } else { Stepping::Lazy };
    w.set_stepping(stepping);
    let sl = slack(stepping);
    let h = w.add_host(scen::single_v4());
    w.set_ip_check_interval(h, 3600);
    let other = "_other._tcp.local.";
    let what = rng.below(4);
    if what != 3 {
        w.browse(h, other);
    }
    let Some(chan) = w.browse(h, browser::TY) else { return };
    w.run_for(rng.below(900));
    let mut s = Svc::new(browser::TY, if rng.chance(1, 2) { "Ours Downstairs" } else { "ours" }, "ours-host.local", [10, 0, 0, 70]);
    s.ttl_ptr = 4500;
    s.ttl_srv = 120;
    s.ttl_txt = 4500;
    s.ttl_addr = *rng.pick(&[4u32, 6, 10]);
    let t_rx = w.now();
    w.inject_msg(h, 2, scen::peer4(70), &s.announce());
    if rng.chance(1, 2) {
        let o = Svc::new(other, "theirs", "theirs-host.local", [10, 0, 0, 71]);
        w.inject_msg(h, 2, scen::peer4(71), &o.announce());
    }
    w.run_for(500 + rng.below(2000));
    let desc = match what {
        0 => {
            w.stop_browse(h, other);
            "the other type's search stopped"
        }
        1 => {
            w.browse(h, other);
            "the other type browsed again"
        }
        2 => {
            w.stop_browse(h, other);
            w.run_for(200);
            w.browse_cache(h, other);
            "the other type's search stopped, then a cache-only browse of it"
        }
        _ => {
            w.browse(h, other);
            "the other type's search started later"
        }
    };
    let due = t_rx + 1000 * s.ttl_addr as u64;
    w.run_until(due + 3000);
    l.evaluations += 1;
    l.distinct.insert(util::fnv_str(&format!("other-search|{what}|{}|{stepping:?}", s.ttl_addr)));
    if w.trace.deaths().any(|d| matches!(d.ev, Ev::Death { panicked: true, .. })) {
        l.inconclusive.push(format!("daemon died in a C05 scenario (seed {seed})"));
        return;
    }
    l.act("D2-other-search");
    let full = s.fullname();
    let removed: Vec<u64> = w.trace.obs(chan).filter_map(|(e, o)| match o { Obs::Removed(_, n) if *n == full => Some(e.t), _ => None }).collect();
    // (the crate counts the last second of a record as gone: up to one second early is accepted, as everywhere in C05)
    let ok = removed.iter().any(|t| *t + 1000 >= due && *t <= due + sl);
    if !ok {
        l.violate(
            Violation::new("D2", format!("D2/no-removal-at-departure/address/{}/after-another-search-changed", if removed.is_empty() { "never" } else { "late" }),
                format!("{full} lost its last address at +{} ms ({desc} before that); ServiceRemoved came at {:?}", due - crate::world::EPOCH, removed.iter().map(|t| t - crate::world::EPOCH).collect::<Vec<_>>()))
                .with(json!({"scenario": desc, "trace": scen::witness_window(&w.trace, t_rx, due + 3000, 50)})),
        );
    }
}

/// An instance whose records are in the cache before its type is browsed for the first time (they came along
/// with the announcement of an instance of a type that was browsed already, same host, same packet; or the
/// daemon accepts unsolicited responses): the browse reports it from the cache. When its host's last address is
/// withdrawn later, PTR and SRV still live, ServiceRemoved is owed one second later like for any other (D2).
pub fn cached_before_browse_case(seed: u64, l: &mut Local) {
    use crate::scen::Svc;
    let mut rng = crate::util::Rng::new(seed);
    let mut w = World::new(seed);
    let stepping = if rng.chance(1, 3) { Stepping::Eager(10) } else { Stepping::Lazy };
    w.set_stepping(stepping);
    let sl = slack(stepping);
    let h = w.add_host(scen::single_v4());
    w.set_ip_check_interval(h, 3600);
    let unsolicited = rng.chance(1, 2);
    let first_ty = "_first._tcp.local.";
    if unsolicited {
        w.accept_unsolicited(h, true);
    } else {
        w.browse(h, first_ty);
    }
    w.run_for(rng.below(900));
    let host = if rng.chance(1, 2) { "Two-Things.local" } else { "two-things.local" };
    let mut s = Svc::new(browser::TY, if rng.chance(1, 2) { "Ours Early" } else { "ours" }, host, [10, 0, 0, 56]);
    s.ttl_ptr = 4500;
    s.ttl_srv = 120;
    s.ttl_addr = 120;
    let f = Svc::new(first_ty, "thing", host, [10, 0, 0, 56]);
    let mut m = f.announce();
    m.answers.extend(s.records().into_iter().filter(|r| r.rtype != wire::T_A && r.rtype != wire::T_AAAA));
    w.inject_msg(h, 2, scen::peer4(56), &m);
    w.run_for(300 + rng.below(2500));
    let Some(chan) = (if rng.chance(1, 4) { w.browse_cache(h, browser::TY) } else { w.browse(h, browser::TY) }) else { return };
    w.run_for(300 + rng.below(2500));
    // the host's address is withdrawn (both services lose it; PTR and SRV of ours stay)
    let t_bye = w.now();
    let mut m = wire::Message::response();
    m.answers = s.goodbye().answers.into_iter().filter(|r| r.rtype == wire::T_A || r.rtype == wire::T_AAAA).collect();
    w.inject_msg(h, 2, scen::peer4(56), &m);
    let due = t_bye + 1000;
    w.run_until(due + 3000);
    l.evaluations += 1;
    l.distinct.insert(util::fnv_str(&format!("cached-before-browse|{unsolicited}|{stepping:?}|{host}")));
    if w.trace.deaths().any(|d| matches!(d.ev, Ev::Death { panicked: true, .. })) {
        l.inconclusive.push(format!("daemon died in a C05 scenario (seed {seed})"));
        return;
    }
    let full = s.fullname();
    let resolved_before = w.trace.obs(chan).any(|(e, o)| e.t <= t_bye && matches!(o, Obs::Resolved(r) if r.fullname == full));
    if !resolved_before {
        l.count("cached_before_browse_not_resolved_from_cache", 1);
        return;
    }
    l.act("D2-cached-before-browse");
    let removed: Vec<u64> = w.trace.obs(chan).filter_map(|(e, o)| match o { Obs::Removed(_, n) if *n == full => Some(e.t), _ => None }).collect();
    let ok = removed.iter().any(|t| *t + 1000 >= due && *t <= due + sl);
    if !ok {
        l.violate(
            Violation::new("D2", format!("D2/no-removal-at-departure/address/{}/instance-reported-from-the-cache-at-browse", if removed.is_empty() { "never" } else { "late" }),
                format!("{full} was reported from the cache when its type was browsed; it lost its last address at +{} ms; ServiceRemoved came at {:?}", due - crate::world::EPOCH, removed.iter().map(|t| t - crate::world::EPOCH).collect::<Vec<_>>()))
                .with(json!({"unsolicited": unsolicited, "trace": scen::witness_window(&w.trace, t_bye.saturating_sub(3000), due + 3000, 50)})),
        );
    }
}

/// Our instance shares its host with a service of a type nobody browses; that service is withdrawn and its goodbye
/// takes the host's address records with it (TTL 0), in a packet whose PTR answers are none of ours. Our instance
/// has lost its last address: ServiceRemoved one second later (D2).
pub fn foreign_goodbye_case(seed: u64, l: &mut Local) {
    use crate::scen::Svc;
    let mut rng = crate::util::Rng::new(seed);
    let mut w = World::new(seed);
    let stepping = if rng.chance(1, 3) { Stepping::Eager(10) } else { Stepping::Lazy };
    w.set_stepping(stepping);
    let sl = slack(stepping);
    let h = w.add_host(scen::single_v4());
    w.set_ip_check_interval(h, 3600);
    let Some(chan) = w.browse(h, browser::TY) else { return };
    w.run_for(rng.below(900));
    let host = if rng.chance(1, 2) { "Shared-Box.local" } else { "shared-box.local" };
    let mut s = Svc::new(browser::TY, if rng.chance(1, 2) { "Ours Upstairs" } else { "ours" }, host, [10, 0, 0, 50]);
    s.ttl_ptr = 4500;
    s.ttl_srv = 120;
    s.ttl_addr = 120;
    let f = Svc::new("_elsewhere._tcp.local.", "thing", host, [10, 0, 0, 50]);
    if rng.chance(1, 2) {
        w.inject_msg(h, 2, scen::peer4(50), &f.announce());
        w.run_for(rng.below(500));
    }
    w.inject_msg(h, 2, scen::peer4(50), &s.announce());
    w.run_for(1500 + rng.below(2500));
    let t_bye = w.now();
    w.inject_msg(h, 2, scen::peer4(50), &f.goodbye());
    let silent_after = rng.chance(1, 2);
    if !silent_after {
        // the host is still there for our instance: it says so again two seconds later
        w.run_for(2000);
        let mut m = wire::Message::response();
        m.answers.extend(s.addrs());
        w.inject_msg(h, 2, scen::peer4(50), &m);
    }
    w.run_until(t_bye + 5000);
    l.evaluations += 1;
    l.distinct.insert(util::fnv_str(&format!("foreign-goodbye|{host}|{silent_after}|{stepping:?}")));
    if w.trace.deaths().any(|d| matches!(d.ev, Ev::Death { panicked: true, .. })) {
        l.inconclusive.push(format!("daemon died in a C05 scenario (seed {seed})"));
        return;
    }
    l.act("D2-foreign-goodbye");
    let full = s.fullname();
    let removed: Vec<u64> = w.trace.obs(chan).filter_map(|(e, o)| match o { Obs::Removed(_, n) if *n == full => Some(e.t), _ => None }).collect();
    let due = t_bye + 1000;
    if !removed.iter().any(|t| *t >= due && *t <= due + sl) {
        l.violate(
            Violation::new("D2", format!("D2/no-removal-at-departure/address/{}/goodbye-in-a-foreign-service-packet", if removed.is_empty() { "never" } else { "late" }),
                format!("the address records of {host} were withdrawn (TTL 0) in the goodbye of a service of an unbrowsed type; {full} lost its last address, ServiceRemoved came at {:?} ms after the goodbye", removed.iter().map(|t| t.saturating_sub(t_bye)).collect::<Vec<_>>()))
                .with(json!({"trace": scen::witness_window(&w.trace, t_bye.saturating_sub(100), t_bye + 3000, 40)})),
        );
    }
}

/// D4 in isolation: one resolved instance with long TTLs, nothing else going on, a verify
/// request with timeout T that the responder answers (no removal at all) or not (removal
/// at T, not before: nothing else can make the daemon look at the instance earlier).
pub fn verify_case(seed: u64, l: &mut Local) {
    use crate::scen::Svc;
    let mut rng = crate::util::Rng::new(seed);
    let mut w = World::new(seed);
    let stepping = if rng.chance(1, 3) { Stepping::Eager(10) } else { Stepping::Lazy };
    w.set_stepping(stepping);
    let sl = slack(stepping);
    let h = w.add_host(scen::single_v4());
    w.set_ip_check_interval(h, 3600);
    let Some(chan) = w.browse(h, browser::TY) else { return };
    w.run_for(rng.below(900));
    let mut s = Svc::new(browser::TY, "verified", "verified-host.local", [10, 0, 0, 40]);
    s.ttl_srv = 4500;
    s.ttl_addr = 4500;
    w.inject_msg(h, 2, scen::peer4(40), &s.announce());
    w.run_for(1200 + rng.below(2000));
    let timeout = *rng.pick(&[1u64, 250, 400, 999, 1000, 1001, 1500, 2500, 2750, 4321, 10_000]);
    let answered = rng.chance(1, 3);
    let t = w.now();
    w.verify(h, &s.fullname(), timeout);
    if answered {
        // the responder answers before the timeout
        w.run_until(t + timeout * (1 + rng.below(8)) / 10);
        w.inject_msg(h, 2, scen::peer4(40), &s.announce());
    }
    let horizon = t + timeout + 3000;
    w.run_until(horizon);
    l.evaluations += 1;
    l.distinct.insert(util::fnv_str(&format!("verify|{timeout}|{answered}|{stepping:?}")));
    if w.trace.deaths().any(|d| matches!(d.ev, Ev::Death { panicked: true, .. })) {
        l.inconclusive.push(format!("daemon died in a C05 verify scenario (seed {seed})"));
        return;
    }
    let removed: Vec<u64> = w.trace.obs(chan).filter_map(|(e, o)| if matches!(o, Obs::Removed(..)) && e.t >= t { Some(e.t - t) } else { None }).collect();
    let wit = || json!({"timeout_ms": timeout, "answered": answered, "removed_after_ms": removed, "trace": scen::witness_window(&w.trace, t.saturating_sub(10), horizon, 40)});
    l.act("D4");
    if answered && timeout > 20 {
        if let Some(r) = removed.first() {
            l.violate(Violation::new("D4", "D4/verify/removed-although-answered", format!("verify({timeout} ms) was answered in time, yet ServiceRemoved came after {r} ms")).with(wit()));
        }
        return;
    }
    if answered {
        return;
    }
    match removed.first() {
        None => l.violate(Violation::new("D4", "D4/verify/no-removal-after-timeout", format!("verify({timeout} ms) stayed unanswered but no ServiceRemoved came")).with(wit())),
        Some(r) if *r + sl < timeout => l.violate(Violation::new("D4", "D4/verify/removed-before-timeout", format!("verify({timeout} ms) stayed unanswered; ServiceRemoved came after {r} ms already")).with(wit())),
        Some(r) if *r > timeout + sl + 1 => l.violate(Violation::new("D4", "D4/verify/removed-late", format!("verify({timeout} ms) stayed unanswered; ServiceRemoved came only after {r} ms")).with(wit())),
        _ => {}
    }
}

pub fn run_c05(report: &Report, tier: &Tier) {
    report.set_rule(
        "the browser scenarios of C03 (announce / update / goodbye / partial goodbye / vanish / verify with timeouts {0, 1, 400, 999, 1000, 1001, 1500, 2750 ms, 10 s, 1 h}, \
         refresh queries answered or not, lossy deliveries) with TTLs 1 s .. 4500 s and horizons of 3 x the largest TTL; every ServiceRemoved and \
         every departure instant computed from the delivered-record history is judged; plus verify requests in isolation (one resolved instance, \
         timeouts {1, 250, 400, 999, 1000, 1001, 1500, 2500, 2750, 4321 ms, 10 s}, answered in time or not): removal at the timeout to the millisecond; \
         plus the two-interface scenarios of C18 part P: no ServiceRemoved for an instance still known on the interface that is left; \
         distinct by (shape, event kinds) / (timeout, answered, stepping)",
    );
    report.assume("a removal up to one second before a record's expiry is accepted (the crate treats the last second of a record as gone)");
    for r in ["D2", "D3", "D4", "D5", "D5-interface-loss", "D2-other-search", "D2-foreign-goodbye", "D2-cached-before-browse"] {
        report.floor(r, 50);
    }
    let seed = report.seed;
    let n: u64 = if tier.thorough { 250_000 } else { 4_000 };
    // oversleep is part of C11's quantifier, not of C05's "plus at most one scheduling step"
    run_parallel(report, n, threads(), tier.budget_s * 0.8, |i, l| {
        let opts = Opts { stepping: Some(match i % 4 { 0 => Stepping::Eager(10), 1 => Stepping::Eager(50), _ => Stepping::Lazy }), ..Opts::default() };
        run_one(util::mix(seed, 0xC05_0000 + i), "C05", &opts, l);
    });
    // verify requests in isolation (the timeout to the millisecond)
    let nv: u64 = if tier.thorough { 20_000 } else { 600 };
    run_parallel(report, nv, threads(), tier.budget_s * 0.1, |i, l| {
        verify_case(util::mix(seed, 0xC05_7000 + i), l);
    });
    // no removal of what is still known on an interface that is left
    let np: u64 = if tier.thorough { 80_000 } else { 1_600 };
    run_parallel(report, np, threads(), tier.budget_s * 0.1, |i, l| {
        match i % 4 {
            0 => interface_loss_case(util::mix(seed, 0xC05_9000 + i), "C05", l),
            1 => other_search_case(util::mix(seed, 0xC05_A000 + i), l),
            2 => foreign_goodbye_case(util::mix(seed, 0xC05_B000 + i), l),
            _ => cached_before_browse_case(util::mix(seed, 0xC05_C000 + i), l),
        }
    });
}
