//! C11 — records live for their TTL, refresh at 80/85/90/95 %, obey cache-flush.
//!
//! Part (a), component level: the life-time arithmetic of a real record
//! (`RecordClock` facade) is driven under a virtual clock and compared at every
//! observation with an exact integer model of the statement.
//! Part (b), world level (refresh queries on the wire, flush rule, expiry under late
//! wake-ups) lives in `c11_world`.

use crate::report::{run_parallel, threads, Local, Report, Violation};
use crate::util::{self, Rng};
use crate::Tier;
use mdns_sd::verif::{self as hooks, codec::RecordClock, SimCtx};
use serde_json::json;
use std::sync::atomic::{AtomicU64, Ordering};
use std::sync::Arc;

struct Model {
    created: u64,
    ttl: u64,
    consumed: u32,
}

impl Model {
    fn expires(&self) -> u64 {
        self.created + 1000 * self.ttl
    }
    fn mark(&self, k: u32) -> u64 {
        // k = 0..4 -> 80, 85, 90, 95 %
        self.created + self.ttl * (800 + 50 * k as u64)
    }
    fn passed(&self, now: u64) -> u32 {
        (0..4).filter(|k| now >= self.mark(*k)).count() as u32
    }
}

/// One record life under a generated observation sequence.
pub fn one_life(seed: u64, ttl: u32, mode: u32, l: &mut Local) {
    let mut rng = Rng::new(seed);
    let clock = Arc::new(AtomicU64::new(1_700_000_000_000 + rng.below(1_000_000)));
    let ctx = SimCtx::new(clock.clone(), seed, 0, Vec::new());
    hooks::set_thread_ctx(Some(ctx));
    let flush = rng.chance(1, 2);
    let mut rec = RecordClock::new(ttl, flush);
    let mut m = Model {
        created: clock.load(Ordering::SeqCst),
        ttl: ttl as u64,
        consumed: 0,
    };
    l.evaluations += 1;
    l.distinct
        .insert(util::fnv_str(&format!("{}|{}", ttl.min(700), mode)));
    let mut obs_log: Vec<(u64, &'static str)> = Vec::new();
    let fail = |rule: &str, sig: &str, msg: String, m: &Model, log: &Vec<(u64, &'static str)>| {
        Violation::new(rule, sig.to_string(), msg).with(json!({
            "ttl": ttl, "mode": mode, "seed": seed, "created": m.created,
            "observations_ms_after_creation": log.iter().rev().take(30).rev()
                .map(|(t, what)| json!([t - m.created.min(*t), what])).collect::<Vec<_>>()
        }))
    };
    if rec.created() != m.created || rec.expires() != m.expires() {
        l.violate(fail(
            "L1",
            "L1a/initial-expiry",
            format!("record with ttl {ttl} created at {} expires at {}, model {}", rec.created(), rec.expires(), m.expires()),
            &m,
            &obs_log,
        ));
        hooks::set_thread_ctx(None);
        return;
    }
    // observation times
    let life = 1000 * m.ttl.max(1);
    let steps = 12 + rng.usize(40);
    let mut resets_left = if mode == 3 { 2 } else { 0 };
    let mut i = 0;
    while i < steps {
        i += 1;
        let now0 = clock.load(Ordering::SeqCst);
        let rel = now0 - m.created;
        let next_rel = match mode {
            // exactly at the marks and at expiry, then beyond
            0 => {
                let pts = [
                    m.ttl * 800,
                    m.ttl * 850,
                    m.ttl * 900,
                    m.ttl * 950,
                    life,
                    life + 1,
                    life + 5000,
                ];
                match pts.iter().find(|p| **p > rel) {
                    Some(p) => *p,
                    None => break,
                }
            }
            // around every boundary ±1 ms
            1 => {
                let mut pts = Vec::new();
                for b in [m.ttl * 500, m.ttl * 800, m.ttl * 850, m.ttl * 900, m.ttl * 950, life.saturating_sub(1000), life] {
                    pts.extend([b.saturating_sub(1), b, b + 1]);
                }
                pts.sort_unstable();
                match pts.iter().find(|p| **p > rel) {
                    Some(p) => *p,
                    None => break,
                }
            }
            // wake-ups that skip marks: coarse random steps
            2 => rel + 1 + rng.below(life / 3 + 2),
            // dense random
            _ => rel + 1 + rng.below(life / 15 + 2),
        };
        let now = m.created + next_rel;
        clock.store(now, Ordering::SeqCst);

        // pure predicates first
        l.act("L1a");
        let exp = rec.is_expired(now);
        if exp != (now >= m.expires()) {
            obs_log.push((now, "is_expired"));
            l.violate(fail(
                "L1",
                if exp { "L1a/expired-early" } else { "L1a/alive-after-expiry" },
                format!("is_expired({}) = {exp} for ttl {ttl}; expiry is at +{} ms", now - m.created, life),
                &m,
                &obs_log,
            ));
            break;
        }
        if m.ttl >= 1 {
            l.act("K-half");
            let half = rec.halflife_passed(now);
            let want = now > m.created + 500 * m.ttl;
            if half != want {
                obs_log.push((now, "halflife_passed"));
                l.violate(fail(
                    "L1",
                    "L1a/halflife",
                    format!("halflife_passed at +{} ms = {half} for ttl {ttl}", now - m.created),
                    &m,
                    &obs_log,
                ));
                break;
            }
            if !want && now >= m.created {
                // written TTL of a known answer: remaining life within one second
                let written = rec.known_answer_ttl(now) as u64;
                let remaining_ms = m.expires() - now;
                if written * 1000 > remaining_ms + 1000 || (written + 1) * 1000 < remaining_ms {
                    obs_log.push((now, "known_answer_ttl"));
                    l.violate(fail(
                        "K4",
                        "K4a/written-ttl",
                        format!("known-answer TTL {written} s at +{} ms, remaining life {remaining_ms} ms", now - m.created),
                        &m,
                        &obs_log,
                    ));
                    break;
                }
            }
        }
        // refresh
        if m.ttl > 1 {
            l.act("L2a");
            let got = rec.refresh_maybe(now);
            let want = now < m.expires() && m.consumed < m.passed(now);
            obs_log.push((now, if got { "refresh=true" } else { "refresh=false" }));
            if got != want {
                let sig = if got {
                    if now >= m.expires() {
                        "L2a/refresh-after-expiry"
                    } else {
                        "L2a/refresh-more-than-once-per-mark"
                    }
                } else {
                    "L2a/refresh-missing"
                };
                l.violate(fail(
                    "L2",
                    sig,
                    format!(
                        "refresh_maybe at +{} ms (={}% of ttl {ttl}) returned {got}; marks passed {}, already refreshed {}",
                        now - m.created,
                        (now - m.created) / (10 * m.ttl.max(1)),
                        m.passed(now),
                        m.consumed
                    ),
                    &m,
                    &obs_log,
                ));
                break;
            }
            if got {
                m.consumed += 1;
            }
        }
        // a fresh copy arrives
        if resets_left > 0 && now < m.expires() && rng.chance(1, 6) {
            resets_left -= 1;
            let new_ttl = match rng.below(4) {
                0 => ttl,
                1 => 2 + rng.below(600) as u32,
                2 => 120,
                _ => 4500,
            };
            rec.reset_ttl(new_ttl);
            m = Model {
                created: now,
                ttl: new_ttl as u64,
                consumed: 0,
            };
            obs_log.push((now, "fresh copy"));
            l.act("L2a-restart");
            if rec.expires() != m.expires() || rec.created() != now {
                l.violate(fail(
                    "L1",
                    "L1a/restart-expiry",
                    format!("after a fresh copy with ttl {new_ttl} the record expires at +{} ms", rec.expires() - now),
                    &m,
                    &obs_log,
                ));
                break;
            }
        }
    }
    hooks::set_thread_ctx(None);
}

pub fn run_component(report: &Report, tier: &Tier, share: f64) {
    let seed = report.seed;
    let big: [u32; 7] = [4500, 65535, 1 << 24, 1 << 31, u32::MAX, 7200, 86400];
    let max_small: u32 = if tier.thorough { 3000 } else { 600 };
    let per_ttl: u64 = if tier.thorough { 24 } else { 8 };
    let n = (max_small as u64 + big.len() as u64) * per_ttl;
    run_parallel(report, n, threads(), tier.budget_s * share, |i, l| {
        let t_idx = i / per_ttl;
        let ttl = if t_idx < max_small as u64 {
            1 + t_idx as u32
        } else {
            big[(t_idx - max_small as u64) as usize]
        };
        let mode = (i % per_ttl % 4) as u32;
        one_life(util::mix(seed, 0xC11_0000 + i), ttl, mode, l);
    });
}

pub fn run(report: &Report, tier: &Tier) {
    report.set_rule(
        "component part: every TTL 1..=600 (thorough: ..=3000) and {4500, 7200, 65535, 86400, 2^24, 2^31, 2^32-1} x observation \
         modes {exactly at marks, +-1 ms around every boundary, coarse steps that skip marks, dense random with fresh copies}; world part: \
         L2 browser scenarios (TTLs {2,3,10,30,120} s, responders answering never/always/sometimes) with every refresh mark of every needed \
         record checked on the wire; L3 two address records of one host, the second with the cache-flush bit arriving 0..2000 ms later \
         (every ms between 900 and 1100), same or other interface, with burst companions; L1 hostname scenarios under late wake-ups \
         (up to 0.8 / 3 s); distinct by (ttl, mode) / scenario shape / (delta, topology)",
    );
    report.assume("TTL <= 1 (goodbye records) carries no refresh obligation (both behaviours accepted)");
    report.assume("L3 is lenient for ages of 999..1001 ms");
    for r in ["L1a", "L2a", "K-half", "L1", "L2", "L3"] {
        report.floor(r, 100);
    }
    run_component(report, tier, 0.25);
    let seed = report.seed;
    // L3 sweep
    let deltas: Vec<u64> = (0..900).step_by(50).chain(900..=1100).chain((1150..=2000).step_by(50)).collect();
    let reps: u64 = if tier.thorough { 120 } else { 3 };
    let n = deltas.len() as u64 * reps;
    run_parallel(report, n, threads(), tier.budget_s * 0.2, |i, l| {
        crate::props::c11w::l3_case(deltas[(i % deltas.len() as u64) as usize], util::mix(seed, 0xC11_3000 + i), l);
    });
    // the same for the unique records of an instance (TXT, SRV): replaced and replaced back
    let n = deltas.len() as u64 * reps;
    run_parallel(report, n, threads(), tier.budget_s * 0.1, |i, l| {
        crate::props::c11w::l3_unique_case(deltas[(i % deltas.len() as u64) as usize] + 200, util::mix(seed, 0xC11_3800 + i), l);
    });
    let n: u64 = if tier.thorough { 200_000 } else { 1_500 };
    run_parallel(report, n, threads(), tier.budget_s * 0.2, |i, l| {
        crate::props::c11w::l2_case(util::mix(seed, 0xC11_2000 + i), l);
    });
    let n: u64 = if tier.thorough { 200_000 } else { 1_500 };
    run_parallel(report, n, threads(), tier.budget_s * 0.25, |i, l| {
        crate::props::c11w::l1_case(util::mix(seed, 0xC11_1000 + i), l);
    });
}
