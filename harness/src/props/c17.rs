//! C17 — hostname resolution: right addresses, case-insensitive, ends on time.

use crate::model::{Hist, Life, RecId};
use crate::props::c03::slack;
use crate::report::{run_parallel, threads, Local, Report, Violation};
use crate::scen;
use crate::util::{self, Rng};
use crate::wire::{self, Message, Name, RData};
use crate::world::*;
use crate::Tier;
use serde_json::json;
use std::net::IpAddr;

pub struct Made {
    pub world: World,
    pub horizon: u64,
    pub desc: String,
    /// (channel, name as given, start time, timeout ms)
    pub searches: Vec<(usize, String, u64, Option<u64>)>,
}

fn case_variants(base: &str) -> Vec<String> {
    let stem = base.trim_end_matches(".local.");
    vec![
        format!("{stem}.local."),
        format!("{}.local.", stem.to_ascii_uppercase()),
        format!(
            "{}.local.",
            stem.chars().enumerate().map(|(i, c)| if i % 2 == 0 { c.to_ascii_uppercase() } else { c }).collect::<String>()
        ),
    ]
}

fn ip_of(id: &RecId) -> Option<IpAddr> {
    match &id.rdata {
        RData::A(a) => Some(IpAddr::from(*a)),
        RData::Aaaa(a) => Some(IpAddr::from(*a)),
        _ => None,
    }
}

pub fn scenario(seed: u64, stepping: Option<Stepping>) -> Made {
    let mut rng = Rng::new(seed);
    let mut w = World::new(seed);
    let s = stepping.unwrap_or(match rng.below(4) {
        0 => Stepping::Eager(10),
        1 => Stepping::Eager(50),
        _ => Stepping::Lazy,
    });
    w.set_stepping(s);
    let topo = rng.below(4);
    let ifs = match topo {
        0 => scen::single_v4(),
        1 => scen::single_dual(),
        2 => scen::two_v4(),
        // two links, both families on each: the host has one link-local address per link
        _ => vec![IfSpec::new("eth0", 2, 0, &[("10.0.0.5", 24), ("fe80::5", 64)]), IfSpec::new("eth1", 3, 1, &[("192.168.1.5", 24), ("fe80::6", 64)])],
    };
    let h = w.add_host(ifs.clone());
    let t0 = w.now();
    w.set_ip_check_interval(h, 3600);
    let base = *rng.pick(&["printer.local.", "nas.local.", "\u{c9}cole-Nas.local."]);
    let variants = case_variants(base);
    let other = "unrelated.local.";
    let mut desc = format!("{:?} topo={topo} host={base}", w.stepping);
    let mut searches = Vec::new();
    let answer_queries = rng.chance(1, 2);
    let ttl_menu: &[u32] = &[1, 2, 10, 120];
    // current address set of the host as the responder sees it: (ip, ttl, owner spelling)
    let mut addrs: Vec<(IpAddr, u32, String)> = Vec::new();
    let n_ops = 3 + rng.usize(8);
    let mut t = 0u64;
    let mut seen_tx = 0usize;
    let react = |w: &mut World, seen: &mut usize, addrs: &Vec<(IpAddr, u32, String)>, on: bool| -> bool {
        let n = w.trace.entries.len();
        let mut out: Vec<(u32, bool, Message)> = Vec::new();
        if on {
            for e in w.trace.entries[*seen..n].iter() {
                let Ev::Tx(tx) = &e.ev else { continue };
                let Ok(m) = &tx.msg else { continue };
                if !m.is_query() {
                    continue;
                }
                let Some(oi) = tx.out_if else { continue };
                let mut r = Message::response();
                for q in m.questions.iter() {
                    for (ip, ttl, owner) in addrs.iter() {
                        let on = wire::name(owner);
                        if !wire::names_eq_nocase(&q.name, &on) {
                            continue;
                        }
                        let rec = match ip {
                            IpAddr::V4(a) if q.qtype == wire::T_A || q.qtype == wire::T_ANY => Some(wire::a(&on, *ttl, a.octets())),
                            IpAddr::V6(a) if q.qtype == wire::T_AAAA || q.qtype == wire::T_ANY => Some(wire::aaaa(&on, *ttl, a.octets())),
                            _ => None,
                        };
                        if let Some(rec) = rec {
                            if !r.answers.contains(&rec) {
                                r.answers.push(rec);
                            }
                        }
                    }
                }
                if !r.answers.is_empty() {
                    out.push((oi, tx.v4, r));
                }
            }
        }
        *seen = n;
        let any = !out.is_empty();
        for (i, v4, r) in out {
            let src = if v4 {
                if i == 3 {
                    sock4([192, 168, 1, 60], 5353)
                } else {
                    scen::peer4(60)
                }
            } else {
                scen::peer6(0x60, i)
            };
            w.inject_msg(0, i, src, &r);
        }
        any
    };
    let mut last_stop = 0u64;
    for _ in 0..n_ops {
        t += match rng.below(5) {
            0 => 0,
            1 => rng.below(300),
            2 => 1000 - (t % 1000),
            _ => rng.below(6000),
        };
        {
            let mut cb = |w: &mut World| react(w, &mut seen_tx, &addrs, answer_queries);
            w.run_until_cb(t0 + t, &mut cb);
        }
        match rng.below(10) {
            0 | 1 => {
                let name = rng.pick(&variants).clone();
                let timeout = *rng.pick(&[None, None, None, Some(1u64), Some(999), Some(1000), Some(1500), Some(7000), Some(3_600_000), Some(1001), Some(1003), Some(3002), Some(0)]);
                if let Some(c) = w.resolve_hostname(h, &name, timeout) {
                    searches.push((c, name.clone(), w.now(), timeout));
                }
                desc.push_str(&format!(" @{t}:resolve({name},{timeout:?})"));
            }
            2 => {
                let name = rng.pick(&variants).clone();
                w.stop_resolve_hostname(h, &name);
                last_stop = w.now();
                desc.push_str(&format!(" @{t}:stop({name})"));
            }
            3..=6 => {
                // the responder (re-)announces addresses, owner spelled in some case
                let owner = rng.pick(&variants).clone();
                let ttl = *rng.pick(ttl_menu);
                let ifi = if topo >= 2 && rng.chance(1, 2) { 3 } else { 2 };
                let mut m = Message::response();
                let k = 1 + rng.usize(2);
                for _ in 0..k {
                    let v6 = (topo == 1 || topo == 3) && rng.chance(1, 2);
                    let ip: IpAddr = if v6 {
                        IpAddr::from([0xfe80, 0, 0, 0, 0, 0, 0, if ifi == 3 { 0x70 } else { 0x60 } + rng.below(3) as u16])
                    } else if ifi == 3 {
                        IpAddr::from([192, 168, 1, 60 + rng.below(3) as u8])
                    } else {
                        IpAddr::from([10, 0, 0, 60 + rng.below(3) as u8])
                    };
                    let on = wire::name(&owner);
                    let rec = match ip {
                        IpAddr::V4(a) => wire::a(&on, ttl, a.octets()),
                        IpAddr::V6(a) => wire::aaaa(&on, ttl, a.octets()),
                    };
                    // one TTL and one spelling per address record keeps "the" record unambiguous
                    if let Some(existing) = addrs.iter_mut().find(|(x, _, _)| *x == ip) {
                        let mut rec2 = rec.clone();
                        rec2.ttl = existing.1;
                        rec2.name = wire::name(&existing.2);
                        if !m.answers.contains(&rec2) {
                            m.answers.push(rec2);
                        }
                    } else {
                        addrs.push((ip, ttl, owner.clone()));
                        if !m.answers.contains(&rec) {
                            m.answers.push(rec);
                        }
                    }
                }
                if rng.chance(1, 4) {
                    m.additionals.push(wire::a(&wire::name(other), 120, [10, 0, 0, 99]));
                }
                // the way a host says it when it comes up: inside the announcement of a service of some type nobody browses
                // (PTR, SRV and TXT first, then its addresses)
                // (only while a search for the name is open: otherwise a packet whose PTR answers are all for types nobody
                // browses is somebody else's business and the daemon rightly keeps none of it)
                let now = w.now();
                // (a new search for the name replaces the one before: the latest one decides)
                let search_open = searches.iter().max_by_key(|(_, _, ts, _)| *ts).is_some_and(|(_, _, ts, to)| *ts > last_stop && *ts < now && to.is_none_or(|to| ts + to > now + 5));
                let in_service_announcement = search_open && rng.chance(1, 2);
                if in_service_announcement {
                    let sty = wire::name("_elsewhere._tcp.local");
                    let sinst = wire::name("thing._elsewhere._tcp.local");
                    let target = wire::name(&owner);
                    // the service's records before the addresses, behind them, or around them (the order inside a
                    // packet is the sender's business)
                    let (ptr, srv, txt) = (wire::ptr(&sty, 4500, &sinst), wire::srv(&sinst, 120, 9, &target), wire::txt(&sinst, 4500, vec![0]));
                    let mut addrs_now = std::mem::take(&mut m.answers);
                    m.answers = match util::mix(seed, 0xA0 + t) % 3 {
                        0 => {
                            let mut v = vec![ptr, srv, txt];
                            v.append(&mut addrs_now);
                            v
                        }
                        1 => {
                            let mut v = addrs_now;
                            v.extend([ptr, srv, txt]);
                            v
                        }
                        _ => {
                            let mut v = vec![srv, txt];
                            v.append(&mut addrs_now);
                            v.push(ptr);
                            v
                        }
                    };
                }
                let src = if ifi == 3 { sock4([192, 168, 1, 60], 5353) } else { scen::peer4(60) };
                w.inject_msg(h, ifi, src, &m);
                desc.push_str(&format!(" @{t}:addr({owner},ttl{ttl},if{ifi}{})", if in_service_announcement { ",in-service-announcement" } else { "" }));
            }
            7 => {
                // goodbye for one address
                if !addrs.is_empty() {
                    let i = rng.usize(addrs.len());
                    let (ip, _, owner) = addrs.remove(i);
                    let on = wire::name(&owner);
                    let mut m = Message::response();
                    m.answers.push(match ip {
                        IpAddr::V4(a) => wire::a(&on, 0, a.octets()),
                        IpAddr::V6(a) => wire::aaaa(&on, 0, a.octets()),
                    });
                    let ifi = if matches!(ip, IpAddr::V4(a) if a.octets()[0] == 192) || matches!(ip, IpAddr::V6(a) if a.octets()[15] >= 0x70) { 3 } else { 2 };
                    let src = if ifi == 3 { sock4([192, 168, 1, 60], 5353) } else { scen::peer4(60) };
                    w.inject_msg(h, ifi, src, &m);
                    desc.push_str(&format!(" @{t}:goodbye({ip})"));
                }
            }
            8 => {
                // the host forgets an address silently
                if !addrs.is_empty() {
                    let i = rng.usize(addrs.len());
                    addrs.remove(i);
                    desc.push_str(&format!(" @{t}:forget"));
                }
            }
            _ => {
                w.resolve_hostname(h, other, Some(500));
                desc.push_str(&format!(" @{t}:resolve(other)"));
            }
        }
    }
    // waking every 10 ms for minutes is expensive: eager runs watch 25 s, lazy ones past the longest TTL
    let horizon = t0 + t + if matches!(w.stepping, Stepping::Eager(_)) { 25_000 } else { 150_000 };
    let mut cb = |w: &mut World| react(w, &mut seen_tx, &addrs, answer_queries);
    w.run_until_cb(horizon, &mut cb);
    Made { world: w, horizon, desc, searches }
}

pub fn monitor(made: &Made, l: &mut Local) {
    let trace = &made.world.trace;
    let host = 0;
    let hist = Hist::build(trace, host, &[]);
    let sl = slack(made.world.stepping);
    let chans = crate::props::c13::channels(trace);
    for (chan, given, t_start, timeout) in made.searches.iter() {
        let host_name: Name = wire::name(given);
        let ci = chans.iter().find(|c| c.chan == *chan);
        // end of the search: API stop / replacement / observed stop
        let api_end = ci.and_then(|c| crate::props::c13::ended_by_api(trace, c)).map(|(t, _)| t);
        let obs: Vec<(u64, &Obs)> = trace.obs(*chan).map(|(e, o)| (e.t, o)).collect();
        let obs_stop = obs.iter().find(|(_, o)| matches!(o, Obs::HStopped(_))).map(|(t, _)| *t);
        let t_end = api_end.unwrap_or(u64::MAX).min(obs_stop.unwrap_or(u64::MAX)).min(made.horizon);
        let addr_lives: Vec<(&RecId, &Life)> = hist
            .lives_of(|id| (id.rtype == wire::T_A || id.rtype == wire::T_AAAA) && wire::names_eq_nocase(&id.name, &host_name))
            .collect();
        let wit = |at: u64| {
            json!({"scenario": made.desc, "search": given, "at_ms": at - EPOCH,
                   "address_lives": addr_lives.iter().map(|(id, l)| format!("{} {} if{:?} [{}, {})", wire::dotted(&id.name), ip_of(id).map(|i| i.to_string()).unwrap_or_default(), id.if_index, l.from - EPOCH, l.until - EPOCH)).collect::<Vec<_>>(),
                   "trace": scen::witness_window(trace, at.saturating_sub(2500), at + sl + 50, 50)})
        };
        // H1: every AddressesFound lists live records of that spelling, completely
        for (t, o) in obs.iter() {
            let Obs::AddrFound(name, set) = o else { continue };
            l.act("H1");
            let mut flat: Vec<(IpAddr, u32)> = Vec::new();
            for (ip, ifs) in set {
                for i in ifs {
                    flat.push((*ip, *i));
                }
                if ifs.is_empty() {
                    l.violate(Violation::new("H1", "H1/address-without-interface-tag", format!("AddressesFound({name}) lists {ip} without an interface")).with(wit(*t)));
                }
            }
            if !wire::names_eq_nocase(&wire::name(name), &host_name) {
                l.violate(Violation::new("H5", "H5/foreign-host-on-channel", format!("AddressesFound({name}) delivered to the search for {given}")).with(wit(*t)));
                continue;
            }
            let mut bad = None;
            for (ip, ifi) in flat.iter() {
                let ok = addr_lives.iter().any(|(id, life)| {
                    wire::dotted(&id.name) == *name && ip_of(id) == Some(*ip) && id.if_index == Some(*ifi) && life.from <= *t + sl && *t <= life.until + sl
                });
                if !ok {
                    let ever = addr_lives.iter().any(|(id, _)| ip_of(id) == Some(*ip));
                    bad = Some((*ip, if ever { "dead-or-differently-spelled-or-other-interface" } else { "never-received" }));
                    break;
                }
            }
            if let Some((ip, why)) = bad {
                l.violate(
                    Violation::new("H1", format!("H1/listed-address-not-live/{why}"), format!("AddressesFound({name}) lists {ip}, which no live record of that spelling and interface explains"))
                        .with(wit(*t)),
                );
                continue;
            }
            // completeness: every surely live record of this spelling is listed
            for (id, life) in addr_lives.iter() {
                if wire::dotted(&id.name) == *name && life.surely_live_at(*t, sl + 1) {
                    l.act("H1-complete");
                    let ip = ip_of(id).unwrap();
                    if !flat.contains(&(ip, id.if_index.unwrap_or(0))) {
                        l.violate(
                            Violation::new("H1", "H1/live-address-missing", format!("AddressesFound({name}) does not list the live address {ip} (interface {:?})", id.if_index))
                                .with(wit(*t)),
                        );
                        break;
                    }
                }
            }
        }
        // H1 (trigger): a newly learned address is reported at once, under its spelling
        for (id, life) in addr_lives.iter() {
            // lives that begin while the search is open (strictly inside, away from start/stop)
            if life.from <= *t_start || life.from + sl + 1 >= t_end || life.ttl <= 1 {
                continue;
            }
            // (a copy received at the very instant the previous one ran out, or within the stepping slack of it:
            // a daemon that reads the packet before it looks at its expiries never lost the address and has
            // nothing new to report)
            if addr_lives.iter().any(|(oid, other)| *oid == *id && other.until <= life.from && life.from <= other.until + sl) {
                continue;
            }
            l.act("H1-trigger");
            let ip = ip_of(id).unwrap();
            let spelled = wire::dotted(&id.name);
            let ok = obs.iter().any(|(t, o)| {
                *t >= life.from
                    && *t <= life.from + sl
                    && matches!(o, Obs::AddrFound(n, set) if *n == spelled && set.iter().any(|(i, ifs)| *i == ip && ifs.contains(&id.if_index.unwrap_or(0))))
            });
            if !ok {
                l.violate(
                    Violation::new(
                        "H1",
                        format!("H1/new-address-not-reported/{}", if spelled == *given { "same-case" } else { "case-differs" }),
                        format!("address {ip} for {spelled} arrived at +{} ms while {given} was being resolved, but no AddressesFound reported it", life.from - EPOCH),
                    )
                    .with(wit(life.from)),
                );
                break;
            }
        }
        // H2: AddressesRemoved names exactly what ended, when it ended
        for (t, o) in obs.iter() {
            let Obs::AddrRemoved(name, set) = o else { continue };
            for (ip, ifs) in set {
                l.act("H2");
                let ok = addr_lives.iter().any(|(id, life)| {
                    wire::dotted(&id.name) == *name
                        && ip_of(id) == Some(*ip)
                        && ifs.contains(&id.if_index.unwrap_or(0))
                        && life.until <= *t + 1
                        && *t <= life.until + sl
                });
                if !ok {
                    l.violate(
                        Violation::new("H2", "H2/removed-address-did-not-end", format!("AddressesRemoved({name}) lists {ip} at +{} ms, but no record of it ended then", t - EPOCH))
                            .with(wit(*t)),
                    );
                    break;
                }
            }
        }
        for (id, life) in addr_lives.iter() {
            if life.until <= *t_start + sl + 1 || life.until + sl + 1 >= t_end || life.from + 1 > life.until {
                continue;
            }
            // received again at the very instant it ran out: whether the daemon saw it end or saw it refreshed is the
            // order of two things at one instant
            // (or, on a daemon that is woken late, within that lateness after it)
            if addr_lives.iter().any(|(oid, other)| *oid == *id && other.from >= life.until && other.from <= life.until + sl) {
                continue;
            }
            // the record must have been known to this search (received or cached while it was open)
            l.act("H2-complete");
            let ip = ip_of(id).unwrap();
            let spelled = wire::dotted(&id.name);
            let ok = obs.iter().any(|(t, o)| {
                *t >= life.until && *t <= life.until + sl && matches!(o, Obs::AddrRemoved(n, set) if *n == spelled && set.iter().any(|(i, _)| *i == ip))
            });
            if !ok {
                l.violate(
                    Violation::new("H2", "H2/expiry-not-reported", format!("address {ip} of {spelled} ended at +{} ms while the search was open, but AddressesRemoved did not report it", life.until - EPOCH))
                        .with(wit(life.until)),
                );
                break;
            }
        }
        // H3: A and AAAA asked together at the start
        let txs = scen::tx_msgs(trace, host);
        l.act("H3");
        let started = txs.iter().any(|tx| {
            tx.t == *t_start && tx.msg.is_query() && scen::has_question(tx.msg, &host_name, wire::T_A) && scen::has_question(tx.msg, &host_name, wire::T_AAAA)
        });
        if !started && *t_start + 5 < made.horizon {
            l.violate(Violation::new("H3", "H3/no-initial-A-and-AAAA-query", format!("resolve_hostname({given}) did not send A and AAAA questions at once")).with(wit(*t_start)));
        }
        // H3: one refresh query per address record at 80 % of its life while the search is open
        for (id, life) in addr_lives.iter() {
            if life.ttl <= 1 {
                continue;
            }
            for (k, (t_rx, ttl)) in life.receptions.iter().enumerate() {
                let mark = t_rx + crate::model::effective_ttl(*ttl) * 800;
                let next_rx = life.receptions.get(k + 1).map(|(t, _)| *t).unwrap_or(u64::MAX);
                // the copy must still be the current one at the mark, the search open around it
                if mark + sl + 1 >= next_rx.min(life.until) || mark <= *t_start + sl || mark + sl + 1 >= t_end || *ttl <= 1 {
                    continue;
                }
                l.act("H3-refresh");
                let qt = if id.rtype == wire::T_A { wire::T_A } else { wire::T_AAAA };
                let ok = txs.iter().any(|tx| tx.t >= mark && tx.t <= mark + sl && tx.msg.is_query() && scen::has_question(tx.msg, &host_name, qt));
                if !ok {
                    l.violate(
                        Violation::new("H3", "H3/no-refresh-at-80-percent", format!("no {} query for {given} at 80 % of the life of {} (+{} ms)", if qt == wire::T_A { "A" } else { "AAAA" }, ip_of(id).unwrap(), mark - EPOCH))
                            .with(wit(mark)),
                    );
                    break;
                }
            }
        }
        // H4: timeout
        if let Some(tau) = timeout {
            let deadline = t_start + tau;
            if api_end.is_none_or(|t| t > deadline + sl + 1) && deadline + sl + 5 < made.horizon {
                l.act("H4");
                let to = obs.iter().find(|(_, o)| matches!(o, Obs::HTimeout(_))).map(|(t, _)| *t);
                let st = obs_stop;
                let ok = to.is_some_and(|t| t >= deadline && t <= deadline + sl) && st.is_some_and(|t| t >= deadline && t <= deadline + sl);
                if !ok {
                    let early = to.is_some_and(|t| t < deadline) || st.is_some_and(|t| t < deadline);
                    l.violate(
                        Violation::new(
                            "H4",
                            format!("H4/timeout-not-at-deadline/{}/{}", if early { "early" } else { "late-or-never" }, if given.chars().any(|c| c.is_ascii_uppercase()) { "mixed-case" } else { "lower-case" }),
                            format!("resolve_hostname({given}, {tau} ms): SearchTimeout at {:?}, SearchStopped at {:?}, deadline +{} ms", to.map(|t| t - EPOCH), st.map(|t| t - EPOCH), deadline - EPOCH),
                        )
                        .with(wit(deadline)),
                    );
                }
            }
        }
        // H5: "and asks no more": once the search has ended (timeout, stop or shutdown) no A/AAAA question for the
        // name leaves any more and nothing further arrives on its channel - until a new search for the name starts
        if t_end < made.horizon {
            let lname = given.to_lowercase();
            let next_same = made.searches.iter().filter(|(c, g, ts, _)| *c != *chan && g.to_lowercase() == lname && *ts >= t_end).map(|(_, _, ts, _)| *ts).min().unwrap_or(made.horizon);
            let overlapping = made.searches.iter().any(|(c, g, ts, _)| *c != *chan && g.to_lowercase() == lname && *ts < t_end);
            if !overlapping && t_end + sl + 1 < next_same {
                l.act("H5");
                let name = scen::wire_name(given);
                let how = if api_end.is_some_and(|t| t <= t_end) { "stop" } else { "timeout" };
                let case = if given.chars().any(|c| c.is_ascii_uppercase()) { "mixed-case" } else { "lower-case" };
                if let Some(tx) = txs.iter().find(|tx| tx.t > t_end + sl && tx.t < next_same && tx.msg.is_query() && tx.msg.questions.iter().any(|q| (q.qtype == wire::T_A || q.qtype == wire::T_AAAA) && wire::names_eq_nocase(&q.name, &name))) {
                    l.violate(
                        Violation::new("H5", format!("H5/query-after-the-search-ended/{how}/{case}"), format!("resolve_hostname({given}) ended at +{} ms ({how}); an address question for it still left {} ms later", t_end - EPOCH, tx.t - t_end))
                            .with(wit(tx.t)),
                    );
                } else if let Some((t, o)) = obs.iter().find(|(t, o)| *t > t_end + sl && !matches!(o, Obs::Closed)) {
                    l.violate(
                        Violation::new("H5", format!("H5/event-after-the-search-ended/{how}/{case}"), format!("resolve_hostname({given}) ended at +{} ms ({how}); its channel still received {:?} {} ms later", t_end - EPOCH, o, t - t_end))
                            .with(wit(*t)),
                    );
                }
            }
        }
    }
}

pub fn run_one(seed: u64, l: &mut Local) {
    // (a sixth of the histories on a daemon that is woken up to 2 or 40 ms late, as on a loaded machine: every
    // rule allows for the lateness the stepping brings)
    let late = if seed % 6 == 5 { Some(Stepping::Oversleep([2u64, 40][(seed / 6 % 2) as usize])) } else { None };
    let made = scenario(seed, late);
    l.evaluations += 1;
    let w = &made.world;
    l.count("daemon_iterations", w.total_iterations);
    l.count("virtual_s", (made.horizon - w.trace.entries[0].t) / 1000);
    l.count("hostname_events", w.trace.entries.iter().filter(|e| matches!(&e.ev, Ev::Obs { obs: Obs::AddrFound(..) | Obs::AddrRemoved(..), .. })).count() as u64);
    if w.trace.deaths().any(|d| matches!(d.ev, Ev::Death { panicked: true, .. })) {
        l.inconclusive.push(format!("daemon died in a C17 scenario (seed {seed})"));
        return;
    }
    let kinds: Vec<&str> = made.desc.split(':').skip(1).map(|s| s.split('(').next().unwrap_or("")).collect();
    l.distinct.insert(util::fnv_str(&format!("{:?}|{kinds:?}|{}", w.stepping, made.desc.contains("topo=2"))));
    if l.samples.len() < 2 {
        l.samples.push(json!({"scenario": made.desc}));
    }
    monitor(&made, l);
}

pub fn run(report: &Report, tier: &Tier) {
    report.set_rule(
        "hostname histories: resolve_hostname / stop with the name in lower, upper and mixed case, timeouts {none, 0, 1, 999, 1000, 1001, 1003, 1500, 3002, 7000 ms, 1 h}, \
         a responder that announces 1..2 addresses at a time (IPv4/IPv6, three per family, owner spelled in any case, TTLs {1,2,10,120} s, \
         on one of up to two interfaces), withdraws them by goodbye, forgets them, answers the daemon's queries or not, foreign records mixed in; \
         observed 150 s past the last call; lazy and eager stepping; distinct by (stepping, operation kinds, topology)",
    );
    report.assume("each address record keeps one owner spelling and one TTL; late wake-ups (oversleep) are C11's quantifier, not C17's");
    for r in ["H1", "H1-complete", "H1-trigger", "H2", "H2-complete", "H3", "H3-refresh", "H4", "H5"] {
        report.floor(r, 30);
    }
    let seed = report.seed;
    let n: u64 = if tier.thorough { 250_000 } else { 5_000 };
    run_parallel(report, n, threads(), tier.budget_s, |i, l| {
        run_one(util::mix(seed, 0xC17_0000 + i), l);
    });
}
