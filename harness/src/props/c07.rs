//! C07 — a name is probed three times before it is announced, then announced twice.

use crate::report::{run_parallel, threads, Local, Report, Violation};
use crate::scen::{self, TxM};
use crate::util::{self, Rng};
use crate::wire::{self, Name, RData};
use crate::world::*;
use crate::Tier;
use serde_json::json;
use std::collections::HashSet;
use std::net::IpAddr;

/// A registration as the monitor sees it.
struct Reg<'a> {
    t: u64,
    host: usize,
    info: &'a RegInfo,
}

fn registrations(trace: &Trace) -> Vec<Reg<'_>> {
    trace
        .entries
        .iter()
        .filter_map(|e| match &e.ev {
            Ev::Api {
                call: ApiCall::Register(info),
                result: ApiResult::Ok,
                ..
            } => Some(Reg {
                t: e.t,
                host: e.host,
                info,
            }),
            _ => None,
        })
        .collect()
}

fn step_slack(stepping: Stepping) -> u64 {
    match stepping {
        Stepping::Lazy => 0,
        Stepping::Eager(g) => g,
        Stepping::Oversleep(m) => m,
    }
}

/// Addresses of the service that lie in a subnet of interface `i`, for one family.
fn usable_addrs(addrs: &[IpAddr], i: &IfSpec, v4: bool) -> Vec<IpAddr> {
    addrs
        .iter()
        .filter(|a| a.is_ipv4() == v4 && i.up && !i.p2p && i.in_subnet(a))
        .copied()
        .collect()
}

/// An unsolicited response carrying the service's PTR as an answer. In an iteration
/// that consumed a query, a PTR answer whose SRV travels as an additional is the reply
/// to that query, not an announcement.
fn is_announcement(tx: &TxM, ty: &Name, inst: &Name, query_iters: &HashSet<u64>) -> bool {
    if !(tx.msg.is_response() && tx.multicast && scen::answers_ptr(tx.msg, ty, inst)) {
        return false;
    }
    if query_iters.contains(&tx.iter) {
        return tx
            .msg
            .answers
            .iter()
            .any(|r| r.rtype == wire::T_SRV && wire::names_eq_nocase(&r.name, inst));
    }
    true
}

pub fn monitor(trace: &Trace, stepping: Stepping, horizon: u64, l: &mut Local) {
    let g = step_slack(stepping);
    let regs = registrations(trace);
    for (ri, reg) in regs.iter().enumerate() {
        let info = reg.info;
        // a later registration of the same name changes the obligations: not C07's workload
        if regs
            .iter()
            .enumerate()
            .any(|(k, r)| k != ri && r.host == reg.host && r.info.fullname.eq_ignore_ascii_case(&info.fullname))
        {
            continue;
        }
        let txs = scen::tx_msgs(trace, reg.host);
        let qi = scen::query_iters(trace, reg.host);
        let inst = scen::wire_name(&info.fullname);
        let ty = scen::wire_name(&info.ty_only);
        let host_name = scen::wire_name(&info.host);
        let sub = info.subtype.as_ref().map(|s| scen::wire_name(s));
        let ifs = trace.ifs_at(reg.host, reg.t);
        let service_addrs: Vec<IpAddr> = if info.addr_auto {
            let mut v = info.addrs.clone();
            for i in ifs.iter().filter(|i| i.up && !i.p2p) {
                v.extend(i.addrs.iter().map(|(a, _)| *a));
            }
            v
        } else {
            info.addrs.clone()
        };
        let case = info.fullname.chars().any(|c| c.is_ascii_uppercase());
        let wit = |from: u64, to: u64| {
            json!({"registration": format!("{:?}", info), "stepping": format!("{stepping:?}"),
                   "api": scen::api_log(trace), "trace": scen::witness_window(trace, from, to, 60)})
        };
        for i in ifs.iter() {
            for v4 in [true, false] {
                let addrs = usable_addrs(&service_addrs, i, v4);
                if addrs.is_empty() || !i.has_family(v4) {
                    continue;
                }
                // observations on this interface
                let anns: Vec<&TxM> = txs
                    .iter()
                    .filter(|tx| tx.out_if == Some(i.index) && tx.v4 == v4 && tx.t >= reg.t && is_announcement(tx, &ty, &inst, &qi))
                    .collect();
                let first_ann = anns.first().map(|a| a.t);
                let mut probe_times: Vec<u64> = txs
                    .iter()
                    .filter(|tx| {
                        tx.out_if == Some(i.index)
                            && tx.t >= reg.t
                            && first_ann.is_none_or(|fa| tx.t < fa)
                            && tx.msg.is_query()
                            && scen::has_question(tx.msg, &inst, wire::T_ANY)
                    })
                    .map(|tx| tx.t)
                    .collect();
                probe_times.dedup();
                let bound = reg.t + if info.requires_probe { 1000 } else { 0 } + g + 2;
                if horizon < bound + 1100 {
                    continue; // the run ended before the obligations were due
                }

                // P6
                l.act("P6");
                match first_ann {
                    None => {
                        l.violate(
                            Violation::new(
                                "P6",
                                format!("P6/never-announced/{}", if info.requires_probe { "probing" } else { "no-probe" }),
                                format!(
                                    "service {} was not announced on {} ({}) within {} ms of registration",
                                    info.fullname,
                                    i.name,
                                    if v4 { "IPv4" } else { "IPv6" },
                                    horizon - reg.t
                                ),
                            )
                            .with(wit(reg.t, reg.t + 3000)),
                        );
                        continue;
                    }
                    Some(fa) if fa > bound => {
                        l.violate(
                            Violation::new(
                                "P6",
                                "P6/announced-late",
                                format!(
                                    "service {} announced on {} {} ms after registration (bound {} ms)",
                                    info.fullname,
                                    i.name,
                                    fa - reg.t,
                                    bound - reg.t
                                ),
                            )
                            .with(wit(reg.t, fa + 10)),
                        );
                    }
                    _ => {}
                }
                let fa = first_ann.unwrap();

                if info.requires_probe {
                    // P1
                    l.act("P1");
                    if probe_times.len() < 3 {
                        l.violate(
                            Violation::new(
                                "P1",
                                "P1/fewer-than-three-probes",
                                format!(
                                    "service {} announced on {} after {} probe(s) for its instance name",
                                    info.fullname,
                                    i.name,
                                    probe_times.len()
                                ),
                            )
                            .with(wit(reg.t, fa + 10)),
                        );
                    }
                    // authority section of each probe: proposed SRV and TXT
                    for tx in txs.iter().filter(|tx| {
                        tx.out_if == Some(i.index)
                            && tx.t >= reg.t
                            && tx.t < fa
                            && tx.msg.is_query()
                            && scen::has_question(tx.msg, &inst, wire::T_ANY)
                    }) {
                        l.act("P1-authority");
                        let has_srv = tx.msg.authorities.iter().any(|r| {
                            r.rtype == wire::T_SRV
                                && wire::names_eq_nocase(&r.name, &inst)
                                && matches!(&r.rdata, RData::Srv { port, target, .. } if *port == info.port && wire::names_eq_nocase(target, &host_name))
                        });
                        let has_txt = tx
                            .msg
                            .authorities
                            .iter()
                            .any(|r| r.rtype == wire::T_TXT && wire::names_eq_nocase(&r.name, &inst));
                        if !has_srv || !has_txt {
                            l.violate(
                                Violation::new(
                                    "P1",
                                    format!("P1/probe-without-proposed-records/{}", if !has_srv { "srv" } else { "txt" }),
                                    format!("a probe for {} does not carry the proposed SRV/TXT in its authority section", info.fullname),
                                )
                                .with(wit(reg.t, tx.t + 1)),
                            );
                            break;
                        }
                        if scen::has_question(tx.msg, &host_name, wire::T_ANY) {
                            l.act("P1-host-authority");
                            let has_addr = tx.msg.authorities.iter().any(|r| {
                                (r.rtype == wire::T_A || r.rtype == wire::T_AAAA) && wire::names_eq_nocase(&r.name, &host_name)
                            });
                            if !has_addr {
                                l.violate(
                                    Violation::new(
                                        "P1",
                                        "P1/host-probe-without-address",
                                        format!("a probe for host {} carries no address record in its authority section", info.host),
                                    )
                                    .with(wit(reg.t, tx.t + 1)),
                                );
                                break;
                            }
                        }
                    }
                    // P2
                    for w in probe_times.windows(2) {
                        l.act("P2");
                        let d = w[1] - w[0];
                        if d < 250 || d > 250 + g {
                            l.violate(
                                Violation::new(
                                    "P2",
                                    if d < 250 { "P2/probes-too-close" } else { "P2/probes-too-far-apart" },
                                    format!("consecutive probes for {} on {} are {} ms apart", info.fullname, i.name, d),
                                )
                                .with(wit(reg.t, fa + 10)),
                            );
                            break;
                        }
                    }
                    // P3
                    if let (Some(first), Some(last)) = (probe_times.first(), probe_times.last()) {
                        l.act("P3");
                        if fa < last + 250 || fa < first + 750 {
                            l.violate(
                                Violation::new(
                                    "P3",
                                    "P3/announced-too-early",
                                    format!(
                                        "{} announced on {} {} ms after its first and {} ms after its last probe",
                                        info.fullname,
                                        i.name,
                                        fa - first,
                                        fa - last
                                    ),
                                )
                                .with(wit(reg.t, fa + 10)),
                            );
                        }
                    }
                    // host name probes: only for the first service of this daemon using the host name
                    let first_user = !regs.iter().any(|r| {
                        r.host == reg.host && r.t <= reg.t && !std::ptr::eq(r.info, info) && r.info.host.eq_ignore_ascii_case(&info.host)
                    });
                    if first_user {
                        l.act("P1-host");
                        let mut host_probes: Vec<u64> = txs
                            .iter()
                            .filter(|tx| {
                                tx.out_if == Some(i.index)
                                    && tx.t >= reg.t
                                    && tx.t < fa
                                    && tx.msg.is_query()
                                    && scen::has_question(tx.msg, &host_name, wire::T_ANY)
                            })
                            .map(|tx| tx.t)
                            .collect();
                        host_probes.dedup();
                        if host_probes.len() < 3 {
                            l.violate(
                                Violation::new(
                                    "P1",
                                    "P1/fewer-than-three-host-probes",
                                    format!("host name {} was probed {} time(s) on {} before the announcement", info.host, host_probes.len(), i.name),
                                )
                                .with(wit(reg.t, fa + 10)),
                            );
                        }
                    }
                }

                // P4: nothing about the service in any response on this interface before the announcement
                l.act("P4");
                for tx in txs.iter().filter(|tx| tx.out_if == Some(i.index) && tx.t >= reg.t && tx.t < fa && tx.msg.is_response()) {
                    let mentions = tx.msg.records().any(|r| {
                        wire::names_eq_nocase(&r.name, &inst)
                            || matches!(&r.rdata, RData::Ptr(t) if wire::names_eq_nocase(t, &inst))
                    });
                    if mentions {
                        l.violate(
                            Violation::new(
                                "P4",
                                "P4/answered-before-announced",
                                format!("records of {} were sent on {} {} ms before its first announcement", info.fullname, i.name, fa - tx.t),
                            )
                            .with(wit(reg.t, fa + 10)),
                        );
                        break;
                    }
                }

                // P5
                if horizon >= fa + 1000 + g + 50 {
                    l.act("P5");
                    if anns.len() < 2 {
                        l.violate(
                            Violation::new(
                                "P5",
                                format!("P5/announced-once/{}", if case { "name-with-upper-case" } else { "lower-case-name" }),
                                format!("service {} was announced only once on {} ({})", info.fullname, i.name, if v4 { "IPv4" } else { "IPv6" }),
                            )
                            .with(wit(reg.t, fa + 1200)),
                        );
                    } else {
                        let d = anns[1].t - anns[0].t;
                        if d < 1000 || d > 1000 + g {
                            l.violate(
                                Violation::new(
                                    "P5",
                                    "P5/repeat-spacing",
                                    format!("the two announcements of {} on {} are {} ms apart", info.fullname, i.name, d),
                                )
                                .with(wit(reg.t, anns[1].t + 10)),
                            );
                        }
                    }
                    for a in anns.iter().take(2) {
                        l.act("P5-content");
                        let m = a.msg;
                        let has_sub = sub.as_ref().is_none_or(|s| scen::answers_ptr(m, s, &inst));
                        let has_srv = m.answers.iter().any(|r| r.rtype == wire::T_SRV && wire::names_eq_nocase(&r.name, &inst));
                        let has_txt = m.answers.iter().any(|r| r.rtype == wire::T_TXT && wire::names_eq_nocase(&r.name, &inst));
                        let missing_addr = addrs.iter().find(|ip| {
                            !m.answers.iter().any(|r| match (&r.rdata, ip) {
                                (RData::A(a), IpAddr::V4(ip)) => ip.octets() == *a,
                                (RData::Aaaa(a), IpAddr::V6(ip)) => ip.octets() == *a,
                                _ => false,
                            } && wire::names_eq_nocase(&r.name, &host_name))
                        });
                        let what = if !has_sub {
                            Some("subtype-ptr")
                        } else if !has_srv {
                            Some("srv")
                        } else if !has_txt {
                            Some("txt")
                        } else if missing_addr.is_some() {
                            Some("address")
                        } else {
                            None
                        };
                        if let Some(what) = what {
                            l.violate(
                                Violation::new(
                                    "P5",
                                    format!("P5/announcement-incomplete/{what}"),
                                    format!("an announcement of {} on {} lacks its {what} record in the answer section", info.fullname, i.name),
                                )
                                .with(wit(reg.t, a.t + 1)),
                            );
                            break;
                        }
                    }
                }
            }
        }
    }
}

// ---------------------------------------------------------------------------
// Workload

pub struct Made {
    pub world: World,
    pub horizon: u64,
    pub desc: String,
}

fn in_subnet_addr(rng: &mut Rng, i: &IfSpec, v4: bool) -> Option<IpAddr> {
    let (base, _) = i.addrs.iter().find(|(a, _)| a.is_ipv4() == v4)?;
    Some(match base {
        IpAddr::V4(a) => {
            let o = a.octets();
            if rng.chance(1, 2) {
                IpAddr::V4(*a)
            } else {
                IpAddr::from([o[0], o[1], o[2], 20 + rng.below(200) as u8])
            }
        }
        IpAddr::V6(a) => {
            let mut s = a.segments();
            if rng.chance(1, 2) {
                s[7] = 0x100 + rng.below(200) as u16;
            }
            IpAddr::V6(std::net::Ipv6Addr::from(s))
        }
    })
}

pub fn scenario(seed: u64, upper_case: bool) -> Made {
    let mut rng = Rng::new(seed);
    let mut w = World::new(seed);
    let s = match rng.below(4) {
        0 => Stepping::Eager(10),
        1 => Stepping::Eager(50),
        _ => Stepping::Lazy,
    };
    w.set_stepping(s);
    let ifs = match rng.below(6) {
        0 => scen::single_v4(),
        1 => scen::single_dual(),
        2 => scen::two_v4(),
        3 => scen::three_mixed(),
        4 => scen::single_v6(),
        _ => scen::random_topology(&mut rng),
    };
    let forced: Vec<u64> = if rng.chance(1, 2) {
        (0..8).map(|_| *rng.pick(&[0u64, 1, 124, 125, 248, 249])).collect()
    } else {
        Vec::new()
    };
    let h = w.add_host_with(ifs.clone(), |g| g.jitter = forced.iter().copied().collect());
    let _mon = w.monitor(h);
    let n_services = 1 + rng.usize(4);
    let shared_host = rng.chance(1, 2);
    let late_if = rng.chance(1, 6);
    let fams: Vec<String> = ifs
        .iter()
        .map(|i| format!("{}{}", if i.has_family(true) { "4" } else { "" }, if i.has_family(false) { "6" } else { "" }))
        .collect();
    let mut desc = format!(
        "{:?} ifs={} services={n_services} shared_host={shared_host} forced_jitter={:?} late_if={late_if}",
        w.stepping,
        fams.join("/"),
        forced.first()
    );
    let t0 = w.now();
    let mut regs: Vec<(u64, RegInfo)> = Vec::new();
    // services sharing a host name advertise the same addresses (anything else makes the
    // daemon's own announcements look like conflicts to its probes: noted in DESIGN §12)
    let mut host_addrs: std::collections::HashMap<String, (Vec<IpAddr>, bool)> = std::collections::HashMap::new();
    for s in 0..n_services {
        let ty = if rng.chance(1, 4) { "_print._sub._t._udp.local." } else { "_t._udp.local." };
        let mut inst = format!("svc{s}-{}", rng.below(1000));
        if upper_case && rng.chance(1, 2) {
            inst = format!("Svc{s}-{}", rng.below(1000));
        }
        if rng.chance(1, 8) {
            inst = format!("dotted.name {s}");
        }
        if upper_case && rng.chance(1, 4) {
            // a capital letter outside ASCII, as users type them
            inst = format!("\u{c9}cole {s} \u{d6}st");
        }
        let host = if shared_host { "box.local.".to_string() } else { format!("box{s}.local.") };
        let host = if upper_case && rng.chance(1, 3) { host.replace("box", "Box") } else { host };
        let mut addrs: Vec<IpAddr> = Vec::new();
        for i in ifs.iter() {
            for v4 in [true, false] {
                if rng.chance(3, 4) {
                    if let Some(a) = in_subnet_addr(&mut rng, i, v4) {
                        addrs.push(a);
                    }
                }
            }
        }
        let mut auto = rng.chance(1, 5);
        if addrs.is_empty() && !auto {
            if let Some(a) = in_subnet_addr(&mut rng, &ifs[0], ifs[0].has_family(true)) {
                addrs.push(a);
            }
        }
        if rng.chance(1, 8) {
            addrs.push("172.16.9.9".parse().unwrap()); // an address on no local subnet
        }
        if auto {
            addrs.clear();
        }
        let entry = host_addrs.entry(host.to_lowercase()).or_insert((addrs.clone(), auto));
        addrs = entry.0.clone();
        auto = entry.1;
        let mut reg = World::reg_info(ty, &inst, &host, &addrs, 1000 + s as u16, &[("k", Some(b"v")), ("flag", None)]);
        reg.addr_auto = auto;
        reg.requires_probe = !rng.chance(1, 8);
        let at = if rng.chance(1, 2) { 0 } else { rng.below(1001) };
        regs.push((at, reg));
    }
    regs.sort_by_key(|(at, _)| *at);
    // queries from a peer while probing (must not be answered)
    let mut query_times: Vec<u64> = (0..rng.usize(5)).map(|_| rng.below(1500)).collect();
    query_times.sort_unstable();
    let mut events: Vec<(u64, usize)> = regs.iter().enumerate().map(|(i, (at, _))| (*at, i)).collect();
    events.extend(query_times.iter().map(|t| (*t, usize::MAX)));
    events.sort();
    for (at, what) in events {
        w.run_until(t0 + at);
        if what == usize::MAX {
            let i = rng.pick(&ifs).clone();
            let mut q = wire::Message::query();
            let (_, reg) = rng.pick(&regs).clone();
            match rng.below(4) {
                0 => q.questions.push(wire::question(&scen::wire_name(&reg.ty_only), wire::T_PTR)),
                1 => q.questions.push(wire::question(&scen::wire_name(&format!("{}.{}", reg.instance.replace('.', "\\."), reg.ty_only)), wire::T_SRV)),
                2 => q.questions.push(wire::question(&scen::wire_name(&reg.host), wire::T_A)),
                _ => q.questions.push(wire::question(&wire::name("_services._dns-sd._udp.local"), wire::T_PTR)),
            }
            let src = if i.has_family(true) {
                let o = match i.v4().unwrap() {
                    a => a.octets(),
                };
                sock4([o[0], o[1], o[2], 99], 5353)
            } else {
                sock6(std::net::Ipv6Addr::new(0xfe80, 0, 0, 0, 0, 0, 0, 0x99), 5353, i.index)
            };
            w.inject_msg(h, i.index, src, &q);
        } else {
            let reg = regs[what].1.clone();
            w.register(h, reg);
        }
    }
    let mut horizon = t0 + 4000;
    if late_if {
        // an interface that shows up later: addr_auto services must follow
        w.run_until(t0 + 2500);
        let mut ifs2 = ifs.clone();
        ifs2.push(IfSpec::new("usb0", 9, 3, &[("172.20.0.5", 24)]));
        w.set_ifs(h, ifs2, "usb0 appears");
        horizon = t0 + 9000;
        desc.push_str(" +usb0@2500");
    }
    w.run_until(horizon);
    desc.push_str(&format!(
        " probing={} auto={} subtypes={}",
        regs.iter().filter(|(_, r)| r.requires_probe).count(),
        regs.iter().filter(|(_, r)| r.addr_auto).count(),
        regs.iter().filter(|(_, r)| r.subtype.is_some()).count()
    ));
    Made {
        world: w,
        horizon,
        desc,
    }
}

/// Obligations for `addr_auto` services on an interface that appears later.
fn monitor_late_interface(trace: &Trace, stepping: Stepping, horizon: u64, l: &mut Local) {
    let g = step_slack(stepping);
    // the IpAdd event marks the interface check that found the interface
    let adds: Vec<(u64, usize, IpAddr)> = trace
        .entries
        .iter()
        .filter_map(|e| match &e.ev {
            Ev::Obs { obs: Obs::IpAdd(ip), .. } => Some((e.t, e.host, *ip)),
            _ => None,
        })
        .collect();
    for (t_add, host, ip) in adds {
        let ifs = trace.ifs_at(host, t_add);
        let Some(i) = ifs.iter().find(|i| i.addrs.iter().any(|(a, _)| *a == ip)) else {
            continue;
        };
        if trace.ifs_at(host, 0).iter().any(|x| x.index == i.index) {
            continue;
        }
        let txs = scen::tx_msgs(trace, host);
        let qi = scen::query_iters(trace, host);
        for reg in registrations(trace).iter().filter(|r| r.host == host && r.t < t_add && r.info.addr_auto) {
            if horizon < t_add + 2200 + g {
                continue;
            }
            l.act("P6-late-interface");
            let inst = scen::wire_name(&reg.info.fullname);
            let ty = scen::wire_name(&reg.info.ty_only);
            let anns: Vec<&TxM> = txs
                .iter()
                .filter(|tx| tx.out_if == Some(i.index) && tx.t >= t_add && is_announcement(tx, &ty, &inst, &qi))
                .collect();
            let probes: Vec<u64> = {
                let mut v: Vec<u64> = txs
                    .iter()
                    .filter(|tx| {
                        tx.out_if == Some(i.index)
                            && tx.t >= t_add
                            && tx.msg.is_query()
                            && scen::has_question(tx.msg, &inst, wire::T_ANY)
                            && anns.first().is_none_or(|a| tx.t < a.t)
                    })
                    .map(|tx| tx.t)
                    .collect();
                v.dedup();
                v
            };
            let wit = json!({"registration": format!("{:?}", reg.info), "interface": i.name, "api": scen::api_log(trace),
                              "trace": scen::witness_window(trace, t_add, t_add + 2500, 60)});
            match anns.first() {
                None => l.violate(
                    Violation::new("P6", "P6/late-interface/never-announced", format!("addr_auto service {} was not announced on {} that appeared later", reg.info.fullname, i.name))
                        .with(wit),
                ),
                Some(a) => {
                    if a.t > t_add + 1000 + g + 2 {
                        l.violate(
                            Violation::new("P6", "P6/late-interface/announced-late", format!("{} announced on late interface after {} ms", reg.info.fullname, a.t - t_add))
                                .with(wit.clone()),
                        );
                    }
                    if reg.info.requires_probe && probes.len() < 3 {
                        l.violate(
                            Violation::new("P1", "P1/late-interface/fewer-than-three-probes", format!("{} announced on late interface {} after {} probe(s)", reg.info.fullname, i.name, probes.len()))
                                .with(wit),
                        );
                    }
                }
            }
        }
    }
}

pub fn run_one(seed: u64, l: &mut Local, upper_case: bool) {
    let made = scenario(seed, upper_case);
    l.evaluations += 1;
    let w = &made.world;
    l.count("daemon_iterations", w.total_iterations);
    l.count("virtual_ms", made.horizon - w.trace.entries.first().map(|e| e.t).unwrap_or(made.horizon));
    l.count("tx_parsed", scen::tx_msgs(&w.trace, 0).len() as u64);
    l.count("tx_unparseable", scen::unparseable_tx(&w.trace) as u64);
    if w.trace.deaths().next().is_some() {
        l.inconclusive.push(format!("daemon died in a C07 scenario (seed {seed})"));
        return;
    }
    l.distinct.insert(util::fnv_str(&made.desc));
    if l.samples.len() < 2 {
        l.samples.push(json!({"scenario": made.desc, "api": scen::api_log(&w.trace), "trace_head": w.trace.render(0, 25)}));
    }
    monitor(&w.trace, w.stepping, made.horizon, l);
    monitor_late_interface(&w.trace, w.stepping, made.horizon, l);
}

/// P5/P6 for a service that conflict resolution renamed while it was probing (the scenarios
/// of C08 part R): under whatever names it ends up with, it reaches the announced state and
/// is announced at least twice, one second apart, with the same records.
pub fn renamed_case(seed: u64, l: &mut Local) {
    let made = crate::props::c08::scenario_r(seed);
    l.evaluations += 1;
    let trace = &made.world.trace;
    if trace.deaths().any(|d| matches!(d.ev, Ev::Death { panicked: true, .. })) || made.conflicts.is_empty() {
        return;
    }
    l.distinct.insert(util::fnv_str(&format!("renamed|{:?}|{}", made.conflicts[0].1, made.conflicts.len())));
    let txs = scen::tx_msgs(trace, 0);
    let ty = scen::wire_name(&made.reg.ty_only);
    let t_end = trace.entries[made.end_idx].t;
    let last_conf = made.conflicts.iter().map(|(i, _, _, _)| trace.entries[*i].t).max().unwrap();
    let first_conf = made.conflicts.iter().map(|(i, _, _, _)| trace.entries[*i].t).min().unwrap();
    // announcements: unsolicited multicast responses carrying the type's PTR and the service's SRV (by port)
    let query_iters = scen::query_iters(trace, 0);
    let anns: Vec<(u64, bool, Name, Vec<String>)> = txs
        .iter()
        .filter(|tx| tx.out_if == Some(made.if_index) && tx.t > first_conf && tx.t < t_end && tx.msg.is_response() && tx.multicast && !query_iters.contains(&tx.iter))
        .filter_map(|tx| {
            let p = tx.msg.answers.iter().find(|r| r.rtype == wire::T_PTR && r.ttl > 0 && wire::names_eq_nocase(&r.name, &ty))?;
            let RData::Ptr(x) = &p.rdata else { return None };
            tx.msg.answers.iter().find(|r| matches!(&r.rdata, RData::Srv { port, .. } if *port == made.reg.port) && wire::names_eq_nocase(&r.name, x))?;
            let mut content: Vec<String> = tx.msg.answers.iter().map(|r| format!("{}|{}|{}", wire::escaped(&wire::lower(&r.name)), r.rtype, render_rdata(&r.rdata))).collect();
            content.sort();
            Some((tx.t, tx.v4, x.clone(), content))
        })
        .collect();
    let wit = || json!({"scenario": made.desc, "announcements_ms": anns.iter().map(|(t, v4, x, _)| format!("+{} {} {}", t - EPOCH, if *v4 { "v4" } else { "v6" }, wire::escaped(x))).collect::<Vec<_>>(),
                        "trace": scen::witness_window(trace, last_conf, last_conf + 4500, 50)});
    if t_end < last_conf + 3300 {
        return;
    }
    l.act("P6");
    // the names it ended up with are those of its last announcement: judge the announcements made under them
    // (an earlier conflict may have been followed by announcements under names given up again later)
    let anns: Vec<(u64, bool, Name, Vec<String>)> = match anns.last() {
        Some((_, _, fin, fin_content)) => {
            let (fin, fin_content) = (fin.clone(), fin_content.clone());
            anns.iter().filter(|(_, _, x, c)| wire::names_eq_nocase(x, &fin) && *c == fin_content).cloned().collect()
        }
        None => Vec::new(),
    };
    let Some((t1, v4, name, content)) = anns.first().cloned() else {
        l.violate(Violation::new("P6", "P6/never-announced/after-rename", "after the conflict the service was never announced").with(wit()));
        return;
    };
    l.act("P5");
    let second = anns.iter().find(|(t, f, x, _)| *f == v4 && *t >= t1 + 1000 && *t <= t1 + 1001 && wire::names_eq_nocase(x, &name));
    match second {
        None => l.violate(Violation::new("P5", "P5/announced-once/after-rename", format!("{} was announced at +{} ms but not again one second later", wire::escaped(&name), t1 - EPOCH)).with(wit())),
        Some((_, _, _, c2)) => {
            l.act("P5-content");
            if *c2 != content {
                l.violate(Violation::new("P5", "P5/second-announcement-differs/after-rename", "the second announcement carries other records than the first").with(wit()));
            }
        }
    }
}

/// P1 after a lost simultaneous-probe comparison (the scenarios of C08 part T, judged for this property): the
/// probes sent before do not count any more; the name is announced only after three more probes, 250 ms apart,
/// and a further 250 ms.
pub fn tiebreak_case(seed: u64, l: &mut Local) {
    use crate::props::c08::{self, Claim, Verdict, Which};
    let mut rng = Rng::new(seed);
    let base = Claim { port: 80, txt: wire::txt_encode(&[(b"k".to_vec(), Some(b"v".to_vec()))]), host: "contested-host.local.".into(), v4: vec![[10, 0, 0, 5]], v6: vec![] };
    let x = if rng.chance(1, 2) { c08::random_claim(&mut rng, &base) } else { base.clone() };
    let y = c08::random_claim(&mut rng, &x);
    let which = if x.port != y.port || x.txt != y.txt { Which::Instance } else { Which::Host };
    let (xs, ys) = (x.records_for(which), y.records_for(which));
    if xs == ys {
        return;
    }
    // the side whose data sort earlier is the one that has to yield
    let (mine, theirs) = if c08::compare_sets(&xs, &ys) == std::cmp::Ordering::Less { (x, y) } else { (y, x) };
    let jitter = *rng.pick(&[0u64, 7, 130, 249]);
    let at = *rng.pick(&[1u64, 100, 249, 251, 400, 499, 501, 700, 749]);
    l.evaluations += 1;
    l.distinct.insert(util::fnv_str(&format!("tiebreak|{:?}|{:?}|{which:?}|{at}|{jitter}", mine, theirs)));
    let r = c08::shown(seed, &mine, &theirs, which, at, jitter, false, false);
    if r.died {
        l.inconclusive.push(format!("daemon died in a C07 tiebreak scenario (seed {seed})"));
        return;
    }
    if r.verdict == Verdict::Ignores {
        // it went on on schedule: whether that was right is C08's question, the probes it sent stand
        return;
    }
    l.act("P1-after-yield");
    let step = if at < 250 { "after-first-probe" } else if at < 500 { "after-second-probe" } else { "after-third-probe" };
    let wit = || json!({"scenario": format!("{which:?} name; the daemon's data sort before the other prober's; shown {at} ms after the first probe (jitter {jitter})"),
                        "probes_after_the_lost_comparison_ms": r.probes_after, "announced_after_ms": r.announced_at, "trace": r.trace});
    let Some(a) = r.announced_at else {
        l.violate(Violation::new("P6", format!("P6/never-announced/after-lost-tiebreak/{step}"), "the other prober never announced, yet the service was not announced within four seconds of the lost comparison").with(wit()));
        return;
    };
    let before: Vec<u64> = r.probes_after.iter().copied().filter(|t| *t < a).collect();
    let ok = before.len() >= 3 && {
        let p = &before[before.len() - 3..];
        p[1] - p[0] >= 250 && p[2] - p[1] >= 250 && a >= p[2] + 250
    };
    if !ok {
        l.violate(
            Violation::new(
                "P1",
                format!("P1/announced-without-three-fresh-probes/after-lost-tiebreak/{step}"),
                format!("after losing the comparison the daemon probed at {:?} ms and announced at {} ms: not three probes 250 ms apart and 250 ms more", before, a),
            )
            .with(wit()),
        );
    }
}

pub fn run(report: &Report, tier: &Tier) {
    report.set_rule(
        "registration scenarios on a simulated daemon: 1..3 interfaces (v4/v6/both, differing subnets), 1..4 services (with/without subtype, \
         shared or separate host names, fixed or automatic addresses, probing on/off), registered together or staggered by 0..1000 ms, \
         forced jitters {0,1,124,125,248,249} or seeded random, queries injected while probing, an interface appearing later; lazy and \
         eager (10/50 ms) stepping; plus the conflict scenarios of C08 part R (a service renamed while probing): announced under its final names, twice, one second apart; and the scenarios of C08 part T on the side that has to yield: after the lost comparison three fresh probes 250 ms apart and 250 ms more before the announcement; distinct by scenario shape",
    );
    report.assume("oversleep stepping is excluded: the probe schedule presumes the daemon is woken when it asks to be (DESIGN §6 C07)");
    for r in ["P1", "P1-authority", "P1-host", "P2", "P3", "P4", "P5", "P5-content", "P6"] {
        report.floor(r, 20);
    }
    report.floor("P6-late-interface", 1);
    report.floor("P1-after-yield", 20);
    report.floor("P3-window", 20);
    let seed = report.seed;
    let n: u64 = if tier.thorough { 400_000 } else { 3_000 };
    run_parallel(report, n, threads(), tier.budget_s * 0.8, |i, l| {
        run_one(util::mix(seed, 0xC07_0000 + i), l, i % 3 == 0);
    });
    // services renamed by a conflict while probing
    let n2: u64 = if tier.thorough { 100_000 } else { 600 };
    run_parallel(report, n2, threads(), tier.budget_s * 0.1, |i, l| {
        renamed_case(util::mix(seed, 0xC07_8000 + i), l);
    });
    // services that lost a simultaneous-probe comparison
    let n3: u64 = if tier.thorough { 100_000 } else { 600 };
    run_parallel(report, n3, threads(), tier.budget_s * 0.1, |i, l| {
        tiebreak_case(util::mix(seed, 0xC07_9000 + i), l);
    });
    // a plain question about a name that has finished probing while the service's other name still waits
    let n4: u64 = if tier.thorough { 60_000 } else { 600 };
    run_parallel(report, n4, threads(), tier.budget_s * 0.05, |i, l| {
        crate::props::c08::window_question_case(util::mix(seed, 0xC07_A000 + i), true, l);
    });
}
