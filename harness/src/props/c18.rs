//! C18 — each interface is its own link; nothing leaks or outlives its removal.
//!
//! Part S (I3): enable/disable selections of every kind interleaved with interface-table
//!   edits; at checkpoints the daemon's interface set (hooked state) and the interfaces a
//!   fresh query leaves on (wire) are compared with the selection model "call order, last
//!   match wins, also for interfaces that show up later"; no packet ever leaves on, and no
//!   packet is acted on from, an interface or family the model says is off.
//! Part E (I1, I2): registrations with explicit and automatic addresses on multi-homed
//!   hosts: every packet about a service leaves only where the service has an address in
//!   the link's subnet and carries only that link's addresses; automatic services follow
//!   addresses that appear and disappear.
//! Part P (I4, I5): a browser learns instances over several interfaces; an interface
//!   disappears or is disabled (wholly or one family): removed / re-resolved instances,
//!   nothing learned there reported afterwards, nothing of it left in the cache.

use crate::report::{run_parallel, threads, Local, Report, Violation};
use crate::scen::{self, Svc};
use crate::util::{self, Rng};
use crate::wire::{self, Message, RData};
use crate::world::*;
use crate::Tier;
use mdns_sd::{IfKind, IfPredicate};
use serde_json::json;
use std::collections::BTreeSet;
use std::net::{IpAddr, SocketAddr};

// ---------------------------------------------------------------------------
// The selection model

#[derive(Clone, Debug, PartialEq)]
pub enum Kind {
    All,
    V4,
    V6,
    Name(String),
    Addr(IpAddr),
    LoV4,
    LoV6,
    IndexV4(u32),
    IndexV6(u32),
    Pred(u8),
}

impl Kind {
    pub fn label(&self) -> &'static str {
        match self {
            Kind::All => "All",
            Kind::V4 => "IPv4",
            Kind::V6 => "IPv6",
            Kind::Name(_) => "Name",
            Kind::Addr(_) => "Addr",
            Kind::LoV4 => "LoopbackV4",
            Kind::LoV6 => "LoopbackV6",
            Kind::IndexV4(_) => "IndexV4",
            Kind::IndexV6(_) => "IndexV6",
            Kind::Pred(_) => "Predicate",
        }
    }
    pub fn to_ifkind(&self) -> IfKind {
        match self.clone() {
            Kind::All => IfKind::All,
            Kind::V4 => IfKind::IPv4,
            Kind::V6 => IfKind::IPv6,
            Kind::Name(n) => IfKind::Name(n),
            Kind::Addr(a) => IfKind::Addr(a),
            Kind::LoV4 => IfKind::LoopbackV4,
            Kind::LoV6 => IfKind::LoopbackV6,
            Kind::IndexV4(i) => IfKind::IndexV4(i),
            Kind::IndexV6(i) => IfKind::IndexV6(i),
            Kind::Pred(id) => IfKind::Predicate(IfPredicate::new(move |intf| pred(id, &intf.name, intf.index.unwrap_or(0), &intf.ip()))),
        }
    }
}

fn pred(id: u8, name: &str, index: u32, ip: &IpAddr) -> bool {
    match id {
        0 => name.starts_with("eth1"),
        1 => index >= 3,
        2 => matches!(ip, IpAddr::V4(a) if a.octets()[0] == 10),
        _ => matches!(ip, IpAddr::V6(a) if (a.segments()[0] & 0xffc0) == 0xfe80),
    }
}

/// One address of one interface, as the operating system lists it.
#[derive(Clone, Debug, PartialEq, Eq, PartialOrd, Ord)]
pub struct AddrEntry {
    pub index: u32,
    pub name: String,
    pub ip: IpAddr,
}

pub fn visible_entries(ifs: &[IfSpec]) -> Vec<AddrEntry> {
    visible_entries_with(ifs, false)
}

/// `apple_p2p`: the option `include_apple_p2p` is on (interfaces named awdl* / llw* are left out otherwise).
pub fn visible_entries_with(ifs: &[IfSpec], apple_p2p: bool) -> Vec<AddrEntry> {
    ifs.iter()
        .filter(|i| i.up && !i.p2p && (apple_p2p || !(i.name.starts_with("awdl") || i.name.starts_with("llw"))))
        .flat_map(|i| i.addrs.iter().map(move |(ip, _)| AddrEntry { index: i.index, name: i.name.clone(), ip: *ip }))
        .collect()
}

fn matches(k: &Kind, e: &AddrEntry) -> bool {
    match k {
        Kind::All => true,
        Kind::V4 => e.ip.is_ipv4(),
        Kind::V6 => e.ip.is_ipv6(),
        Kind::Name(n) => *n == e.name,
        Kind::Addr(a) => *a == e.ip,
        Kind::LoV4 => e.ip.is_loopback() && e.ip.is_ipv4(),
        Kind::LoV6 => e.ip.is_loopback() && e.ip.is_ipv6(),
        Kind::IndexV4(i) => e.index == *i && e.ip.is_ipv4(),
        Kind::IndexV6(i) => e.index == *i && e.ip.is_ipv6(),
        Kind::Pred(id) => pred(*id, &e.name, e.index, &e.ip),
    }
}

#[derive(Clone, Debug, Default)]
pub struct SelModel {
    pub selections: Vec<(Kind, bool)>,
    /// The option `include_apple_p2p` as last set (off by default).
    pub apple_p2p: bool,
}

impl SelModel {
    /// A call with an address names the interface (and family) that has it at that moment;
    /// when none has, it keeps meaning that address (for interfaces that show up later).
    pub fn call(&mut self, kinds: &[Kind], on: bool, table: &[IfSpec]) {
        let entries = visible_entries_with(table, self.apple_p2p);
        for k in kinds {
            let k = match k {
                Kind::Addr(a) => match entries.iter().find(|e| e.ip == *a) {
                    Some(e) if a.is_ipv4() => Kind::IndexV4(e.index),
                    Some(e) => Kind::IndexV6(e.index),
                    None => k.clone(),
                },
                _ => k.clone(),
            };
            self.selections.push((k, on));
        }
    }
    pub fn enabled(&self, e: &AddrEntry) -> bool {
        let mut on = true;
        for (k, sel) in self.selections.iter() {
            if matches(k, e) {
                on = *sel;
            }
        }
        on
    }
    pub fn enabled_entries(&self, table: &[IfSpec]) -> BTreeSet<AddrEntry> {
        visible_entries_with(table, self.apple_p2p).into_iter().filter(|e| self.enabled(e)).collect()
    }
    pub fn enabled_links(&self, table: &[IfSpec]) -> BTreeSet<(u32, bool)> {
        self.enabled_entries(table).iter().map(|e| (e.index, e.ip.is_ipv4())).collect()
    }
}

// ---------------------------------------------------------------------------
// Part S

fn topology(rng: &mut Rng) -> Vec<IfSpec> {
    let mut v = match rng.below(5) {
        0 => scen::single_dual(),
        1 => scen::two_v4(),
        2 => scen::three_mixed(),
        3 => vec![
            IfSpec::new("eth0", 2, 0, &[("10.0.0.5", 24), ("172.16.0.5", 16), ("fe80::5", 64)]),
            IfSpec::new("eth1", 3, 1, &[("192.168.1.5", 24), ("fd00:1::5", 64)]),
        ],
        _ => scen::random_topology(rng),
    };
    // a secondary address inside a subnet the interface already has (an alias, a rotating IPv6 address)
    if rng.chance(1, 3) {
        let k = rng.usize(v.len());
        let extra: Vec<(IpAddr, u8)> = v[k].addrs.iter().filter_map(|(a, p)| sibling(a).map(|s| (s, *p))).collect();
        if let Some(e) = extra.first() {
            if !v.iter().any(|i| i.addrs.iter().any(|(a, _)| *a == e.0)) {
                v[k].addrs.push(*e);
            }
        }
    }
    if rng.chance(1, 3) {
        v.insert(0, IfSpec::new("lo", 1, 9, &[("127.0.0.1", 8), ("::1", 128)]));
    }
    v
}

/// Another host address of the same subnet (last byte + 1).
fn sibling(a: &IpAddr) -> Option<IpAddr> {
    match a {
        IpAddr::V4(v) => {
            let mut o = v.octets();
            if v.is_loopback() || o[3] >= 250 {
                return None;
            }
            o[3] += 1;
            Some(IpAddr::from(o))
        }
        IpAddr::V6(v) => {
            let mut o = v.octets();
            if v.is_loopback() || o[15] >= 250 {
                return None;
            }
            o[15] += 1;
            Some(IpAddr::from(o))
        }
    }
}

fn random_kind(rng: &mut Rng, table: &[IfSpec]) -> Kind {
    let all_names = ["eth0", "eth1", "eth2", "wlan0", "lo", "eth9"];
    let mut addrs: Vec<IpAddr> = table.iter().flat_map(|i| i.addrs.iter().map(|(a, _)| *a)).collect();
    addrs.push("10.0.7.5".parse().unwrap()); // shows up later (or never)
    addrs.push("fd00:7::5".parse().unwrap());
    match rng.below(12) {
        0 => Kind::All,
        1 => Kind::V4,
        2 => Kind::V6,
        3 | 4 => Kind::Name(rng.pick(&all_names).to_string()),
        5 | 6 => Kind::Addr(*rng.pick(&addrs)),
        7 => {
            if rng.chance(1, 2) {
                Kind::LoV4
            } else {
                Kind::LoV6
            }
        }
        8 => Kind::IndexV4(1 + rng.below(5) as u32),
        9 => Kind::IndexV6(1 + rng.below(5) as u32),
        _ => Kind::Pred(rng.below(4) as u8),
    }
}

/// One random edit of the interface table; returns what was done.
fn edit_table(rng: &mut Rng, table: &mut Vec<IfSpec>) -> &'static str {
    for _ in 0..8 {
        match rng.below(11) {
            9 => {
                // the same address with another prefix length (a renewed lease, a corrected netmask)
                let k = rng.usize(table.len());
                if table[k].addrs.is_empty() {
                    continue;
                }
                let j = rng.usize(table[k].addrs.len());
                let (a, p) = table[k].addrs[j];
                table[k].addrs[j].1 = match (a, p) {
                    (IpAddr::V4(_), 24) => 16,
                    (IpAddr::V4(_), _) => 24,
                    (IpAddr::V6(_), 64) => 48,
                    (IpAddr::V6(_), _) => 64,
                };
                return "prefix-changed";
            }
            10 => {
                // the interface is created anew by the system: same name, same addresses, another index
                let k = rng.usize(table.len());
                if table[k].index >= 20 || table[k].name == "lo" {
                    continue;
                }
                table[k].index += 20;
                return "interface-reindexed";
            }
            7 => {
                // renumbering inside the subnet: one address is replaced by its neighbour
                let k = rng.usize(table.len());
                if table[k].addrs.is_empty() {
                    continue;
                }
                let j = rng.usize(table[k].addrs.len());
                let Some(n) = sibling(&table[k].addrs[j].0) else { continue };
                if table.iter().any(|i| i.addrs.iter().any(|(a, _)| *a == n)) {
                    continue;
                }
                table[k].addrs[j].0 = n;
                return "address-renumbered";
            }
            8 => {
                // a second address inside a subnet the interface already has
                let k = rng.usize(table.len());
                if table[k].addrs.is_empty() {
                    continue;
                }
                let j = rng.usize(table[k].addrs.len());
                let (a, p) = table[k].addrs[j];
                let Some(n) = sibling(&a) else { continue };
                if table.iter().any(|i| i.addrs.iter().any(|(x, _)| *x == n)) {
                    continue;
                }
                table[k].addrs.push((n, p));
                return "address-added-in-subnet";
            }
            0 => {
                // a new address on a new subnet of an existing interface
                let k = rng.usize(table.len());
                let fresh: (IpAddr, u8) = if rng.chance(1, 2) { ("10.0.7.5".parse().unwrap(), 24) } else { ("fd00:7::5".parse().unwrap(), 64) };
                if table.iter().any(|i| i.addrs.iter().any(|(a, _)| *a == fresh.0)) {
                    continue;
                }
                table[k].addrs.push(fresh);
                return "address-added";
            }
            1 => {
                let k = rng.usize(table.len());
                if table[k].addrs.len() < 2 {
                    continue;
                }
                let j = rng.usize(table[k].addrs.len());
                table[k].addrs.remove(j);
                return "address-removed";
            }
            2 => {
                let k = rng.usize(table.len());
                if !table[k].up {
                    continue;
                }
                table[k].up = false;
                return "interface-down";
            }
            3 => {
                if let Some(i) = table.iter_mut().find(|i| !i.up) {
                    i.up = true;
                    return "interface-up";
                }
            }
            4 => {
                // an address moves to another interface
                if table.len() < 2 {
                    continue;
                }
                let a = rng.usize(table.len());
                let b = (a + 1 + rng.usize(table.len() - 1)) % table.len();
                if table[a].addrs.len() < 2 {
                    continue;
                }
                let j = rng.usize(table[a].addrs.len());
                let moved = table[a].addrs.remove(j);
                table[b].addrs.push(moved);
                return "address-moved";
            }
            5 => {
                if table.iter().any(|i| i.name == "eth2") || table.len() >= 4 {
                    continue;
                }
                // (no address twice in the table: one that has moved to another interface does not come with the new one)
                let mut spec = IfSpec::new("eth2", 5, 3, &[("10.2.0.5", 24), ("fd00:3::5", 64)]);
                spec.addrs.retain(|(a, _)| !table.iter().any(|i| i.addrs.iter().any(|(x, _)| x == a)));
                if spec.addrs.is_empty() {
                    continue;
                }
                table.push(spec);
                return "interface-added";
            }
            _ => {
                if table.len() < 2 {
                    continue;
                }
                let k = rng.usize(table.len());
                table.remove(k);
                return "interface-removed";
            }
        }
    }
    "none"
}

pub struct Checkpoint {
    pub t: u64,
    pub idx: usize,
    /// Trace length once the checkpoint's browse had been carried out: later entries belong to later operations
    /// (which may happen at the very same virtual instant).
    pub idx_end: usize,
    pub after: String,
    pub ty: String,
    pub model_entries: BTreeSet<AddrEntry>,
    pub model_links: BTreeSet<(u32, bool)>,
    pub daemon_entries: Option<BTreeSet<(u32, IpAddr)>>,
    pub table: Vec<IfSpec>,
    pub selections: Vec<(Kind, bool)>,
}

pub struct MadeS {
    pub world: World,
    pub desc: String,
    pub checkpoints: Vec<Checkpoint>,
    /// (entry index of the call, model afterwards, table at the call)
    pub calls: Vec<(usize, SelModel, Vec<IfSpec>)>,
    /// (time of the edit, table afterwards)
    pub edits: Vec<(u64, Vec<IfSpec>)>,
    /// injected packets: (entry index, interface, v4, tag used in names)
    pub injected: Vec<(usize, u32, bool, String)>,
    pub horizon: u64,
}

const CHECK_S: u32 = 1;
/// After an edit of the table the daemon notices within one check interval.
const FLUX_MS: u64 = 1000 * CHECK_S as u64 + 300;

pub fn scenario_s(seed: u64) -> MadeS {
    let mut rng = Rng::new(seed);
    let mut w = World::new(seed);
    w.set_stepping(Stepping::Lazy);
    let mut table = topology(&mut rng);
    // one table in four has an Apple peer-to-peer interface (by its name): left out unless the option says otherwise
    let with_awdl = util::mix(seed, 0xA9) % 4 == 0;
    if with_awdl {
        table.push(IfSpec::new("awdl0", 8, 4, &[("fe80::8", 64)]));
    }
    let h = w.add_host(table.clone());
    let t0 = w.now();
    w.set_ip_check_interval(h, CHECK_S);
    let mut model = SelModel::default();
    let mut desc = format!("table={}:", table.iter().map(|i| format!("{}#{}[{}]", i.name, i.index, i.addrs.iter().map(|(a, p)| format!("{a}/{p}")).collect::<Vec<_>>().join(","))).collect::<Vec<_>>().join(" "));
    let mut checkpoints = Vec::new();
    let mut calls = Vec::new();
    let mut edits = vec![(t0, table.clone())];
    let mut injected = Vec::new();
    // selections made before anything else exists are the common use
    let early = rng.chance(1, 2);
    if !early {
        // the check interval set above counts only from the next (default, 5 s) check on
        w.run_until(t0 + 5500);
    }
    // something to answer with: a registered service with every address the host may ever have
    let n_ops = 1 + rng.usize(6);
    let mut ck = 0;
    for op in 0..n_ops {
        let after;
        if with_awdl && util::mix(seed, 0xAA + op as u64) % 3 == 0 {
            let on = !model.apple_p2p || util::mix(seed, 0xBA + op as u64) % 3 == 0;
            model.apple_p2p = on;
            if early && w.now() < t0 + 5500 {
                // (the short check interval counts only from the first, default, check on)
                w.run_until(t0 + 5500);
            }
            w.include_apple_p2p(h, on);
            let idx = w.trace.entries.len() - 1;
            w.settle();
            calls.push((idx, model.clone(), table.clone()));
            // (for what may be judged when, the option counts as a change of the table)
            edits.push((w.now(), table.clone()));
            // (switching the option off takes effect at the next interface check, like a change of the table; and
            // the check must keep what switching it on brought: look after one has run)
            w.run_for(FLUX_MS + rng.below(1500));
            after = format!("include-apple-p2p-{on}");
            desc.push_str(&format!(" include_apple_p2p({on})"));
        } else if rng.chance(3, 5) || (early && op == 0) {
            let on = rng.chance(1, 2);
            let kinds: Vec<Kind> = (0..1 + rng.usize(2)).map(|_| random_kind(&mut rng, &table)).collect();
            model.call(&kinds, on, &table);
            let ifk: Vec<IfKind> = kinds.iter().map(|k| k.to_ifkind()).collect();
            if on {
                w.enable_interface(h, ifk);
            } else {
                w.disable_interface(h, ifk);
            }
            let idx = w.trace.entries.len() - 1;
            w.settle();
            calls.push((idx, model.clone(), table.clone()));
            after = format!("{}-{}", if on { "enable" } else { "disable" }, kinds.iter().map(|k| k.label()).collect::<Vec<_>>().join("+"));
            desc.push_str(&format!(" {}({:?})", if on { "enable" } else { "disable" }, kinds));
        } else {
            let what = edit_table(&mut rng, &mut table);
            if what == "none" {
                continue;
            }
            if early && w.now() < t0 + 5500 {
                w.run_until(t0 + 5500);
            }
            w.set_ifs(h, table.clone(), what);
            edits.push((w.now(), table.clone()));
            w.run_for(FLUX_MS + rng.below(1500));
            after = what.to_string();
            desc.push_str(&format!(" {what}"));
        }
        if early && op == 0 && w.now() < t0 + 5500 && rng.chance(1, 2) {
            w.run_until(t0 + 5500);
        }
        // checkpoint: hooked interface set, then a fresh query on the wire
        let snap = w.snapshot(h);
        let daemon_entries = snap.map(|s| s.intfs.iter().flat_map(|(i, _, addrs)| addrs.iter().map(move |a| (*i, *a))).collect::<BTreeSet<_>>());
        let ty = format!("_ck{ck}._udp.local.");
        ck += 1;
        w.browse(h, &ty);
        let idx = w.trace.entries.len() - 1;
        w.settle();
        checkpoints.push(Checkpoint {
            t: w.now(),
            idx,
            idx_end: w.trace.entries.len(),
            after,
            ty,
            model_entries: model.enabled_entries(&table),
            model_links: model.enabled_links(&table),
            daemon_entries,
            table: table.clone(),
            selections: model.selections.clone(),
        });
        // traffic from outside on every link of the table, enabled or not: a query for the type just browsed
        // (an enabled link gets no reply - nothing is registered - and must not crash; used by the acceptance rule below)
        for i in table.clone().iter().filter(|i| i.up) {
            for v4 in [true, false] {
                if !i.has_family(v4) || !rng.chance(1, 2) {
                    continue;
                }
                let tag = format!("inj{}", injected.len());
                let src = peer_on(i, v4);
                let mut s = Svc::new(&format!("_ck{}._udp.local", ck - 1), &tag, &format!("{tag}.local"), [10, 9, 9, 9]);
                s.ttl_ptr = 120;
                let idx = w.trace.entries.len();
                w.inject_msg(h, i.index, src, &s.announce());
                w.settle();
                injected.push((idx, i.index, v4, tag));
            }
        }
        w.run_for(rng.below(2500));
    }
    let horizon = w.now() + 1500;
    w.run_until(horizon);
    MadeS { world: w, desc, checkpoints, calls, edits, injected, horizon }
}

fn peer_on(i: &IfSpec, v4: bool) -> SocketAddr {
    if v4 {
        let o = i.v4().unwrap().octets();
        sock4([o[0], o[1], o[2], 99], 5353)
    } else {
        let mut seg = i.v6().unwrap().segments();
        seg[7] = 0x99;
        sock6(std::net::Ipv6Addr::from(seg), 5353, i.index)
    }
}

pub fn monitor_s(made: &MadeS, l: &mut Local) {
    let trace = &made.world.trace;
    let txs = scen::tx_msgs(trace, 0);
    let sel_text = |sel: &[(Kind, bool)]| sel.iter().map(|(k, on)| format!("{}{:?}", if *on { "+" } else { "-" }, k)).collect::<Vec<_>>().join(" ");
    for c in made.checkpoints.iter() {
        let wit = || {
            json!({"scenario": made.desc, "checkpoint_after": c.after, "selections_in_call_order": sel_text(&c.selections),
                   "table": c.table.iter().map(|i| format!("{}#{} up={} {:?}", i.name, i.index, i.up, i.addrs)).collect::<Vec<_>>(),
                   "model_enabled": c.model_entries.iter().map(|e| format!("{}#{} {}", e.name, e.index, e.ip)).collect::<Vec<_>>(),
                   "daemon_interfaces": c.daemon_entries.as_ref().map(|d| d.iter().map(|(i, a)| format!("#{i} {a}")).collect::<Vec<_>>()),
                   "trace": scen::witness_window(trace, c.t.saturating_sub(3000), c.t, 40)})
        };
        // hooked state: the daemon's interface table, address by address
        if let Some(d) = c.daemon_entries.as_ref() {
            l.act("I3-state");
            let m: BTreeSet<(u32, IpAddr)> = c.model_entries.iter().map(|e| (e.index, e.ip)).collect();
            if let Some((i, a)) = d.difference(&m).next() {
                l.violate(
                    Violation::new("I3", format!("I3/state/enabled-but-should-be-off/after-{}", c.after), format!("the daemon uses {a} on interface #{i}, which the selections (last match wins) or the interface table rule out"))
                        .with(wit()),
                );
                return;
            }
            if let Some((i, a)) = m.difference(d).next() {
                l.violate(
                    Violation::new("I3", format!("I3/state/off-but-should-be-enabled/after-{}", c.after), format!("the daemon does not use {a} on interface #{i}, which the selections (last match wins) leave enabled"))
                        .with(wit()),
                );
                return;
            }
        }
        // wire: the first query of a new search leaves on exactly the enabled (interface, family) pairs
        l.act("I3-wire");
        let ty = scen::wire_name(&c.ty);
        let sent: BTreeSet<(u32, bool)> = txs
            .iter()
            .filter(|tx| tx.idx > c.idx && tx.idx < c.idx_end && tx.t == c.t && tx.msg.is_query() && scen::has_question(tx.msg, &ty, wire::T_PTR))
            .filter_map(|tx| tx.out_if.map(|i| (i, tx.v4)))
            .collect();
        if sent != c.model_links {
            let extra = sent.difference(&c.model_links).next();
            l.violate(
                Violation::new(
                    "I3",
                    format!("I3/wire/{}/after-{}", if extra.is_some() { "query-on-disabled-link" } else { "no-query-on-enabled-link" }, c.after),
                    format!("a new search's query left on {:?} (interface, is-IPv4) but the model enables {:?}", sent, c.model_links),
                )
                .with(wit()),
            );
            return;
        }
    }
    // continuous: no packet ever leaves on a link the model has off (outside the window in which the daemon may not have noticed a table edit)
    // (while the daemon may not have noticed an edit of the table nothing is judged: a packet sent from an address that has
    // just moved leaves wherever the operating system now has that address)
    let in_flux = |t: u64| made.edits.iter().skip(1).any(|(te, _)| *te <= t && t < te + FLUX_MS);
    let link_on_at = |t: u64, idx: usize, ifi: u32, v4: bool| -> bool {
        let model = made.calls.iter().filter(|(i, _, _)| *i < idx).next_back().map(|(_, m, _)| m.clone()).unwrap_or_default();
        let (_, tab) = made.edits.iter().filter(|(te, _)| *te <= t).next_back().unwrap();
        model.enabled_links(tab).contains(&(ifi, v4))
    };
    for tx in txs.iter() {
        let Some(ifi) = tx.out_if else { continue };
        if in_flux(tx.t) {
            continue;
        }
        l.act("I3-egress");
        if !link_on_at(tx.t, tx.idx, ifi, tx.v4) {
            l.violate(
                Violation::new("I3", "I3/egress-on-disabled-link", format!("a packet left on interface #{ifi} over {} although that link is off", if tx.v4 { "IPv4" } else { "IPv6" }))
                    .with(json!({"scenario": made.desc, "trace": scen::witness_window(trace, tx.t.saturating_sub(2500), tx.t, 40)})),
            );
            return;
        }
    }
    // acceptance: an announcement injected on a link that is off has no effect (no ServiceFound for it)
    for (idx, ifi, v4, tag) in made.injected.iter() {
        let t = trace.entries[*idx].t;
        if in_flux(t) {
            continue;
        }
        let model = made.calls.iter().filter(|(i, _, _)| *i < *idx).next_back().map(|(_, m, _)| m.clone()).unwrap_or_default();
        let on_sure = link_on_at(t, *idx, *ifi, *v4);
        let on_possible = on_sure;
        let found = trace.entries.iter().skip(*idx).any(|e| matches!(&e.ev, Ev::Obs { obs: Obs::Found(_, name), .. } if name.starts_with(&format!("{tag}."))));
        l.act("I3-ingress");
        let wit = || json!({"scenario": made.desc, "selections_in_call_order": sel_text(&model.selections), "trace": scen::witness_window(trace, t.saturating_sub(2500), t + 5, 40)});
        if found && !on_possible {
            l.violate(Violation::new("I3", "I3/accepted-from-disabled-link", format!("an announcement received on interface #{ifi} over {} was acted on although that link is off", if *v4 { "IPv4" } else { "IPv6" })).with(wit()));
            return;
        }
        if !found && on_sure {
            l.violate(Violation::new("I3", "I3/ignored-on-enabled-link", format!("an announcement received on interface #{ifi} over {} was ignored although that link is enabled", if *v4 { "IPv4" } else { "IPv6" })).with(wit()));
            return;
        }
    }
}

pub fn run_s(seed: u64, l: &mut Local) {
    let made = scenario_s(seed);
    l.evaluations += 1;
    l.count("daemon_iterations", made.world.total_iterations);
    if made.world.trace.deaths().any(|d| matches!(d.ev, Ev::Death { panicked: true, .. })) {
        l.inconclusive.push(format!("daemon died in a C18 scenario (seed {seed})"));
        return;
    }
    let shape: Vec<&str> = made.checkpoints.iter().map(|c| c.after.as_str()).collect();
    l.distinct.insert(util::fnv_str(&format!("S|{shape:?}")));
    if l.samples.is_empty() {
        l.samples.push(json!({"scenario": made.desc}));
    }
    monitor_s(&made, l);
}

// ---------------------------------------------------------------------------
// Part E: registrations on multi-homed hosts

pub struct MadeE {
    pub world: World,
    pub desc: String,
    pub calls: Vec<(usize, SelModel, Vec<IfSpec>)>,
    pub edits: Vec<(u64, Vec<IfSpec>)>,
    /// (entry index of the accepted registration, what was registered)
    pub regs: Vec<(usize, RegInfo)>,
    pub horizon: u64,
    /// questions injected: (entry index, time, interface, over IPv4, service number, 2 = ANY on the instance / 3 = ANY on the host)
    pub asked: Vec<(usize, u64, u32, bool, usize, u8)>,
}

const FOREIGN: &str = "172.31.9.9";

pub fn scenario_e(seed: u64) -> MadeE {
    let mut rng = Rng::new(seed);
    let mut w = World::new(seed);
    w.set_stepping(Stepping::Lazy);
    let mut table = topology(&mut rng);
    let h = w.add_host(table.clone());
    let t0 = w.now();
    w.set_ip_check_interval(h, CHECK_S);
    let mut model = SelModel::default();
    let mut desc = format!("table={}:", table.iter().map(|i| format!("{}#{}[{}]", i.name, i.index, i.addrs.iter().map(|(a, p)| format!("{a}/{p}")).collect::<Vec<_>>().join(","))).collect::<Vec<_>>().join(" "));
    let mut calls = Vec::new();
    let mut edits = vec![(t0, table.clone())];
    let mut regs = Vec::new();
    let mut asked: Vec<(usize, u64, u32, bool, usize, u8)> = Vec::new();
    // timeline: (time, kind, index)  kind 0 = selection call, 1 = register, 2 = table edit, 3 = query
    let mut ops: Vec<(u64, u8, usize)> = Vec::new();
    // selections made before anything is registered (several, so that "the last match wins" matters for
    // the addresses a service with automatic addresses is given at registration)
    for _ in 0..rng.usize(4) {
        ops.push((rng.below(4500), 0, 0));
    }
    let n_svcs = 1 + rng.usize(3);
    for s in 0..n_svcs {
        ops.push((5600 + rng.below(3000), 1, s));
    }
    let mut t = 12_000;
    for _ in 0..rng.usize(4) {
        ops.push((t, if rng.chance(1, 2) { 0 } else { 2 }, 0));
        t += 3500 + rng.below(3000);
    }
    let t_end = t + 3000;
    for _ in 0..10 + rng.usize(20) {
        ops.push((5600 + rng.below(t_end - 5600), 3, 0));
    }
    ops.sort();
    for (at, kind, s) in ops {
        w.run_until(t0 + at);
        match kind {
            0 => {
                let on = rng.chance(1, 2);
                let kinds: Vec<Kind> = (0..1 + rng.usize(2)).map(|_| random_kind(&mut rng, &table)).collect();
                model.call(&kinds, on, &table);
                let ifk: Vec<IfKind> = kinds.iter().map(|k| k.to_ifkind()).collect();
                if on {
                    w.enable_interface(h, ifk);
                } else {
                    w.disable_interface(h, ifk);
                }
                let idx = w.trace.entries.len() - 1;
                w.settle();
                calls.push((idx, model.clone(), table.clone()));
                desc.push_str(&format!(" @{at}:{}({:?})", if on { "enable" } else { "disable" }, kinds));
            }
            1 => {
                let auto = rng.chance(1, 3);
                let mut addrs: Vec<IpAddr> = Vec::new();
                if !auto {
                    for i in table.iter() {
                        for (a, _) in i.addrs.iter() {
                            if rng.chance(1, 2) {
                                addrs.push(*a);
                            }
                        }
                    }
                    if rng.chance(1, 4) {
                        addrs.push(FOREIGN.parse().unwrap());
                    }
                    if addrs.is_empty() {
                        addrs.push(table[0].addrs[0].0);
                    }
                }
                let ty = *rng.pick(&["_t._udp.local.", "_http._tcp.local."]);
                let mut reg = World::reg_info(ty, &format!("svc{s}"), &format!("h{s}.local."), &addrs, 2000 + s as u16, &[("k", Some(b"v"))]);
                reg.addr_auto = auto;
                reg.requires_probe = !rng.chance(1, 5);
                if w.register(h, reg.clone()) {
                    let idx = w.trace.entries.len() - 1;
                    let Ev::Api { call: ApiCall::Register(r), .. } = &w.trace.entries[idx].ev else { unreachable!() };
                    regs.push((idx, (**r).clone()));
                }
                desc.push_str(&format!(" @{at}:register{s}({})", if auto { "auto".to_string() } else { format!("{addrs:?}") }));
            }
            2 => {
                let what = edit_table(&mut rng, &mut table);
                if what != "none" {
                    w.set_ifs(h, table.clone(), what);
                    edits.push((w.now(), table.clone()));
                    desc.push_str(&format!(" @{at}:{what}"));
                }
            }
            _ => {
                let up: Vec<IfSpec> = table.iter().filter(|i| i.up).cloned().collect();
                if up.is_empty() {
                    continue;
                }
                let i = rng.pick(&up).clone();
                let v4 = if i.has_family(true) && i.has_family(false) { rng.chance(1, 2) } else { i.has_family(true) };
                let s = rng.usize(n_svcs);
                let mut q = Message::query();
                let inst = scen::wire_name(&format!("svc{s}._t._udp.local."));
                let qkind = rng.below(5);
                q.questions.push(match qkind {
                    0 => wire::question(&scen::wire_name("_t._udp.local."), wire::T_PTR),
                    1 => wire::question(&scen::wire_name("_http._tcp.local."), wire::T_PTR),
                    2 => wire::question(&inst, wire::T_ANY),
                    3 => wire::question(&scen::wire_name(&format!("h{s}.local.")), wire::T_ANY),
                    _ => wire::question(&scen::wire_name(&format!("h{s}.local.")), if v4 { wire::T_A } else { wire::T_AAAA }),
                });
                let qidx = w.trace.entries.len();
                w.inject_msg(h, i.index, peer_on(&i, v4), &q);
                w.settle();
                if qkind == 2 || qkind == 3 {
                    asked.push((qidx, w.now(), i.index, v4, s, qkind as u8));
                }
            }
        }
    }
    let horizon = t0 + t_end;
    w.run_until(horizon);
    MadeE { world: w, desc, calls, edits, regs, horizon, asked }
}

fn record_addr(r: &wire::Record) -> Option<IpAddr> {
    match &r.rdata {
        RData::A(a) => Some(IpAddr::from(*a)),
        RData::Aaaa(a) => Some(IpAddr::from(*a)),
        _ => None,
    }
}

pub fn monitor_e(made: &MadeE, l: &mut Local) {
    let trace = &made.world.trace;
    let txs = scen::tx_msgs(trace, 0);
    let in_flux = |t: u64| made.edits.iter().skip(1).any(|(te, _)| *te <= t && t < te + FLUX_MS);
    let model_at = |idx: usize| made.calls.iter().filter(|(i, _, _)| *i < idx).next_back().map(|(_, m, _)| m.clone()).unwrap_or_default();
    let table_at = |t: u64| &made.edits.iter().filter(|(te, _)| *te <= t).next_back().unwrap().1;
    // the enabled addresses of one interface (with prefix lengths)
    let enabled_on = |idx: usize, t: u64, ifi: u32| -> Vec<(IpAddr, u8)> {
        let m = model_at(idx);
        table_at(t)
            .iter()
            .filter(|i| i.index == ifi && i.up && !i.p2p)
            .flat_map(|i| i.addrs.iter().filter(|(a, _)| m.enabled(&AddrEntry { index: i.index, name: i.name.clone(), ip: *a })).cloned().collect::<Vec<_>>())
            .collect()
    };
    // the addresses a service has at a moment: its own, or (automatic) every enabled address of the host
    let svc_addrs = |reg: &RegInfo, idx: usize, t: u64| -> Vec<IpAddr> {
        if reg.addr_auto {
            model_at(idx).enabled_entries(table_at(t)).iter().map(|e| e.ip).collect()
        } else {
            reg.addrs.clone()
        }
    };
    for tx in txs.iter() {
        let Some(ifi) = tx.out_if else { continue };
        if in_flux(tx.t) {
            continue;
        }
        let here = enabled_on(tx.idx, tx.t, ifi);
        let in_subnet_here = |a: &IpAddr| here.iter().any(|(x, p)| same_subnet(x, *p, a));
        let kind = if tx.msg.is_query() { "probe" } else if tx.msg.records().all(|r| r.ttl == 0) { "goodbye" } else if tx.multicast && !scen::query_iters(trace, 0).contains(&tx.iter) { "announcement" } else { "answer" };
        for (ridx, reg) in made.regs.iter().filter(|(ridx, _)| *ridx < tx.idx) {
            let inst = scen::wire_name(&reg.fullname);
            let host = scen::wire_name(&reg.host);
            let mentions = tx.msg.records().any(|r| wire::names_eq_nocase(&r.name, &inst) || matches!(&r.rdata, RData::Ptr(t) if wire::names_eq_nocase(t, &inst)));
            let wit = || {
                json!({"scenario": made.desc, "service": reg.fullname, "service_addresses": svc_addrs(reg, tx.idx, tx.t).iter().map(|a| a.to_string()).collect::<Vec<_>>(),
                       "interface": ifi, "enabled_addresses_there": here.iter().map(|(a, p)| format!("{a}/{p}")).collect::<Vec<_>>(),
                       "packet": render_msg(tx.msg), "trace": scen::witness_window(trace, tx.t.saturating_sub(1500), tx.t, 30)})
            };
            let _ = ridx;
            if mentions {
                l.act("I1-link");
                if !svc_addrs(reg, tx.idx, tx.t).iter().any(in_subnet_here) {
                    l.violate(
                        Violation::new("I1", format!("I1/service-on-link-without-its-subnet/{kind}"), format!("a {kind} about {} left on interface #{ifi}, where the service has no address in any of the link's subnets", reg.fullname))
                            .with(wit()),
                    );
                    return;
                }
            }
            // addresses of the service's host: only those of this link, and only the service's own
            for r in tx.msg.records().filter(|r| wire::names_eq_nocase(&r.name, &host)) {
                let Some(a) = record_addr(r) else { continue };
                l.act("I1-addr");
                if !in_subnet_here(&a) {
                    l.violate(
                        Violation::new("I1", format!("I1/address-of-another-link-sent/{kind}"), format!("a {kind} on interface #{ifi} carries {a} for {}, an address outside the link's subnets", reg.host))
                            .with(wit()),
                    );
                    return;
                }
                if !svc_addrs(reg, tx.idx, tx.t).contains(&a) {
                    l.violate(
                        Violation::new(
                            "I2",
                            format!("I2/address-not-of-the-service/{}/{kind}", if reg.addr_auto { "automatic" } else { "explicit" }),
                            format!("a {kind} on interface #{ifi} carries {a} for {}, which is not (or no longer) an address of the service", reg.host),
                        )
                        .with(wit()),
                    );
                    return;
                }
            }
        }
    }
    // positive: a question about a service that has long been registered, on a link where it has an address of the
    // transport's family, with no edit or call in the last few seconds, is answered at once
    for (qidx, t, ifi, v4, sidx, qkind) in made.asked.iter() {
        let Some((ridx, reg)) = made.regs.iter().find(|(_, r)| r.instance == format!("svc{sidx}") && r.ty_only == "_t._udp.local.") else { continue };
        let t_reg = trace.entries[*ridx].t;
        let settled = |from: u64, to: u64| !made.edits.iter().skip(1).any(|(te, _)| te + FLUX_MS + 2700 > from && *te <= to) && !made.calls.iter().any(|(i, _, _)| trace.entries[*i].t + 2700 > from && trace.entries[*i].t <= to);
        if *t < t_reg + 2700 || !settled(*t, *t) || made.regs.iter().filter(|(_, r)| r.instance == reg.instance).count() != 1 {
            continue;
        }
        // (services sharing this one's host name with other addresses make "the" answer ambiguous: left to C06)
        if made.regs.iter().any(|(_, r)| r.host == reg.host && r.instance != reg.instance) {
            continue;
        }
        let here = enabled_on(*qidx, *t, *ifi);
        let fam_here: Vec<&(IpAddr, u8)> = here.iter().filter(|(a, _)| a.is_ipv4() == *v4).collect();
        let addrs = svc_addrs(reg, *qidx, *t);
        let eligible = if *qkind == 2 {
            // instance questions: an address of the transport's family in one of the link's subnets of that family
            addrs.iter().any(|a| a.is_ipv4() == *v4 && fam_here.iter().any(|(x, p)| same_subnet(x, *p, a)))
        } else {
            addrs.iter().any(|a| here.iter().any(|(x, p)| same_subnet(x, *p, a))) && !fam_here.is_empty()
        };
        if !eligible {
            continue;
        }
        // (an address that two interfaces hold at some time - the same link-local address on two links - is taken
        // from an automatic service when either of them goes: not judged here)
        let shared_somewhere = made.edits.iter().any(|(_, tab)| here.iter().any(|(a, _)| tab.iter().filter(|i| i.addrs.iter().any(|(x, _)| x == a)).count() > 1));
        if shared_somewhere {
            continue;
        }
        let inst = scen::wire_name(&reg.fullname);
        let host = scen::wire_name(&reg.host);
        // (only where the service has been announced, over that family: whether a service with explicit addresses
        // is taken to interfaces that are switched on after its registration is not what this rule is about)
        // (an announcement: the PTR and the SRV record in one packet, and not in the interval after a table edit in
        // which the daemon still sends from an address that has moved to another interface)
        let announced_there = txs.iter().any(|tx| {
            tx.out_if == Some(*ifi)
                && tx.v4 == *v4
                && tx.t >= t_reg
                && tx.t + 1100 < *t
                && tx.msg.is_response()
                && tx.multicast
                && tx.msg.answers.iter().any(|r| r.rtype == wire::T_SRV && r.ttl > 0 && wire::names_eq_nocase(&r.name, &inst))
                && tx.msg.answers.iter().any(|r| r.rtype == wire::T_PTR && r.ttl > 0 && matches!(&r.rdata, RData::Ptr(n) if wire::names_eq_nocase(n, &inst)))
                && !made.edits.iter().skip(1).any(|(te, _)| te + FLUX_MS > tx.t && *te <= tx.t)
        });
        if !announced_there {
            continue;
        }
        l.act("I1-answered");
        let answered = txs.iter().any(|tx| tx.idx > *qidx && tx.t == *t && tx.out_if == Some(*ifi) && tx.msg.is_response() && tx.msg.records().any(|r| wire::names_eq_nocase(&r.name, if *qkind == 2 { &inst } else { &host })));
        if !answered {
            l.violate(
                Violation::new("I1", format!("I1/question-unanswered-on-eligible-link/{}", if reg.addr_auto { "automatic" } else { "explicit" }), format!("a question for {} on interface #{ifi} over {} got no answer although the service has an address there and nothing had changed for seconds", if *qkind == 2 { &reg.fullname } else { &reg.host }, if *v4 { "IPv4" } else { "IPv6" }))
                    .with(json!({"scenario": made.desc, "service_addresses": addrs.iter().map(|a| a.to_string()).collect::<Vec<_>>(), "enabled_addresses_there": here.iter().map(|(a, p)| format!("{a}/{p}")).collect::<Vec<_>>(), "trace": scen::witness_window(trace, t.saturating_sub(3000), *t + 5, 40)})),
            );
            return;
        }
    }
    // positive: announced on every eligible enabled link soon after registration (no edit or call in between)
    for (ridx, reg) in made.regs.iter() {
        let t_reg = trace.entries[*ridx].t;
        let quiet = |from: u64, to: u64| !made.edits.iter().skip(1).any(|(te, _)| te + FLUX_MS > from && *te <= to) && !made.calls.iter().any(|(i, _, _)| trace.entries[*i].t >= from && trace.entries[*i].t <= to);
        let inst = scen::wire_name(&reg.fullname);
        let announced_on = |ifi: u32, from: u64, to: u64, with: Option<&IpAddr>| {
            txs.iter().any(|tx| {
                tx.out_if == Some(ifi)
                    && tx.t >= from
                    && tx.t <= to
                    && tx.msg.is_response()
                    && tx.multicast
                    && tx.msg.answers.iter().any(|r| r.rtype == wire::T_SRV && r.ttl > 0 && wire::names_eq_nocase(&r.name, &inst))
                    && with.is_none_or(|a| tx.msg.records().any(|r| record_addr(r) == Some(*a)))
            })
        };
        if quiet(t_reg.saturating_sub(FLUX_MS), t_reg + 2600) {
            let m = model_at(*ridx);
            let tab = table_at(t_reg);
            let ifs: BTreeSet<u32> = m.enabled_entries(tab).iter().map(|e| e.index).collect();
            for ifi in ifs {
                let here = enabled_on(*ridx, t_reg, ifi);
                if !svc_addrs(reg, *ridx, t_reg).iter().any(|a| here.iter().any(|(x, p)| same_subnet(x, *p, a))) {
                    continue;
                }
                l.act("I1-announced");
                if !announced_on(ifi, t_reg, t_reg + 2600, None) {
                    l.violate(
                        Violation::new("I1", "I1/not-announced-on-eligible-link", format!("{} was not announced on interface #{ifi} within 2.6 s although it has an address in that link's subnet", reg.fullname))
                            .with(json!({"scenario": made.desc, "trace": scen::witness_window(trace, t_reg, t_reg + 2600, 40)})),
                    );
                    return;
                }
            }
        }
        // I2: an automatic service follows an address that appears
        if reg.addr_auto {
            for (k, (te, tab)) in made.edits.iter().enumerate().skip(1) {
                if *te < t_reg + 2600 || !quiet(te + FLUX_MS, te + FLUX_MS + 2600) || te + FLUX_MS + 2600 > made.horizon {
                    continue;
                }
                let before: BTreeSet<AddrEntry> = model_at(*ridx + 1_000_000).enabled_entries(&made.edits[k - 1].1);
                let m = made.calls.iter().filter(|(i, _, _)| trace.entries[*i].t <= *te).next_back().map(|(_, m, _)| m.clone()).unwrap_or_default();
                let before: BTreeSet<AddrEntry> = { let _ = before; m.enabled_entries(&made.edits[k - 1].1) };
                let after = m.enabled_entries(tab);
                for e in after.difference(&before) {
                    // a wholly new (interface, address): the service must show up there with it
                    if before.iter().any(|b| b.ip == e.ip) {
                        continue; // moved: the old owner may still be settling
                    }
                    l.act("I2-follows");
                    if !announced_on(e.index, *te, te + FLUX_MS + 2600, Some(&e.ip)) {
                        // (one history is a listed finding: the address came up together with another address of the same
                        // interface that the service had held before - an interface that returns renumbered in one family)
                        let next_to_known = after.difference(&before).any(|o| o.index == e.index && o.ip != e.ip && made.edits[..k].iter().any(|(_, t)| t.iter().any(|i| i.addrs.iter().any(|(a, _)| *a == o.ip))));
                        l.violate(
                            Violation::new("I2", format!("I2/automatic-service-not-announced-with-new-address{}", if next_to_known { "/appeared-next-to-an-address-held-before" } else { "" }), format!("{} (automatic addresses) was not announced with {} on interface #{} after that address appeared", reg.fullname, e.ip, e.index))
                                .with(json!({"scenario": made.desc, "trace": scen::witness_window(trace, *te, te + FLUX_MS + 2600, 40)})),
                        );
                        return;
                    }
                }
            }
        }
    }
}

pub fn run_e(seed: u64, l: &mut Local) {
    let made = scenario_e(seed);
    l.evaluations += 1;
    l.count("daemon_iterations", made.world.total_iterations);
    if made.world.trace.deaths().any(|d| matches!(d.ev, Ev::Death { panicked: true, .. })) {
        l.inconclusive.push(format!("daemon died in a C18 scenario (seed {seed})"));
        return;
    }
    let shape: Vec<String> = made.desc.split(" @").skip(1).map(|s| s.split(':').nth(1).unwrap_or("").split('(').next().unwrap_or("").to_string()).collect();
    l.distinct.insert(util::fnv_str(&format!("E|{shape:?}")));
    if l.samples.len() < 2 {
        l.samples.push(json!({"scenario": made.desc}));
    }
    monitor_e(&made, l);
}

// ---------------------------------------------------------------------------
// Part P: what was learned on an interface that disappears or is disabled

#[derive(Clone, Debug)]
pub enum Loss {
    /// The interface leaves the table (removed, down, or all its addresses gone).
    Gone(&'static str),
    /// A selection call switches off these (interface, is-IPv4) pairs.
    Disabled(Vec<Kind>, Vec<(u32, bool)>),
}

pub struct MadeP {
    pub world: World,
    pub desc: String,
    pub loss: Loss,
    pub t_loss: u64,
    pub idx_loss: usize,
    pub chans: Vec<usize>,
    pub host_chan: Option<usize>,
    /// every address delivered: (instance label, address, interface, over IPv4)
    pub learned: Vec<(String, IpAddr, u32, bool)>,
    /// instance label -> interfaces its PTR was delivered on
    pub ptr_on: Vec<(String, Vec<u32>)>,
    pub horizon: u64,
    pub final_snapshot: Option<mdns_sd::verif::Snapshot>,
    /// The interface that goes (Gone) or is switched off (Disabled: always eth1).
    pub lost: u32,
    /// Gone cases, sometimes: the other of eth0 / eth1 goes as well, later: (time, trace index, snapshot at the end).
    pub second_loss: Option<(u64, usize, Option<mdns_sd::verif::Snapshot>)>,
}

fn p_table() -> Vec<IfSpec> {
    vec![
        IfSpec::new("eth0", 2, 0, &[("10.0.0.5", 24), ("fe80::5", 64)]),
        IfSpec::new("eth1", 3, 1, &[("192.168.1.5", 24), ("fd00:1::5", 64), ("fe80::6", 64)]),
    ]
}

pub fn scenario_p(seed: u64) -> MadeP {
    let mut rng = Rng::new(seed);
    let mut w = World::new(seed);
    w.set_stepping(Stepping::Lazy);
    let mut table = p_table();
    // sometimes eth1 has IPv4 only: what its peers say about their IPv6 addresses reaches us over IPv4 then, and
    // is learned on eth1 like everything else that arrives there
    let v4_only_eth1 = rng.chance(1, 4);
    if v4_only_eth1 {
        table[1] = IfSpec::new("eth1", 3, 1, &[("192.168.1.5", 24)]);
    }
    if rng.chance(1, 3) {
        table.push(IfSpec::new("wlan0", 4, 2, &[("10.4.0.5", 24)]));
    }
    let h = w.add_host(table.clone());
    let t0 = w.now();
    w.set_ip_check_interval(h, CHECK_S);
    let ty = crate::props::browser::TY;
    let mut chans = Vec::new();
    chans.extend(w.browse(h, ty));
    w.run_until(t0 + 5600);
    let mut learned: Vec<(String, IpAddr, u32, bool)> = Vec::new();
    let mut ptr_on: Vec<(String, Vec<u32>)> = Vec::new();
    // what each peer says where: (label, interface, over v4, addresses)
    let v6 = |s: &str| -> [u8; 16] { s.parse::<std::net::Ipv6Addr>().unwrap().octets() };
    let plan: Vec<(&str, u32, bool, Vec<[u8; 4]>, Vec<[u8; 16]>)> = vec![
        ("insta", 2, true, vec![[10, 0, 0, 80]], vec![]),
        ("instb", 3, true, vec![[192, 168, 1, 81]], vec![]),
        ("instb", 3, false, vec![], vec![v6("fd00:1::81")]),
        ("instc", 2, true, vec![[10, 0, 0, 82]], vec![]),
        ("instc", 2, false, vec![], vec![v6("fe80::82")]),
        ("instc", 3, true, vec![[192, 168, 1, 82]], vec![]),
        ("instc", 3, false, vec![], vec![v6("fd00:1::82"), v6("fe80::82")]),
    ];
    let mixed_case = rng.chance(1, 2);
    let mut order: Vec<usize> = (0..plan.len()).collect();
    rng.shuffle(&mut order);
    for k in order {
        let (label, ifi, over4, a4, a6) = &plan[k];
        let over4 = &(*over4 || (v4_only_eth1 && *ifi == 3));
        // (host names in the letter case their owners chose; address records may spell them differently again)
        let host_spelling = if mixed_case { format!("{}{}-Host.local", label[..1].to_uppercase(), &label[1..]) } else { format!("{label}-host.local") };
        let mut s = Svc::new(ty, label, &host_spelling, [0, 0, 0, 0]);
        s.v4 = a4.clone();
        s.v6 = a6.clone();
        let spec = table.iter().find(|i| i.index == *ifi).unwrap().clone();
        w.inject_msg(h, *ifi, peer_on(&spec, *over4), &s.announce());
        w.run_for(20 + rng.below(400));
        for a in a4 {
            learned.push((label.to_string(), IpAddr::from(*a), *ifi, *over4));
        }
        for a in a6 {
            learned.push((label.to_string(), IpAddr::from(*a), *ifi, *over4));
        }
        match ptr_on.iter_mut().find(|(l, _)| l == label) {
            Some((_, v)) => {
                if !v.contains(ifi) {
                    v.push(*ifi)
                }
            }
            None => ptr_on.push((label.to_string(), vec![*ifi])),
        }
    }
    let host_chan = if rng.chance(1, 2) { w.resolve_hostname(h, "instc-host.local.", None) } else { None };
    w.run_for(1500 + rng.below(1500));
    // the loss
    let lost: u32 = if rng.chance(1, 2) { 3 } else { 2 };
    let loss = match rng.below(9) {
        0 => {
            table.retain(|i| i.index != lost);
            Loss::Gone("interface-removed")
        }
        1 => {
            table.iter_mut().find(|i| i.index == lost).unwrap().up = false;
            Loss::Gone("interface-down")
        }
        2 => Loss::Disabled(vec![Kind::Name("eth1".into())], vec![(3, true), (3, false)]),
        3 => Loss::Disabled(vec![Kind::IndexV4(3), Kind::IndexV6(3)], vec![(3, true), (3, false)]),
        4 => Loss::Disabled(vec![Kind::Addr("192.168.1.5".parse().unwrap())], vec![(3, true)]),
        5 => Loss::Disabled(vec![Kind::IndexV6(3)], vec![(3, false)]),
        6 => Loss::Disabled(vec![Kind::V6], vec![(2, false), (3, false)]),
        7 => Loss::Disabled(vec![Kind::Addr("fd00:1::5".parse().unwrap())], vec![(3, false)]),
        _ => Loss::Disabled(vec![Kind::Pred(1)], vec![(3, true), (3, false), (4, true)]),
    };
    let t_loss = w.now();
    let idx_loss;
    let settle_ms;
    match &loss {
        Loss::Gone(what) => {
            w.set_ifs(h, table.clone(), what);
            idx_loss = w.trace.entries.len() - 1;
            settle_ms = FLUX_MS;
        }
        Loss::Disabled(kinds, _) => {
            w.disable_interface(h, kinds.iter().map(|k| k.to_ifkind()).collect());
            idx_loss = w.trace.entries.len() - 1;
            w.settle();
            settle_ms = 0;
        }
    }
    // (with IPv4 only on eth1, switching off its one address or the interface by name takes everything learned there)
    let loss = match loss {
        Loss::Disabled(kinds, _) if v4_only_eth1 && matches!(kinds[0], Kind::Name(_) | Kind::Addr(_)) && !matches!(&kinds[0], Kind::Addr(a) if a.is_ipv6()) => Loss::Disabled(kinds, vec![(3, true)]),
        other => other,
    };
    let lost = if matches!(loss, Loss::Gone(_)) { lost } else { 3 };
    let surviving = if lost == 3 { 2 } else { 3 };
    let desc = format!("interfaces={} eth1-ipv4-only={v4_only_eth1} loss={:?} of #{lost} hostname-search={} mixed-case-hosts={mixed_case}", table.len(), loss, host_chan.is_some());
    w.run_for(settle_ms + 200 + rng.below(600));
    // later events: a second search (answered from the cache), a changed TXT of instc on the surviving link, a host name search
    chans.extend(w.browse(h, ty));
    w.run_for(300 + rng.below(500));
    let mut s = Svc::new(ty, "instc", "instc-host.local", [0, 0, 0, 0]);
    s.txt = wire::txt_encode(&[(b"k".to_vec(), Some(b"changed".to_vec()))]);
    let mut m = Message::response();
    m.answers.push(s.txt());
    let spec0 = table.iter().find(|i| i.index == surviving).unwrap().clone();
    w.inject_msg(h, surviving, peer_on(&spec0, true), &m);
    w.run_for(300 + rng.below(500));
    let late_host_chan = w.resolve_hostname(h, "instc-host.local.", None);
    let horizon = w.now() + 2500;
    w.run_until(horizon);
    let final_snapshot = w.snapshot(h);
    // sometimes the other interface goes as well: then nothing of what was learned is left
    let mut second_loss = None;
    if matches!(loss, Loss::Gone(_)) && rng.chance(1, 2) {
        if rng.chance(1, 2) {
            table.retain(|i| i.index != surviving);
        } else {
            table.iter_mut().find(|i| i.index == surviving).unwrap().up = false;
        }
        let t2 = w.now();
        w.set_ifs(h, table.clone(), "second-interface-gone");
        let idx2 = w.trace.entries.len() - 1;
        w.run_for(FLUX_MS + 300 + rng.below(500));
        second_loss = Some((t2, idx2, w.snapshot(h)));
    }
    MadeP { world: w, desc, loss, t_loss, idx_loss, chans, host_chan: late_host_chan.or(host_chan), learned, ptr_on, horizon, final_snapshot, lost, second_loss }
}

pub fn monitor_p(made: &MadeP, l: &mut Local) {
    let trace = &made.world.trace;
    let ty = crate::props::browser::TY;
    let full = |label: &str| format!("{label}.{ty}");
    // what must no longer be reported: (address, interface) pairs learned on the lost links
    let lost_link = |ifi: u32, over4: bool| match &made.loss {
        Loss::Gone(_) => ifi == made.lost,
        Loss::Disabled(_, links) => links.contains(&(ifi, over4)),
    };
    let (t_judge, what) = match &made.loss {
        Loss::Gone(w) => (made.t_loss + FLUX_MS, *w),
        Loss::Disabled(..) => (made.t_loss, "disabled"),
    };
    let class = match &made.loss {
        Loss::Gone(w) => w.to_string(),
        Loss::Disabled(kinds, _) => format!("disable-{}", kinds.iter().map(|k| k.label()).collect::<Vec<_>>().join("+")),
    };
    let wit = || json!({"scenario": made.desc, "learned": made.learned.iter().map(|(l, a, i, v4)| format!("{l}: {a} on #{i} over {}", if *v4 { "IPv4" } else { "IPv6" })).collect::<Vec<_>>(),
                        "trace": scen::witness_window(trace, made.t_loss.saturating_sub(10), made.horizon, 60)});
    // I5 (and the address half of I4): later events list nothing learned on the lost links
    for (k, e) in trace.entries.iter().enumerate().skip(made.idx_loss + 1) {
        if e.t < t_judge {
            continue;
        }
        let Ev::Obs { obs, .. } = &e.ev else { continue };
        let (label, listed): (String, Vec<(IpAddr, Vec<u32>)>) = match obs {
            Obs::Resolved(r) => (r.fullname.split('.').next().unwrap_or("").to_string(), resolved_addrs(r)),
            Obs::AddrFound(name, set) => (name.split('-').next().unwrap_or("").to_lowercase(), set.clone()),
            _ => continue,
        };
        let _ = k;
        for (ip, ifs) in listed.iter() {
            l.act("I5");
            // every way this address of this instance was learned
            let ways: Vec<&(String, IpAddr, u32, bool)> = made.learned.iter().filter(|(lb, a, _, _)| *lb == label && a == ip).collect();
            if ways.is_empty() {
                continue;
            }
            let surviving: Vec<u32> = ways.iter().filter(|(_, _, i, v4)| !lost_link(*i, *v4)).map(|(_, _, i, _)| *i).collect();
            let bad = if surviving.is_empty() {
                true
            } else {
                // scoped addresses name the interfaces they are valid on
                !ifs.is_empty() && ifs.iter().any(|i| !surviving.contains(i))
            };
            if bad {
                l.violate(
                    Violation::new(
                        if matches!(made.loss, Loss::Gone(_)) { "I4" } else { "I5" },
                        format!("{}/address-learned-on-lost-link-still-reported/{class}", if matches!(made.loss, Loss::Gone(_)) { "I4" } else { "I5" }),
                        format!("after {what}, an event for {label} still lists {ip} (interfaces {ifs:?}), learned only on the link that is gone or off"),
                    )
                    .with(wit()),
                );
                return;
            }
        }
    }
    if let Loss::Gone(_) = &made.loss {
        let deadline = made.t_loss + FLUX_MS + 100;
        // I4a: instances whose PTR was learned only there are reported removed; others are not
        for (label, ifs) in made.ptr_on.iter() {
            let removed = trace.entries.iter().skip(made.idx_loss).any(|e| e.t <= deadline && matches!(&e.ev, Ev::Obs { chan, obs: Obs::Removed(_, name) } if *chan == made.chans[0] && name.eq_ignore_ascii_case(&full(label))));
            l.act("I4-removed");
            let only_there = ifs.iter().all(|i| *i == made.lost);
            if only_there && !removed {
                l.violate(Violation::new("I4", format!("I4/no-ServiceRemoved-for-instance-learned-only-there/{class}"), format!("{label} was learned only on the interface that disappeared but was not reported removed")).with(wit()));
                return;
            }
            if !only_there && removed {
                l.violate(Violation::new("I4", format!("I4/ServiceRemoved-for-instance-known-elsewhere/{class}"), format!("{label} is still known on another interface but was reported removed")).with(wit()));
                return;
            }
        }
        // I4b: instc lost records but not its PTR: resolved again with what is left
        l.act("I4-reresolved");
        let left: BTreeSet<IpAddr> = made.learned.iter().filter(|(lb, _, i, _)| lb == "instc" && *i != made.lost).map(|(_, a, _, _)| *a).collect();
        let again: Vec<BTreeSet<IpAddr>> = trace
            .entries
            .iter()
            .skip(made.idx_loss)
            .filter(|e| e.t <= deadline)
            .filter_map(|e| match &e.ev {
                Ev::Obs { chan, obs: Obs::Resolved(r) } if *chan == made.chans[0] && r.fullname.eq_ignore_ascii_case(&full("instc")) => Some(resolved_addrs(r).into_iter().map(|(a, _)| a).collect()),
                _ => None,
            })
            .collect();
        match again.last() {
            None => {
                l.violate(Violation::new("I4", format!("I4/not-resolved-again-with-what-is-left/{class}"), "instc lost the records learned on the interface that disappeared but no new ServiceResolved was sent").with(wit()));
                return;
            }
            Some(set) if *set != left => {
                l.violate(Violation::new("I4", format!("I4/resolved-again-with-wrong-addresses/{class}"), format!("instc was resolved again with {set:?}, what is left is {left:?}")).with(wit()));
                return;
            }
            _ => {}
        }
        // I4c: hooked state: nothing learned on the interface is left in the cache
        if let Some(snap) = made.final_snapshot.as_ref() {
            l.act("I4-cache");
            if let Some(r) = snap.cache_records.iter().find(|r| r.if_index == made.lost) {
                l.violate(Violation::new("I4", format!("I4/record-of-lost-interface-still-cached/{class}"), format!("the cache still holds {} (type {}) learned on the interface that disappeared", r.name, r.ty)).with(wit()));
                return;
            }
        }
        // I4d: the other interface went as well: every instance is reported removed, nothing of either is cached
        if let Some((t2, idx2, snap2)) = made.second_loss.as_ref() {
            l.act("I4-second-loss");
            let wit2 = || json!({"scenario": made.desc, "trace": scen::witness_window(trace, t2.saturating_sub(10), t2 + FLUX_MS + 800, 60)});
            for (label, _) in made.ptr_on.iter() {
                let removed = trace.entries.iter().skip(made.idx_loss).any(|e| matches!(&e.ev, Ev::Obs { chan, obs: Obs::Removed(_, name) } if made.chans.contains(chan) && name.eq_ignore_ascii_case(&full(label))));
                if !removed {
                    l.violate(Violation::new("I4", format!("I4/no-ServiceRemoved-after-the-last-interface-went/{class}"), format!("both interfaces {label} was learned on are gone, yet it was never reported removed")).with(wit2()));
                    return;
                }
            }
            let _ = idx2;
            if let Some(snap) = snap2.as_ref() {
                if let Some(r) = snap.cache_records.iter().find(|r| r.if_index == 2 || r.if_index == 3) {
                    l.violate(Violation::new("I4", format!("I4/record-still-cached-after-the-last-interface-went/{class}"), format!("the cache still holds {} (type {}, tagged #{}) although every interface it was learned on is gone", r.name, r.ty, r.if_index)).with(wit2()));
                }
            }
        }
    }
}

pub fn run_p(seed: u64, l: &mut Local) {
    let made = scenario_p(seed);
    l.evaluations += 1;
    l.count("daemon_iterations", made.world.total_iterations);
    if made.world.trace.deaths().any(|d| matches!(d.ev, Ev::Death { panicked: true, .. })) {
        l.inconclusive.push(format!("daemon died in a C18 scenario (seed {seed})"));
        return;
    }
    l.distinct.insert(util::fnv_str(&format!("P|{:?}|{}|{}|{}", made.loss, made.host_chan.is_some(), made.lost, made.second_loss.is_some())));
    monitor_p(&made, l);
}

pub fn run(report: &Report, tier: &Tier) {
    report.set_rule(
        "part S: 1..4 interfaces (v4/v6/both, two IPv4 subnets on one interface, optional loopback) x 1..6 operations drawn from enable/disable with \
         1..2 kinds of {All, IPv4, IPv6, Name, Addr (present, absent, appearing later), LoopbackV4/V6, IndexV4/V6, Predicate x4} and table edits \
         {address added / removed / moved, interface down / up / added / removed}; after each operation a checkpoint (daemon interface set from \
         the hooked state; a fresh search's first query on the wire) and announcements injected on every link, on or off. part E: the same topologies \
         and operations around 1..3 registrations with explicit addresses (subsets of the host's, sometimes a foreign one) or automatic addresses, \
         10..29 questions injected on any link; every packet judged by link, subnet and address set. part P: a browser on two or three interfaces learns \
         instances on one, the other or both (IPv4 and IPv6, one address known on both); then eth1 (or, removed / down, eth0) is removed / down / disabled by Name, IndexV4+IndexV6, \
         Addr, IndexV6, IPv6 or Predicate; a second browse, a TXT update and a host-name search force later events; in half of the removed / down cases the other interface goes too; distinct by operation sequence / loss kind",
    );
    for r in ["I3-state", "I3-wire", "I3-egress", "I3-ingress", "I1-link", "I1-addr", "I1-announced", "I2-follows", "I4-removed", "I4-reresolved", "I4-cache", "I5"] {
        report.floor(r, 50);
    }
    report.floor("I4-second-loss", 20);
    report.assume("nothing is judged for one interface-check interval after an edit of the interface table (the daemon cannot know yet)");
    report.assume("a family with an address of the service in the link's subnet is what 'an address in the same subnet' means per packet; link-local IPv6 prefixes are the same subnet on every link");
    let seed = report.seed;
    let n: u64 = if tier.thorough { 900_000 } else { 3_000 };
    run_parallel(report, n, threads(), tier.budget_s, |i, l| match i % 3 {
        0 => run_s(util::mix(seed, 0xC18_0000 + i), l),
        1 => run_e(util::mix(seed, 0xC18_0000 + i), l),
        _ => run_p(util::mix(seed, 0xC18_0000 + i), l),
    });
    let _ = (Message::query(), RData::Raw(vec![]));
}
