//! C04 — everything advertised for a browsed type is found and resolved.
//!
//! F1 when the records describing an instance (PTR, SRV, TXT, an address) have all been
//!    delivered — in any order, split over any packets, duplicated, mixed with foreign
//!    records — ServiceFound then ServiceResolved are on the channel at that very instant
//!    (no clock advance), with content that passes C03's rules.
//! F2 with only the PTR delivered the daemon asks for the rest itself: first question
//!    within 500 ms, 500 ms apart, at most three; resolved as soon as answered.
//! F3 the reported full name is the registered one (escaped or plain spelling).

use crate::gen;
use crate::model::Hist;
use crate::props::browser;
use crate::props::c03;
use crate::report::{run_parallel, threads, Local, Report, Violation};
use crate::scen::{self, Svc};
use crate::util::{self, Rng};
use crate::wire::{self, Message, Name, Record};
use crate::world::*;
use crate::Tier;
use serde_json::json;

pub struct Made {
    pub inner: browser::Made,
    /// Per service: follow-up answering mode (None = all records pushed by the responder).
    pub follow: Vec<Option<u32>>,
    pub case_differs: Vec<bool>,
    pub plain_names: Vec<bool>,
    /// The services carry a subtype although the parent type is what is browsed.
    pub sub_unbrowsed: bool,
}

/// Enumerates the ways to split `n` items (already ordered) into up to `k` non-empty consecutive groups.
fn splits(n: usize, k: usize) -> Vec<Vec<usize>> {
    // each split is a list of cut positions
    let mut out = vec![vec![]];
    if n <= 1 {
        return out;
    }
    let positions: Vec<usize> = (1..n).collect();
    for mask in 1u32..(1 << positions.len()) {
        if (mask.count_ones() as usize) < k {
            out.push(positions.iter().enumerate().filter(|(i, _)| mask & (1 << i) != 0).map(|(_, p)| *p).collect());
        }
    }
    out
}

fn permutation(n: usize, mut idx: u64) -> Vec<usize> {
    let mut items: Vec<usize> = (0..n).collect();
    let mut out = Vec::with_capacity(n);
    for i in (1..=n).rev() {
        let k = (idx % i as u64) as usize;
        idx /= i as u64;
        out.push(items.remove(k));
    }
    out
}

fn factorial(n: usize) -> u64 {
    (1..=n as u64).product()
}

fn hostile_but_encodable_label(rng: &mut Rng) -> String {
    loop {
        let max = if rng.chance(1, 4) { 63 } else { 20 };
        let s = gen::utf8_label(rng, max);
        // a trailing backslash or an escape-looking sequence changes the name on re-encoding: C15's business
        if !s.ends_with('\\') && !s.contains("\\.") && !s.contains("\\\\") && !s.starts_with('.') && !s.ends_with('.') && !s.contains("..") {
            return s;
        }
    }
}

/// An earlier search for the same type, replaced by or stopped before the one that is judged.
pub fn earlier_searches(w: &mut World, h: usize, ty: &str, kind: u64, rng: &mut Rng) {
    match kind {
        1 => {
            w.browse_cache(h, ty);
        }
        2 => {
            w.browse_cache(h, ty);
            w.run_for(rng.below(1500));
            w.stop_browse(h, ty);
        }
        3 => {
            w.browse(h, ty);
            w.run_for(rng.below(1500));
            w.stop_browse(h, ty);
        }
        4 => {
            w.browse(h, ty);
        }
        _ => return,
    }
    w.run_for(rng.below(1500));
}

pub fn scenario(seed: u64, enumerated: Option<(u64, u64)>) -> Made {
    let mut rng = Rng::new(seed);
    let mut w = World::new(seed);
    w.set_stepping(if rng.chance(1, 4) { Stepping::Eager(10) } else { Stepping::Lazy });
    let dual = enumerated.is_none() && rng.chance(1, 4);
    let h = w.add_host(if dual { scen::single_dual() } else { scen::single_v4() });
    let t0 = w.now();
    w.set_ip_check_interval(h, 3600);
    let with_sub = enumerated.is_none() && rng.chance(1, 5);
    // the services have a subtype, but the parent type is what is browsed (their announcements list both PTRs)
    let sub_unbrowsed = !with_sub && (enumerated.is_none() && rng.chance(1, 4) || enumerated.is_some_and(|(a, _)| a % 3 == 1));
    let browsed = if with_sub { "_sub1._sub._t._udp.local." } else { browser::TY };
    // what the application did with the type before: nothing, or an earlier (cache-only) browse, stopped or simply replaced
    let before = if enumerated.is_none() { rng.below(8) } else { enumerated.map_or(0, |(a, _)| if a % 5 == 2 { 1 + a % 4 } else { 0 }) };
    earlier_searches(&mut w, h, browsed, before, &mut rng);
    let browse_chan = w.browse(h, browsed);
    let n_svcs = if enumerated.is_some() { 1 } else { 1 + rng.usize(3) };
    let mut svcs = Vec::new();
    let mut follow = Vec::new();
    let mut case_differs = Vec::new();
    let mut plain_names = Vec::new();
    for i in 0..n_svcs {
        let plain = enumerated.is_some() || rng.chance(1, 2);
        let label = if plain {
            format!("inst{i}")
        } else {
            // distinct instances need distinct names
            let mut s = hostile_but_encodable_label(&mut rng);
            while s.len() > 61 {
                s.pop();
            }
            format!("{i}{s}")
        };
        let host = format!("Host{i}.local");
        let mut s = Svc::new(browser::TY, &label, &host, [10, 0, 0, 30 + i as u8]);
        if with_sub || sub_unbrowsed {
            s.subtype = Some(wire::name("_sub1._sub._t._udp.local"));
        }
        if enumerated.is_none() && rng.chance(1, 3) {
            s.v4.push([10, 0, 0, 130 + i as u8]);
        }
        if dual && rng.chance(1, 2) {
            s.v6.push([0xfe, 0x80, 0, 0, 0, 0, 0, 0, 0, 0, 0, 0, 0, 0, 0, 0x30 + i as u8]);
        }
        s.port = 7000 + i as u16;
        s.txt = wire::txt_encode(&[(b"n".to_vec(), Some(vec![b'0' + i as u8]))]);
        svcs.push(s);
        follow.push(if enumerated.is_none() && rng.chance(1, 3) { Some(rng.below(4) as u32) } else { None });
        case_differs.push(enumerated.is_none() && rng.chance(1, 6));
        plain_names.push(plain);
    }
    let mut desc = format!("{:?} dual={dual} sub={with_sub} sub_unbrowsed={sub_unbrowsed} svcs={n_svcs}", w.stepping);
    w.run_for(rng.below(700));
    let src = scen::peer4(30);
    let foreign = |rng: &mut Rng| -> Record {
        match rng.below(3) {
            0 => wire::a(&wire::name("stranger.local"), 120, [10, 0, 0, 99]),
            1 => wire::srv(&wire::name("other._t._udp.local"), 120, 1, &wire::name("stranger.local")),
            _ => wire::txt(&wire::name("other._t._udp.local"), 4500, vec![0]),
        }
    };
    for (i, s) in svcs.iter().enumerate() {
        // the record set (address owners optionally spelled in another case than the SRV target)
        let mut recs = s.records();
        if case_differs[i] {
            let lower: Name = wire::lower(&s.host);
            for r in recs.iter_mut() {
                if r.rtype == wire::T_A || r.rtype == wire::T_AAAA {
                    r.name = lower.clone();
                }
            }
        }
        if let Some(answer_on_try) = follow[i] {
            // only the PTR (and sometimes the SRV/TXT) is pushed; the rest comes when the daemon asks
            let mut m = Message::response();
            m.answers.push(s.ptr());
            if let Some(sp) = s.sub_ptr() {
                m.answers.push(sp);
            }
            let srv_too = rng.chance(1, 3);
            if srv_too {
                m.answers.push(s.srv());
                m.answers.push(s.txt());
            }
            w.inject_msg(h, 2, src, &m);
            let t_ptr = w.now();
            desc.push_str(&format!(" svc{i}:ptr-only(srv_too={srv_too},answer_try={answer_on_try})"));
            // answer the `answer_on_try`-th follow-up (0 = never)
            let mut seen = w.trace.entries.len();
            let mut tries = 0u32;
            let inst = s.inst.clone();
            let host_n = s.host.clone();
            let rest: Vec<Record> = recs.iter().filter(|r| r.rtype != wire::T_PTR).cloned().collect();
            let mut cb = |w: &mut World| -> bool {
                let n = w.trace.entries.len();
                let mut hit = false;
                for e in w.trace.entries[seen..n].iter() {
                    if let Ev::Tx(tx) = &e.ev {
                        if let Ok(m) = &tx.msg {
                            if tx.v4 && m.is_query() && (scen::has_question(m, &inst, wire::T_ANY) || scen::has_question(m, &host_n, wire::T_A)) {
                                tries += 1;
                                if tries == answer_on_try {
                                    hit = true;
                                }
                            }
                        }
                    }
                }
                seen = n;
                if hit {
                    let mut r = Message::response();
                    r.answers = rest.clone();
                    w.inject_msg(0, 2, scen::peer4(30), &r);
                }
                hit
            };
            w.run_until_cb(t_ptr + 2600, &mut cb);
            continue;
        }
        // pushed by the responder: order and split
        let n = recs.len();
        let (perm_idx, split_idx) = match enumerated {
            Some((p, s)) => (p, s),
            None => (rng.below(factorial(n.min(8))), rng.u64()),
        };
        let perm = permutation(n, perm_idx % factorial(n));
        let ordered: Vec<Record> = perm.iter().map(|k| recs[*k].clone()).collect();
        let all_splits = splits(n, 4);
        let cuts = &all_splits[(split_idx % all_splits.len() as u64) as usize];
        let mut groups: Vec<Vec<Record>> = Vec::new();
        let mut start = 0;
        for c in cuts.iter().chain(std::iter::once(&n)) {
            groups.push(ordered[start..*c].to_vec());
            start = *c;
        }
        desc.push_str(&format!(" svc{i}:push(perm={:?},cuts={:?},case_differs={})", perm, cuts, case_differs[i]));
        for g in groups {
            let mut m = Message::response();
            for r in g {
                // While a subtype is browsed, a packet whose PTR answers are all for the parent type is
                // "solely an answer to someone else's browse of another type": the parent PTR travels as
                // an additional (as a responder answering the subtype question sends it).
                let parent_ptr = with_sub && r.rtype == wire::T_PTR && wire::names_eq_exact(&r.name, &s.ty);
                if rng.chance(1, 2) && !parent_ptr {
                    m.answers.push(r);
                } else {
                    // additionals are read like answers; but a packet whose only PTR answers are foreign is "not for us"
                    m.additionals.push(r);
                }
                if enumerated.is_none() && rng.chance(1, 5) {
                    m.additionals.push(foreign(&mut rng));
                }
            }
            // PTR records of types nobody browses, in the answer section: a responder announcing two types at once, or the
            // subtype PTR of an announcement while the parent type is browsed. One PTR answer of the browsed type makes the
            // packet ours wherever it stands; a packet whose PTR answers are all foreign is "someone else's" and is kept out.
            let browsed_name: Name = if with_sub { s.subtype.clone().unwrap() } else { s.ty.clone() };
            let ours_in_answers = m.answers.iter().any(|r| r.rtype == wire::T_PTR && wire::names_eq_exact(&r.name, &browsed_name));
            if !ours_in_answers {
                m.answers.retain(|r| r.rtype != wire::T_PTR || wire::names_eq_exact(&r.name, &browsed_name));
            } else if enumerated.is_none() && rng.chance(1, 3) {
                let stranger = wire::ptr(&wire::name("_other._udp.local"), 4500, &wire::name("thing._other._udp.local"));
                let at = rng.usize(m.answers.len() + 1);
                m.answers.insert(at, stranger);
            }
            if enumerated.is_none() && rng.chance(1, 5) {
                // a record the daemon has no use for (HINFO) or does not know (HTTPS) rides along, often as the very last
                let extra = if rng.chance(1, 2) {
                    wire::rec(&wire::name("rider.local"), 13, 1, 120, wire::RData::Raw(vec![3, b'x', b'8', b'6', 5, b'L', b'i', b'n', b'u', b'x']))
                } else {
                    wire::rec(&wire::name("rider.local"), 65, 1, 120, wire::RData::Raw(vec![0, 1, 0, 0, 1, 0, 3, 2, b'h', b'2']))
                };
                if rng.chance(1, 2) {
                    m.additionals.push(extra);
                } else {
                    let at = rng.usize(m.answers.len() + 1);
                    m.answers.insert(at, extra);
                }
            }
            if enumerated.is_none() && rng.chance(1, 6) {
                // a duplicate of the same packet
                w.inject_msg(h, 2, src, &m);
            }
            w.inject_msg(h, 2, src, &m);
            if rng.chance(1, 2) {
                w.run_for(rng.below(300));
            }
        }
    }
    let horizon = w.now() + 4000;
    w.run_until(horizon);
    let _ = t0;
    Made {
        inner: browser::Made { world: w, horizon, desc, svcs, policy: browser::Policy::Never, browse_chan, host_chans: vec![], verifies: vec![] },
        follow,
        case_differs,
        plain_names,
        sub_unbrowsed,
    }
}

pub fn monitor(made: &Made, l: &mut Local) {
    let inner = &made.inner;
    let trace = &inner.world.trace;
    let Some(chan) = inner.browse_chan else { return };
    let hist = Hist::build(trace, 0, &[]);
    let sl = c03::slack(inner.world.stepping);
    let obs: Vec<(u64, u64, &Obs)> = trace.obs(chan).map(|(e, o)| (e.t, e.iter, o)).collect();
    // everything the channel shows must also be admissible (C03's rules)
    let mut l3 = Local::default();
    c03::monitor_c03(inner, &mut l3);
    l.act_n("F1-content", l3.activations.get("S1").copied().unwrap_or(0));
    for v in l3.violations {
        l.violate(Violation::new("F1", format!("F1/content/{}", v.signature), v.message).with(v.witness));
    }
    for (i, s) in inner.svcs.iter().enumerate() {
        let wit = |at: u64| json!({"scenario": inner.desc, "instance": wire::escaped(&s.inst), "at_ms": at - EPOCH, "trace": scen::witness_window(trace, at.saturating_sub(2000), at + 2000, 60)});
        let plain_spelling = wire::dotted(&s.inst);
        let escaped_spelling = wire::escaped(&s.inst);
        let is_me = |name: &str| name == plain_spelling || name == escaped_spelling;
        // when is the instance complete? (lives by the model; host compared case-insensitively)
        let browsed: Name = if made.sub_unbrowsed { s.ty.clone() } else { s.subtype.clone().unwrap_or_else(|| s.ty.clone()) };
        let ptr: Vec<(u64, u64)> = hist
            .lives_of(|id| id.rtype == wire::T_PTR && wire::names_eq_exact(&id.name, &browsed) && matches!(&id.rdata, wire::RData::Ptr(t) if wire::names_eq_exact(t, &s.inst)))
            .map(|(_, l)| (l.from, l.until))
            .collect();
        let srv: Vec<(u64, u64)> = hist.lives_of(|id| id.rtype == wire::T_SRV && wire::names_eq_exact(&id.name, &s.inst)).map(|(_, l)| (l.from, l.until)).collect();
        let txt: Vec<(u64, u64)> = hist.lives_of(|id| id.rtype == wire::T_TXT && wire::names_eq_exact(&id.name, &s.inst)).map(|(_, l)| (l.from, l.until)).collect();
        let addr: Vec<(u64, u64)> = hist
            .lives_of(|id| (id.rtype == wire::T_A || id.rtype == wire::T_AAAA) && wire::names_eq_nocase(&id.name, &s.host))
            .map(|(_, l)| (l.from, l.until))
            .collect();
        let first = |v: &Vec<(u64, u64)>| v.iter().map(|(a, _)| *a).min();
        let (Some(tp), Some(ts), Some(tt), Some(ta)) = (first(&ptr), first(&srv), first(&txt), first(&addr)) else {
            // never complete: F2 may still have things to say
            check_follow_ups(made, i, s, &obs, l, sl);
            continue;
        };
        let t_c = tp.max(ts).max(tt).max(ta);
        // F1
        l.act("F1");
        let found = obs.iter().find(|(_, _, o)| matches!(o, Obs::Found(_, n) if is_me(n)));
        let resolved = obs.iter().find(|(t, _, o)| *t >= t_c && matches!(o, Obs::Resolved(r) if is_me(&r.fullname)));
        let class = if made.case_differs[i] { "host-case-differs" } else { "same-case" };
        match (found, resolved) {
            (Some((tf, _, _)), Some((tr, _, _))) => {
                if *tr > t_c + sl || *tf > tp + sl {
                    l.violate(
                        Violation::new("F1", format!("F1/late/{class}"), format!("instance complete at +{} ms, ServiceFound at +{}, ServiceResolved at +{}", t_c - EPOCH, tf - EPOCH, tr - EPOCH))
                            .with(wit(t_c)),
                    );
                } else if tf > tr {
                    l.violate(Violation::new("F1", "F1/resolved-before-found", "ServiceResolved delivered before ServiceFound").with(wit(t_c)));
                }
            }
            (None, _) => l.violate(
                Violation::new("F1", format!("F1/never-found/{class}"), format!("all records of {} were delivered by +{} ms but ServiceFound never came", escaped_spelling, t_c - EPOCH))
                    .with(wit(t_c)),
            ),
            (_, None) => l.violate(
                Violation::new("F1", format!("F1/never-resolved/{class}"), format!("all records of {} were delivered by +{} ms but ServiceResolved never came", escaped_spelling, t_c - EPOCH))
                    .with(wit(t_c)),
            ),
        }
        // F3
        l.act("F3");
        for (t, _, o) in obs.iter() {
            let name = match o {
                Obs::Found(_, n) => Some(n.as_str()),
                Obs::Resolved(r) => Some(r.fullname.as_str()),
                _ => None,
            };
            if let Some(n) = name {
                // a name that denotes this instance's labels in neither spelling but matches it loosely
                if !is_me(n) && wire::dotted(&wire::lower(&wire::name(n))) == wire::dotted(&wire::lower(&s.inst)) && !inner.svcs.iter().any(|o| wire::dotted(&o.inst) == n) {
                    l.violate(Violation::new("F3", "F3/name-spelling-changed", format!("instance reported as {n:?}, registered labels {escaped_spelling:?}")).with(wit(*t)));
                    break;
                }
            }
        }
        check_follow_ups(made, i, s, &obs, l, sl);
    }
}

fn check_follow_ups(made: &Made, i: usize, s: &Svc, _obs: &[(u64, u64, &Obs)], l: &mut Local, sl: u64) {
    let Some(answer_try) = made.follow[i] else { return };
    if !made.plain_names[i] {
        return; // names with '.' or '\' are re-encoded differently (known limitation, C15)
    }
    let inner = &made.inner;
    let trace = &inner.world.trace;
    let txs = scen::tx_msgs(trace, 0);
    // the delivery of the PTR
    let Some(t_ptr) = trace
        .rxs(0)
        .filter_map(|(e, rx)| wire::parse_lenient(&rx.data).ok().map(|(m, _)| (e.t, m)))
        .find(|(_, m)| m.is_response() && m.answers.iter().any(|r| r.rtype == wire::T_PTR && matches!(&r.rdata, wire::RData::Ptr(t) if wire::names_eq_exact(t, &s.inst))))
        .map(|(t, _)| t)
    else {
        return;
    };
    let wit = || json!({"scenario": inner.desc, "instance": wire::escaped(&s.inst), "trace": scen::witness_window(trace, t_ptr, t_ptr + 2700, 60)});
    let mut qs: Vec<u64> = txs
        .iter()
        .filter(|tx| tx.v4 && tx.t > t_ptr && tx.t <= t_ptr + 2600 && tx.msg.is_query() && (scen::has_question(tx.msg, &s.inst, wire::T_ANY) || scen::has_question(tx.msg, &s.host, wire::T_A)))
        .map(|tx| tx.t)
        .collect();
    qs.dedup();
    l.act("F2");
    if qs.is_empty() {
        l.violate(Violation::new("F2", "F2/no-follow-up-query", "only the PTR arrived but the daemon never asked for the rest").with(wit()));
        return;
    }
    if qs[0] > t_ptr + 500 + sl {
        l.violate(Violation::new("F2", "F2/first-follow-up-late", format!("first follow-up query {} ms after the PTR", qs[0] - t_ptr)).with(wit()));
    }
    if qs.len() > 3 {
        l.violate(Violation::new("F2", "F2/more-than-three-follow-ups", format!("{} follow-up queries", qs.len())).with(wit()));
    }
    for p in qs.windows(2) {
        let d = p[1] - p[0];
        if d < 500 || d > 500 + sl {
            l.violate(Violation::new("F2", "F2/follow-up-spacing", format!("follow-up queries {d} ms apart")).with(wit()));
            break;
        }
    }
    let expected = if answer_try == 0 { 3 } else { answer_try.min(3) as usize };
    if answer_try == 0 && qs.len() < expected {
        l.violate(Violation::new("F2", "F2/fewer-than-three-follow-ups-unanswered", format!("{} follow-up queries although nobody answered", qs.len())).with(wit()));
    }
}

/// F2 for an instance that comes back: found through a lone PTR and resolved through the
/// daemon's follow-up questions, withdrawn (goodbye) or expired, then announced again by a
/// lone PTR. The second time round is a newly found instance like the first: the daemon has
/// to ask again, and resolve when answered.
pub fn second_life_case(seed: u64, l: &mut Local) {
    let mut rng = Rng::new(seed);
    let mut w = World::new(seed);
    let stepping = if rng.chance(1, 4) { Stepping::Eager(10) } else { Stepping::Lazy };
    w.set_stepping(stepping);
    let sl = c03::slack(stepping);
    let h = w.add_host(scen::single_v4());
    w.set_ip_check_interval(h, 3600);
    let before = rng.below(8);
    earlier_searches(&mut w, h, browser::TY, before, &mut rng);
    let Some(chan) = w.browse(h, browser::TY) else { return };
    w.run_for(rng.below(600));
    let mut s = Svc::new(browser::TY, "comeback", "comeback-host.local", [10, 0, 0, 33]);
    let by_expiry = rng.chance(1, 3);
    if by_expiry {
        s.ttl_ptr = 3;
        s.ttl_srv = 3;
        s.ttl_txt = 3;
        s.ttl_addr = 3;
    }
    let first_complete = rng.chance(1, 2); // first life: one complete announcement, or a lone PTR answered on request
    let ptr_only = |s: &Svc| {
        let mut m = Message::response();
        m.answers.push(s.ptr());
        m
    };
    let rest = |s: &Svc| {
        let mut m = Message::response();
        m.answers.push(s.srv());
        m.answers.push(s.txt());
        m.answers.extend(s.addrs());
        m
    };
    // answers the daemon's questions about the instance (once per life)
    let answer_when_asked = |w: &mut World, from: u64, until: u64| -> Option<u64> {
        let mut asked = None;
        let mut cb = |w: &mut World| {
            if asked.is_none() {
                let txs = scen::tx_msgs(&w.trace, 0);
                if let Some(tx) = txs.iter().find(|tx| tx.t >= from && tx.msg.is_query() && (scen::has_question(tx.msg, &s.inst, wire::T_ANY) || scen::has_question(tx.msg, &s.inst, wire::T_SRV))) {
                    asked = Some(tx.t);
                    w.inject_msg(h, 2, scen::peer4(33), &rest(&s));
                }
            }
            false
        };
        w.run_until_cb(until, &mut cb);
        asked
    };
    let t1 = w.now();
    if first_complete {
        w.inject_msg(h, 2, scen::peer4(33), &s.announce());
        w.run_for(1500);
    } else {
        w.inject_msg(h, 2, scen::peer4(33), &ptr_only(&s));
        answer_when_asked(&mut w, t1, t1 + 2500);
    }
    // the end of the first life
    if by_expiry {
        w.run_for(4500);
    } else {
        w.run_for(500 + rng.below(2000));
        w.inject_msg(h, 2, scen::peer4(33), &s.goodbye());
        w.run_for(1500 + rng.below(2000));
    }
    // the second life: a lone PTR
    let t2 = w.now();
    w.inject_msg(h, 2, scen::peer4(33), &ptr_only(&s));
    let asked = answer_when_asked(&mut w, t2, t2 + 2500);
    w.run_for(1000);
    l.evaluations += 1;
    l.distinct.insert(util::fnv_str(&format!("second-life|{first_complete}|{by_expiry}|{stepping:?}")));
    if w.trace.deaths().any(|d| matches!(d.ev, Ev::Death { panicked: true, .. })) {
        l.inconclusive.push(format!("daemon died in a C04 scenario (seed {seed})"));
        return;
    }
    let obs: Vec<(u64, &Obs)> = w.trace.obs(chan).map(|(e, o)| (e.t, o)).collect();
    let resolved_first = obs.iter().any(|(t, o)| *t < t2 && matches!(o, Obs::Resolved(_)));
    let removed_between = obs.iter().any(|(t, o)| *t < t2 && matches!(o, Obs::Removed(..)));
    if !resolved_first || !removed_between {
        l.count("second_life_precondition_not_met", 1);
        return;
    }
    let how = if by_expiry { "expired" } else { "goodbye" };
    let wit = || json!({"first_life": if first_complete { "complete announcement" } else { "lone PTR, answered on request" }, "ended_by": how, "second_lone_ptr_at_ms": t2 - EPOCH, "asked_at_ms": asked.map(|t| t - EPOCH),
                        "trace": scen::witness_window(&w.trace, t2.saturating_sub(200), t2 + 3600, 50)});
    l.act("F2");
    match asked {
        None => {
            l.violate(Violation::new("F2", format!("F2/no-follow-up-query/instance-that-came-back/{how}"), "the instance came back with a lone PTR, but the daemon never asked for the rest").with(wit()));
            return;
        }
        Some(t) if t > t2 + 500 + sl => {
            l.violate(Violation::new("F2", format!("F2/first-follow-up-late/instance-that-came-back/{how}"), format!("first follow-up query {} ms after the PTR", t - t2)).with(wit()));
        }
        _ => {}
    }
    l.act("F1");
    if !obs.iter().any(|(t, o)| *t >= t2 && matches!(o, Obs::Resolved(_))) {
        l.violate(Violation::new("F1", format!("F1/never-resolved/instance-that-came-back/{how}"), "the instance came back and the daemon's question was answered, but ServiceResolved never followed").with(wit()));
    }
}

/// An instance that moved to another host: its old SRV record (to a host whose address never arrives) is known
/// first; then, in any order and split over up to three packets, the new SRV record, the new host's address and
/// the withdrawal (TTL 0) of the old SRV record. From the instant the new SRV record and the address are there
/// the records describing the instance have reached the daemon - whatever else it has heard about the old one.
pub fn moved_host_case(seed: u64, l: &mut Local) {
    let mut rng = Rng::new(seed);
    let mut w = World::new(seed);
    let stepping = if rng.chance(1, 4) { Stepping::Eager(10) } else { Stepping::Lazy };
    w.set_stepping(stepping);
    let sl = c03::slack(stepping);
    let h = w.add_host(scen::single_v4());
    w.set_ip_check_interval(h, 3600);
    let Some(chan) = w.browse(h, browser::TY) else { return };
    w.run_for(rng.below(600));
    let new = Svc::new(browser::TY, "mover", "new-host.local", [10, 0, 0, 34]);
    let mut old = new.clone();
    old.host = wire::name("old-host.local");
    old.port = new.port + 1;
    // first: PTR, old SRV, TXT (one packet or three)
    let mut m = Message::response();
    m.answers = vec![new.ptr(), old.srv(), new.txt()];
    if rng.chance(1, 2) {
        rng.shuffle(&mut m.answers);
    }
    w.inject_msg(h, 2, scen::peer4(34), &m);
    w.run_for(100 + rng.below(1900));
    // then the move
    let mut bye = old.srv();
    bye.ttl = 0;
    let mut recs = vec![(0u8, new.srv()), (1, bye)];
    recs.extend(new.addrs().into_iter().map(|a| (2u8, a)));
    // (the old record's withdrawal never before the new record: the last SRV record heard alive is the new one)
    let order = rng.below(3);
    match order {
        0 => {}                    // new SRV, goodbye, address
        1 => recs.swap(1, 2),      // new SRV, address, goodbye
        _ => recs.rotate_right(1), // address, new SRV, goodbye
    }
    let one_packet = rng.chance(1, 2);
    let mut t_srv = 0;
    let mut t_addr = 0;
    if one_packet {
        let mut m = Message::response();
        m.answers = recs.iter().map(|(_, r)| r.clone()).collect();
        w.inject_msg(h, 2, scen::peer4(34), &m);
        w.settle();
        t_srv = w.now();
        t_addr = w.now();
    } else {
        for (k, r) in recs.iter() {
            let mut m = Message::response();
            m.answers.push(r.clone());
            w.inject_msg(h, 2, scen::peer4(34), &m);
            w.settle();
            match k {
                0 => t_srv = w.now(),
                2 => t_addr = w.now(),
                _ => {}
            }
            w.run_for(*rng.pick(&[0u64, 1, 40, 300]));
        }
    }
    let t_complete = t_srv.max(t_addr);
    w.run_for(5000);
    l.evaluations += 1;
    l.distinct.insert(util::fnv_str(&format!("moved|{order}|{one_packet}|{stepping:?}")));
    if w.trace.deaths().any(|d| matches!(d.ev, Ev::Death { panicked: true, .. })) {
        l.inconclusive.push(format!("daemon died in a C04 scenario (seed {seed})"));
        return;
    }
    l.act("F1");
    l.act("F1-moved-host");
    let obs: Vec<(u64, &Obs)> = w.trace.obs(chan).map(|(e, o)| (e.t, o)).collect();
    let resolved = obs.iter().find(|(t, o)| *t >= t_complete && matches!(o, Obs::Resolved(_))).map(|(t, _)| *t);
    let wit = || json!({"order": order, "one_packet": one_packet, "complete_at_ms": t_complete - EPOCH, "trace": scen::witness_window(&w.trace, t_complete.saturating_sub(2500), t_complete + 2000, 50)});
    match resolved {
        None => l.violate(Violation::new("F1", "F1/never-resolved/instance-that-moved-to-another-host", "PTR, TXT, the SRV record to the new host and that host's address have all arrived (the old SRV record was withdrawn), but ServiceResolved never followed").with(wit())),
        Some(t) if t > t_complete + sl => l.violate(Violation::new("F1", "F1/late/instance-that-moved-to-another-host", format!("ServiceResolved {} ms after the last needed record", t - t_complete)).with(wit())),
        _ => {}
    }
}

pub fn run_one(seed: u64, enumerated: Option<(u64, u64)>, l: &mut Local) {
    let made = scenario(seed, enumerated);
    l.evaluations += 1;
    let w = &made.inner.world;
    l.count("daemon_iterations", w.total_iterations);
    if w.trace.deaths().any(|d| matches!(d.ev, Ev::Death { panicked: true, .. })) {
        l.inconclusive.push(format!("daemon died in a C04 scenario (seed {seed})"));
        return;
    }
    l.distinct.insert(util::fnv_str(&made.inner.desc));
    if l.samples.len() < 2 {
        l.samples.push(json!({"scenario": made.inner.desc}));
    }
    monitor(&made, l);
}

// ---------------------------------------------------------------------------
// Part R: real sockets
//
// Under simulation the run loop reads the scripted sockets itself; the code that turns the poller's events
// into reads (and everything else between the operating system and `handle_read`) is only reached with real
// sockets. One real daemon on a private port, its own multicast loop switched off so that nothing but our
// datagrams can wake its sockets; API calls (which wake the daemon through its signal socket) are issued
// right before an announcement is sent from a plain UDP socket. The announcement has reached the daemon:
// it is found and resolved without waiting for the next datagram. Judged only if a control announcement
// gets through at all; a miss counts only if the very next unrelated datagram makes the instance appear
// (the records had been sitting in the socket), anything else is inconclusive.

pub fn real_socket_part(report: &Report, seed: u64, rounds: u64) {
    use mdns_sd::{ServiceDaemon, ServiceEvent};
    use std::net::UdpSocket;
    use std::time::{Duration, Instant};
    let not_run = |why: String| {
        println!("NOTE property=C04 the real-socket part was not run: {why}");
        report.extra("real_sockets", json!({"status": "not run", "reason": why}));
    };
    let port = 21000 + (seed % 2000) as u16;
    let daemon = match ServiceDaemon::new_with_port(port) {
        Ok(d) => d,
        Err(e) => return not_run(format!("cannot create a daemon on port {port}: {e}")),
    };
    let finish = |d: &ServiceDaemon| {
        if let Ok(rx) = d.shutdown() {
            let _ = rx.recv_timeout(Duration::from_secs(5));
        }
    };
    let _ = daemon.set_multicast_loop_v4(false);
    let _ = daemon.set_multicast_loop_v6(false);
    let ty = "_c04real._udp.local.";
    let Ok(sock) = UdpSocket::bind("0.0.0.0:0") else {
        finish(&daemon);
        return not_run("cannot bind a UDP socket".into());
    };
    let dest = format!("224.0.0.251:{port}");
    // an address next to ours on the interface multicast leaves by (the instance needs one in the link's subnet)
    let local = UdpSocket::bind("0.0.0.0:0").and_then(|s| s.connect(&dest).and_then(|_| s.local_addr())).ok();
    let Some(std::net::SocketAddr::V4(local)) = local else {
        finish(&daemon);
        return not_run("no IPv4 route for multicast".into());
    };
    let mut neighbour = local.ip().octets();
    neighbour[3] = if neighbour[3] < 250 { neighbour[3] + 1 } else { neighbour[3] - 1 };
    let Ok(rx) = daemon.browse(ty) else {
        finish(&daemon);
        return not_run("browse refused".into());
    };
    std::thread::sleep(Duration::from_millis(300));
    let announce = |label: &str| {
        let s = Svc::new(ty, label, &format!("{label}-host.local"), neighbour);
        let data = wire::encode(&s.announce(), wire::Compression::Max);
        let _ = sock.send_to(&data, &dest);
        s.fullname()
    };
    let wait_resolved = |full: &str, limit: Duration| -> Option<Duration> {
        let start = Instant::now();
        while start.elapsed() < limit {
            match rx.recv_timeout(Duration::from_millis(50)) {
                Ok(ServiceEvent::ServiceResolved(r)) if r.fullname == full => return Some(start.elapsed()),
                Ok(_) => {}
                Err(flume::RecvTimeoutError::Timeout) => {}
                Err(flume::RecvTimeoutError::Disconnected) => return None,
            }
        }
        None
    };
    // control: does a datagram of ours reach the daemon at all?
    let ctl = announce("control");
    if wait_resolved(&ctl, Duration::from_secs(6)).is_none() {
        finish(&daemon);
        return not_run("a control announcement sent to the daemon's port did not get it to resolve the instance: real multicast is not usable here".into());
    }
    let mut l = Local::default();
    let mut slowest = Duration::ZERO;
    let mut sat_unread = Vec::new();
    let mut lost = 0u64;
    for k in 0..rounds {
        // wake the daemon through its signal socket, then let the records arrive
        // (in two rounds of three a second thread keeps calling while the datagram comes in, so that a round of
        // the poller reports the signal socket and the mDNS socket together)
        let stop = std::sync::Arc::new(std::sync::atomic::AtomicBool::new(false));
        let caller = if k % 3 != 0 {
            let (d, stop) = (daemon.clone(), stop.clone());
            Some(std::thread::spawn(move || {
                let mut n = 0u64;
                while !stop.load(std::sync::atomic::Ordering::Relaxed) && n < 2_000_000 {
                    let _ = d.status();
                    n += 1;
                }
            }))
        } else {
            let _ = daemon.status();
            None
        };
        if caller.is_some() {
            std::thread::sleep(Duration::from_millis(2));
        }
        let full = announce(&format!("inst{k}"));
        l.act("F1-real");
        let early = wait_resolved(&full, Duration::from_millis(1500));
        stop.store(true, std::sync::atomic::Ordering::Relaxed);
        if let Some(c) = caller {
            let _ = c.join();
        }
        match early.or_else(|| wait_resolved(&full, Duration::from_millis(4500)).map(|d| d + Duration::from_millis(1500))) {
            Some(d) => slowest = slowest.max(d),
            None => {
                // an unrelated datagram: if the instance appears now, its records had been sitting in the socket
                let mut m = Message::response();
                m.answers.push(wire::a(&wire::name("bystander.local"), 120, neighbour));
                let _ = sock.send_to(&wire::encode(&m, wire::Compression::None), &dest);
                if wait_resolved(&full, Duration::from_secs(3)).is_some() {
                    sat_unread.push(k);
                } else {
                    lost += 1;
                }
            }
        }
    }
    finish(&daemon);
    if lost > 0 {
        l.inconclusive.push(format!("real-socket part: {lost} announcements never led to a resolution, not even after the next datagram (lost on the way?)"));
    }
    if !sat_unread.is_empty() {
        l.violate(
            Violation::new(
                "F1",
                "F1/real/records-arrived-but-not-acted-on-until-the-next-datagram",
                format!("in {} of {rounds} rounds an announcement sent right after an API call was not resolved within 6 s, and was resolved as soon as an unrelated datagram arrived: its records had reached the daemon's socket and were left there", sat_unread.len()),
            )
            .with(json!({"rounds": sat_unread, "port": port})),
        );
    }
    report.extra("real_sockets", json!({"status": "run", "rounds": rounds, "resolved_at_once": rounds - lost - sat_unread.len() as u64, "slowest_ms": slowest.as_millis() as u64, "left_unread_until_next_datagram": sat_unread.len(), "never_resolved": lost}));
    report.merge(l);
}

pub fn run(report: &Report, tier: &Tier) {
    report.set_rule(
        "delivery scenarios: the 4..7 records of an instance (PTR, subtype PTR, SRV, TXT, 1..3 addresses) in every order and every split into \
         up to four packets (exhaustive for 4 records in the quick tier, 5 in thorough; sampled otherwise), records placed in answer or additional \
         sections, duplicated packets, foreign records interleaved, 1..3 instances, instance labels from a hostile alphabet (dots, backslashes, \
         non-ASCII, up to 63 bytes), address owners spelled in another letter case than the SRV target, PTR-only deliveries with the daemon's \
         follow-up questions answered on try 1/2/3/never; an instance that was resolved, then withdrawn by goodbye or left to expire, and comes back \
         with a lone PTR; distinct by full scenario description",
    );
    report.assume("no obligation for follow-up questions about names containing '.' or '\\' (they are re-encoded differently: see C15 / DESIGN §12)");
    for r in ["F1", "F1-content", "F1-moved-host", "F2", "F3"] {
        report.floor(r, 30);
    }
    let seed = report.seed;
    // exhaustive part: one plain instance with 4 (thorough: also 5) records
    let n_rec = 4;
    let perms = factorial(n_rec);
    let n_splits = splits(n_rec, 4).len() as u64;
    let total = perms * n_splits;
    let done = run_parallel(report, total, threads(), tier.budget_s * 0.3, |i, l| {
        run_one(util::mix(seed, 77), Some((i % perms, i / perms)), l);
    });
    report.extra("exhaustive_orders_and_splits", json!({"records": n_rec, "orders": perms, "splits": n_splits, "cases": total, "done": done, "exhaustive": done == total}));
    let n: u64 = if tier.thorough { 300_000 } else { 5_000 };
    run_parallel(report, n, threads(), tier.budget_s * 0.6, |i, l| {
        run_one(util::mix(seed, 0xC04_0000 + i), None, l);
    });
    // an instance that goes away and comes back with a lone PTR
    let n2: u64 = if tier.thorough { 30_000 } else { 600 };
    run_parallel(report, n2, threads(), tier.budget_s * 0.1, |i, l| {
        second_life_case(util::mix(seed, 0xC04_2000 + i), l);
    });
    let n3: u64 = if tier.thorough { 30_000 } else { 600 };
    run_parallel(report, n3, threads(), tier.budget_s * 0.1, |i, l| {
        moved_host_case(util::mix(seed, 0xC04_3000 + i), l);
    });
    real_socket_part(report, seed, if tier.thorough { 200 } else { 25 });
}
