//! C11, world part: refresh queries on the wire (L2), the cache-flush rule around the
//! one-second boundary (L3), and "never used after expiry" under late wake-ups (L1).

use crate::model::{self, Hist, Life, RecId};
use crate::props::browser::{self, Opts};
use crate::props::{c03, c17};
use crate::report::{Local, Violation};
use crate::scen;
use crate::util::{self, Rng};
use crate::wire::{self, Message, Name, RData};
use crate::world::*;
use serde_json::json;
use std::net::IpAddr;

fn lives_cover(lives: &[&Life], t: u64, margin: u64) -> bool {
    lives.iter().any(|l| l.surely_live_at(t, margin))
}

/// L2 on a browser scenario (lazy or eager stepping).
pub fn l2_case(seed: u64, l: &mut Local) {
    let opts = Opts {
        stepping: Some(if seed % 3 == 0 { Stepping::Eager(10) } else { Stepping::Lazy }),
        ttls: &[2, 3, 10, 30, 120],
        faults: false,
        verify: false,
        // (in a quarter of the cases the hosts of the browsed services are searched by name as well: what
        // the browse needs is refreshed at all four marks all the same)
        hostnames: seed % 4 == 1,
        max_horizon: 400_000,
        // (and up to four cache-only browses of other types on the same daemon)
        cache_only_others: (seed / 7 % 5) as u8,
    };
    let made = browser::scenario(seed, &opts);
    l.evaluations += 1;
    let trace = &made.world.trace;
    if trace.deaths().any(|d| matches!(d.ev, Ev::Death { panicked: true, .. })) {
        l.inconclusive.push(format!("daemon died in a C11 scenario (seed {seed})"));
        return;
    }
    l.count("daemon_iterations", made.world.total_iterations);
    l.distinct.insert(util::fnv_str(&format!("L2|{}|{}|{}", made.desc.split(" events:").next().unwrap_or(""), opts.hostnames, opts.cache_only_others)));
    let sl = c03::slack(made.world.stepping);
    let hist = Hist::build(trace, 0, &[]);
    let txs = scen::tx_msgs(trace, 0);
    let ty = wire::name(browser::TY);
    let t_end = made.horizon.saturating_sub(2000);
    let asked = |name: &Name, qt: u16, from: u64, to: u64| txs.iter().any(|tx| tx.t >= from && tx.t <= to && tx.msg.is_query() && scen::has_question(tx.msg, name, qt));
    // the chain PTR -> instance -> SRV -> host
    let all: Vec<(&RecId, &Life)> = hist.lives_of(|_| true).collect();
    for (id, life) in all.iter() {
        let (questions, needs): (Vec<(Name, u16)>, Box<dyn Fn(u64) -> bool>) = match id.rtype {
            wire::T_PTR if wire::names_eq_exact(&id.name, &ty) => (vec![(ty.clone(), wire::T_PTR)], Box::new(|_| true)),
            wire::T_SRV | wire::T_TXT => {
                // needed while a PTR of the browsed type points at the instance
                let inst = id.name.clone();
                let ptrs: Vec<&Life> = all.iter().filter(|(p, _)| model::is_ptr_to(p, &ty, &inst)).map(|(_, l)| *l).collect();
                (vec![(inst, id.rtype)], Box::new(move |t| lives_cover(&ptrs, t, sl + 2)))
            }
            wire::T_A | wire::T_AAAA => {
                // needed while some browsed instance's SRV points at this host
                let host = id.name.clone();
                let mut chains: Vec<(Vec<&Life>, &Life)> = Vec::new();
                for (sid, sl_) in all.iter().filter(|(s, _)| s.rtype == wire::T_SRV && matches!(&s.rdata, RData::Srv { target, .. } if wire::names_eq_nocase(target, &host))) {
                    let inst = sid.name.clone();
                    let ptrs: Vec<&Life> = all.iter().filter(|(p, _)| model::is_ptr_to(p, &ty, &inst)).map(|(_, l)| *l).collect();
                    chains.push((ptrs, *sl_));
                }
                (
                    vec![(host.clone(), wire::T_A), (host, wire::T_AAAA)],
                    Box::new(move |t| chains.iter().any(|(ptrs, srv)| lives_cover(ptrs, t, sl + 2) && srv.surely_live_at(t, sl + 2))),
                )
            }
            _ => continue,
        };
        for (k, (t_rx, ttl)) in life.receptions.iter().enumerate() {
            if *ttl <= 1 {
                continue;
            }
            let next_rx = life.receptions.get(k + 1).map(|(t, _)| *t).unwrap_or(u64::MAX);
            for (mi, pct) in [800u64, 850, 900, 950].iter().enumerate() {
                let mark = t_rx + model::effective_ttl(*ttl) * pct;
                if mark + sl + 2 >= next_rx.min(life.until).min(t_end) || !needs(mark) {
                    break; // answered (or gone) before this mark: the schedule restarted
                }
                l.act("L2");
                let ok = questions.iter().all(|(n, qt)| asked(n, *qt, mark, mark + sl));
                if !ok {
                    l.violate(
                        Violation::new(
                            "L2",
                            format!("L2/no-refresh-query/{}/mark{}", match id.rtype { wire::T_PTR => "ptr", wire::T_SRV => "srv", wire::T_TXT => "txt", _ => "address" }, [80, 85, 90, 95][mi]),
                            format!(
                                "no refresh query for {} (type {}) at {} % of its life (+{} ms) although a browse needs it",
                                wire::escaped(&id.name),
                                id.rtype,
                                [80, 85, 90, 95][mi],
                                mark - EPOCH
                            ),
                        )
                        .with(json!({"scenario": made.desc, "trace": scen::witness_window(trace, mark.saturating_sub(1500), mark + 500, 40)})),
                    );
                    return;
                }
            }
        }
    }
}

/// L3: two address records of one host (both IPv4 or both IPv6); the second arrives Δ ms after the first, with the flush bit.
pub fn l3_case(delta: u64, seed: u64, l: &mut Local) {
    let mut rng = Rng::new(seed);
    let mut w = World::new(seed);
    w.set_stepping(Stepping::Lazy);
    let two_if = rng.chance(1, 3);
    let h = w.add_host(if two_if { scen::two_v4() } else { scen::single_v4() });
    w.set_ip_check_interval(h, 3600);
    let chan = w.resolve_hostname(h, "flushy.local.", None);
    w.run_for(rng.below(500));
    let owner = wire::name("flushy.local");
    // the records under test are IPv4 or IPv6 addresses (the rule is the same; the code paths are not)
    let v6 = rng.chance(1, 3);
    let ip_of = |last: u8| -> IpAddr { if v6 { IpAddr::from(format!("fd00::{last:x}").parse::<std::net::Ipv6Addr>().unwrap()) } else { IpAddr::from([10, 0, 0, last]) } };
    let rec = |last: u8| match ip_of(last) {
        IpAddr::V4(a) => wire::a(&owner, 120, a.octets()),
        IpAddr::V6(a) => wire::aaaa(&owner, 120, a.octets()),
    };
    // sometimes the first record is short-lived and the flushing record arrives in its last second: it still
    // ends when its own TTL says, not later
    let ttl1: u32 = if rng.chance(1, 4) { 3 } else { 120 };
    let delta = if ttl1 == 3 { 2050 + rng.below(900) } else { delta };
    let t1 = w.now();
    let mut m1 = Message::response();
    m1.answers.push(rec(0x61));
    m1.answers[0].ttl = ttl1;
    // the host's address of the other family, learned at the same time on the same interface: records of
    // another type are none of a cache-flush record's business
    let other_family = rng.chance(1, 2);
    let other_addr: IpAddr = if v6 { IpAddr::from([10, 0, 0, 0x41]) } else { IpAddr::from("fd00::41".parse::<std::net::Ipv6Addr>().unwrap()) };
    if other_family {
        m1.answers.push(match other_addr {
            IpAddr::V4(a) => wire::a(&owner, 120, a.octets()),
            IpAddr::V6(a) => wire::aaaa(&owner, 120, a.octets()),
        });
    }
    w.inject_msg(h, 2, scen::peer4(61), &m1);
    w.run_until(t1 + delta);
    // the flushing record: other address, same interface or (two interfaces) the other one
    let other_if = two_if && rng.chance(1, 2);
    let mut m2 = Message::response();
    let same_burst_extra = rng.chance(1, 3);
    m2.answers.push(rec(0x62));
    if same_burst_extra {
        m2.answers.push(rec(0x63));
    }
    for r in m2.answers.iter_mut() {
        r.class |= wire::FLUSH;
    }
    if other_if {
        w.inject_msg(h, 3, sock4([192, 168, 1, 62], 5353), &m2);
    } else {
        w.inject_msg(h, 2, scen::peer4(61), &m2);
    }
    let t2 = w.now();
    // sometimes one more cache-flush record of the name follows within the second: what the first flush
    // condemned still ends one second after the first flush
    let third = if rng.chance(1, 2) { Some(*rng.pick(&[200u64, 500, 900])) } else { None };
    if let Some(d3) = third {
        w.run_until(t2 + d3);
        let mut m3 = Message::response();
        m3.answers.push(rec(0x64));
        m3.answers[0].class |= wire::FLUSH;
        if other_if {
            w.inject_msg(h, 3, sock4([192, 168, 1, 62], 5353), &m3);
        } else {
            w.inject_msg(h, 2, scen::peer4(61), &m3);
        }
    }
    w.run_until(t2 + 5000);
    l.evaluations += 1;
    l.distinct.insert(util::fnv_str(&format!("L3|{delta}|{two_if}|{other_if}|{same_burst_extra}|{other_family}|{v6}|{ttl1}|{third:?}")));
    let Some(chan) = chan else { return };
    let removed: Vec<(u64, IpAddr)> = w
        .trace
        .obs(chan)
        .filter_map(|(e, o)| match o {
            Obs::AddrRemoved(_, set) => Some(set.iter().map(|(ip, _)| (e.t, *ip)).collect::<Vec<_>>()),
            _ => None,
        })
        .flatten()
        .collect();
    let first: IpAddr = ip_of(0x61);
    let fam = if v6 { "aaaa" } else { "a" };
    let wit = || json!({"delta_ms": delta, "records": fam, "ttl_of_first_record_s": ttl1, "third_flush_record_after_ms": third, "two_interfaces": two_if, "flusher_on_other_interface": other_if, "other_family_record_cached_too": other_family, "trace": w.trace.render(0, 40)});
    let first_removed = removed.iter().find(|(_, ip)| *ip == first).map(|(t, _)| *t);
    l.act("L3");
    // older than one second and on the same interface: ends one second after the flush
    let must_flush = delta > 1001 && !other_if;
    let must_keep = delta < 999 || other_if;
    if must_flush {
        // one second after the flush, or when its own TTL ends if that comes first
        let due = (t2 + 1000).min(t1 + 1000 * ttl1 as u64);
        match first_removed {
            Some(t) if t >= due && t <= due + 1 => {}
            other => l.violate(
                Violation::new(
                    "L3",
                    format!("L3/old-record-not-flushed-after-one-second/{fam}{}{}", if ttl1 == 3 { "/in-its-last-second" } else { "" }, if third.is_some() { "/another-flush-within-the-second" } else { "" }),
                    format!("a record {delta} ms old (TTL {ttl1} s) was not ended {} ms after a cache-flush record of the same name arrived (removed at {:?})", due - t2, other.map(|t| t - t2)),
                )
                .with(wit()),
            ),
        }
    }
    // (kept: not ended before its own TTL says; a third cache-flush record on the same interface meets the first
    // one at a greater age and may condemn it in its own right)
    let third_may_flush = third.is_some() && !other_if;
    if must_keep && !third_may_flush && first_removed.is_some_and(|t| t < t1 + 1000 * ttl1 as u64) {
        l.violate(
            Violation::new(
                "L3",
                format!("{}/{fam}", if other_if { "L3/flushed-across-interfaces" } else { "L3/same-burst-record-flushed" }),
                format!("a record {delta} ms old was ended by a cache-flush record{}", if other_if { " learned on another interface" } else { " of the same burst" }),
            )
            .with(wit()),
        );
    }
    if other_family && removed.iter().any(|(_, r)| *r == other_addr) {
        l.violate(Violation::new("L3", "L3/record-of-another-type-flushed", format!("a cache-flush {} record ended the record of the other address family of the same host ({delta} ms old)", fam.to_uppercase())).with(wit()));
    }
    // the flushing record itself and its burst companions stay
    for last in [0x62u8, 0x63, 0x64] {
        if removed.iter().any(|(_, r)| *r == ip_of(last)) {
            l.violate(Violation::new("L3", "L3/new-record-flushed", "the cache-flush record itself (or its burst companion) was ended").with(wit()));
        }
    }
}

/// L3 for the unique records of an instance: its TXT (or SRV) is replaced with the cache-flush
/// bit, and `delta` ms later replaced back to the earlier value. Older than a second, the
/// first record has been flushed: the return is a new record and must be reported, and it
/// flushes the value in between in turn. Within the same second nothing was displaced: both
/// records are held and nothing is judged.
pub fn l3_unique_case(delta: u64, seed: u64, l: &mut Local) {
    use crate::scen::Svc;
    let mut rng = Rng::new(seed);
    let mut w = World::new(seed);
    w.set_stepping(Stepping::Lazy);
    let h = w.add_host(scen::single_v4());
    w.set_ip_check_interval(h, 3600);
    let Some(chan) = w.browse(h, browser::TY) else { return };
    w.run_for(rng.below(500));
    let txt_variant = rng.chance(1, 2);
    let mut a = Svc::new(browser::TY, "toggler", "toggler-host.local", [10, 0, 0, 70]);
    a.ttl_txt = 4500;
    a.ttl_srv = 120;
    a.txt = wire::txt_encode(&[(b"state".to_vec(), Some(b"off".to_vec()))]);
    let mut b = a.clone();
    if txt_variant {
        b.txt = wire::txt_encode(&[(b"state".to_vec(), Some(b"on".to_vec()))]);
    } else {
        b.port = a.port + 1;
    }
    let flushed = |s: &Svc| {
        let mut m = Message::response();
        let mut r = if txt_variant { s.txt() } else { s.srv() };
        r.class |= wire::FLUSH;
        m.answers.push(r);
        m
    };
    w.inject_msg(h, 2, scen::peer4(70), &a.announce());
    w.run_for(1500 + rng.below(1500));
    w.inject_msg(h, 2, scen::peer4(70), &flushed(&b)); // a -> b
    let t_b = w.now();
    w.run_until(t_b + delta);
    w.inject_msg(h, 2, scen::peer4(70), &flushed(&a)); // b -> a again
    let t_back = w.now();
    w.run_until(t_back + 2500);
    // something unrelated happens to the instance: a further address (forces a fresh ServiceResolved)
    let mut m = Message::response();
    m.answers.push(wire::a(&a.host, 120, [10, 0, 0, 71]));
    w.inject_msg(h, 2, scen::peer4(70), &m);
    let t_more = w.now();
    w.run_until(t_more + 1500);
    l.evaluations += 1;
    l.distinct.insert(util::fnv_str(&format!("L3u|{delta}|{txt_variant}")));
    l.act("L3");
    let shows_a = |r: &mdns_sd::ResolvedService| if txt_variant { r.txt_properties.get_property_val_str("state") == Some("off") } else { r.port == a.port };
    let events: Vec<(u64, bool)> = w.trace.obs(chan).filter_map(|(e, o)| if let Obs::Resolved(r) = o { Some((e.t, shows_a(r))) } else { None }).collect();
    let what = if txt_variant { "txt" } else { "srv" };
    let wit = || json!({"delta_ms": delta, "record": what, "resolved_events_ms_and_shows_first_value": events.iter().map(|(t, a)| (*t as i64 - t_b as i64, *a)).collect::<Vec<_>>(), "trace": w.trace.render(0, 40)});
    // older than a second: the first record was flushed, so its return must be reported at once
    if delta > 1001 && !events.iter().any(|(t, a)| *t >= t_back && *t <= t_back + 1 && *a) {
        l.violate(Violation::new("L3", format!("L3/return-to-flushed-value-not-reported/{what}"), format!("the {what} record went back to its first value {delta} ms after being replaced (cache-flush): no ServiceResolved reported it")).with(wit()));
        return;
    }
    // ... and the value in between was itself flushed by the return: from a second later on it is not shown any more
    // (younger than a second it was not displaced at all: both records are held, either may be shown)
    if delta <= 1001 {
        return;
    }
    if let Some((t, _)) = events.iter().find(|(t, a)| *t > t_back + 1001 && !*a) {
        l.violate(Violation::new("L3", format!("L3/displaced-value-reported-again/{what}"), format!("{} ms after the {what} record went back to its first value a ServiceResolved shows the displaced one", t - t_back)).with(wit()));
    }
}

/// L1 under late wake-ups: nothing past its expiry is shown in a newly built event.
pub fn l1_case(seed: u64, l: &mut Local) {
    set_overrides(Some(Overrides { stepping: Some(Stepping::Oversleep(if seed % 2 == 0 { 3000 } else { 800 })), record_gates: false, snapshot_level: 0, jitter_const: None, send_cost_ms: None, no_loop: false }));
    let made = c17::scenario(seed, None);
    set_overrides(None);
    l.evaluations += 1;
    let trace = &made.world.trace;
    if trace.deaths().any(|d| matches!(d.ev, Ev::Death { panicked: true, .. })) {
        l.inconclusive.push(format!("daemon died in a C11 scenario (seed {seed})"));
        return;
    }
    l.distinct.insert(util::fnv_str(&format!("L1|{}", made.desc.split('@').count())));
    let hist = Hist::build(trace, 0, &[]);
    for (chan, given, _, _) in made.searches.iter() {
        let host_name = wire::name(given);
        for (e, o) in trace.obs(*chan) {
            let Obs::AddrFound(name, set) = o else { continue };
            for (ip, ifs) in set {
                l.act("L1");
                let live = hist
                    .lives_of(|id| (id.rtype == wire::T_A || id.rtype == wire::T_AAAA) && wire::names_eq_nocase(&id.name, &host_name))
                    .any(|(id, life)| {
                        let rip = match &id.rdata {
                            RData::A(a) => IpAddr::from(*a),
                            RData::Aaaa(a) => IpAddr::from(*a),
                            _ => return false,
                        };
                        rip == *ip && ifs.contains(&id.if_index.unwrap_or(0)) && life.from <= e.t && e.t <= life.until + 1
                    });
                if !live {
                    l.violate(
                        Violation::new("L1", "L1/expired-address-in-AddressesFound", format!("AddressesFound({name}) at +{} ms lists {ip}, whose record had expired by then (the daemon woke late)", e.t - EPOCH))
                            .with(json!({"scenario": made.desc, "trace": scen::witness_window(trace, e.t.saturating_sub(6000), e.t + 5, 40)})),
                    );
                    return;
                }
            }
        }
    }
}
