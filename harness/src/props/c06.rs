//! C06 — queries get exactly the registered records, right values, right link.
//! C10 (responder side) — known answers suppress exactly what they should.
//!
//! The responder model `M_resp` computes, from the API history and the observed first
//! announcement of each service on each interface, the response the statements require
//! for an injected query; the daemon's egress of the iteration that consumed the query
//! is compared with it (sets of records, destination, ID, question echo).

use crate::report::{run_parallel, threads, Local, Report, Violation};
use crate::scen;
use crate::util::{self, Rng};
use crate::wire::{self, Message, Name, Question, RData, Record};
use crate::world::*;
use crate::Tier;
use serde_json::json;
use std::collections::BTreeSet;
use std::net::{IpAddr, SocketAddr};

const META: &str = "_services._dns-sd._udp.local.";

#[derive(Clone, Debug)]
pub struct SvcState {
    pub reg: RegInfo,
    pub t_reg: u64,
    pub unregistered_at: Option<u64>,
}

/// A comparable record: (lower-cased owner, type, flush, ttl, rdata with lower-cased names).
pub type Key = (String, u16, bool, u32, String);

pub fn key_of(r: &Record) -> Key {
    let rd = match &r.rdata {
        RData::Ptr(n) => format!("ptr:{}", wire::escaped(&wire::lower(n))),
        RData::Srv { priority, weight, port, target } => format!("srv:{priority}:{weight}:{port}:{}", wire::escaped(&wire::lower(target))),
        RData::Txt(t) => format!("txt:{}", wire::hex(t)),
        RData::A(a) => format!("a:{}", std::net::Ipv4Addr::from(*a)),
        RData::Aaaa(a) => format!("aaaa:{}", std::net::Ipv6Addr::from(*a)),
        other => format!("{other:?}"),
    };
    (wire::escaped(&wire::lower(&r.name)), r.rtype, r.flush(), r.ttl, rd)
}

fn txt_rdata(reg: &RegInfo) -> Vec<u8> {
    let items: Vec<(Vec<u8>, Option<Vec<u8>>)> = reg.txt.iter().map(|(k, v)| (k.clone().into_bytes(), v.clone())).collect();
    wire::txt_encode(&items)
}

/// The records of a service on interface `i`.
pub struct SvcRecords {
    pub ptr: Record,
    pub sub_ptr: Option<Record>,
    pub meta: Record,
    pub srv: Record,
    pub txt: Record,
    pub addrs: Vec<Record>,
}

pub fn records_of(reg: &RegInfo, i: &IfSpec) -> SvcRecords {
    let ty = scen::wire_name(&reg.ty_only);
    let inst = scen::wire_name(&reg.fullname);
    let host = scen::wire_name(&reg.host);
    let mut addrs = Vec::new();
    for a in reg.addrs.iter() {
        if i.in_subnet(a) {
            addrs.push(match a {
                IpAddr::V4(x) => wire::a(&host, 120, x.octets()),
                IpAddr::V6(x) => wire::aaaa(&host, 120, x.octets()),
            });
        }
    }
    SvcRecords {
        ptr: wire::ptr(&ty, 4500, &inst),
        sub_ptr: reg.subtype.as_ref().map(|s| wire::ptr(&scen::wire_name(s), 4500, &inst)),
        meta: wire::ptr(&scen::wire_name(META), 4500, &ty),
        srv: wire::srv(&inst, 120, reg.port, &host),
        txt: wire::txt(&inst, 4500, txt_rdata(reg)),
        addrs,
    }
}

/// A known answer suppresses `r` iff it is the same record (owner, type, class, RDATA, spelled
/// the same) with more than half the TTL.
fn suppressed(r: &Record, known: &[Record]) -> bool {
    known.iter().any(|k| k.rtype == r.rtype && k.class_only() == r.class_only() && k.name == r.name && k.rdata == r.rdata && k.ttl > r.ttl / 2)
}

/// A known answer that is the same record only up to letter case: a querier lists records as it
/// received them, so whether such an entry counts as "the same record" is left open (both
/// outcomes accepted).
fn borderline(r: &Record, known: &[Record]) -> bool {
    !suppressed(r, known)
        && known.iter().any(|k| {
            k.rtype == r.rtype && k.class_only() == r.class_only() && wire::names_eq_nocase(&k.name, &r.name) && key_of(k).4 == key_of(r).4 && k.ttl > r.ttl / 2
        })
}

pub struct Expected {
    /// Records that must be in the answer section.
    pub answers: BTreeSet<Key>,
    /// Records that may or may not be answered (boundary cases).
    pub optional: BTreeSet<Key>,
    /// Records that must be present as answer or additional.
    pub additionals: BTreeSet<Key>,
    /// Records that only an answer left out because of a known answer would have brought along.
    pub suppressed_brings: BTreeSet<Key>,
    /// Records that an answer which may or may not be given (boundary cases) may bring along.
    pub may_bring: BTreeSet<Key>,
}

/// What the statements require as the response to `q` arriving on interface `i` over family `v4`.
pub fn expect(services: &[(SvcState, bool)], i: &IfSpec, v4: bool, q: &Message) -> Expected {
    let mut e = Expected { answers: BTreeSet::new(), optional: BTreeSet::new(), additionals: BTreeSet::new(), suppressed_brings: BTreeSet::new(), may_bring: BTreeSet::new() };
    let known = &q.answers;
    for (s, announced) in services.iter() {
        if !*announced {
            continue;
        }
        let recs = records_of(&s.reg, i);
        // a service answers on a link only with an address of the transport's family there
        let fam_addrs: Vec<&Record> = recs.addrs.iter().filter(|a| (a.rtype == wire::T_A) == v4).collect();
        for qu in q.questions.iter() {
            let add_answer = |r: &Record, e: &mut Expected| -> bool {
                // the daemon spells an SRV/TXT/address answer the way the question spelled the name: a
                // known answer spelled otherwise is "the same record" only up to letter case
                let respelled = wire::names_eq_nocase(&qu.name, &r.name) && qu.name != r.name && known.iter().any(|k| k.rtype == r.rtype && wire::names_eq_nocase(&k.name, &r.name));
                if borderline(r, known) || (respelled && suppressed(r, known)) {
                    e.optional.insert(key_of(r));
                    false
                } else if suppressed(r, known) {
                    false
                } else {
                    e.answers.insert(key_of(r));
                    true
                }
            };
            if qu.qtype == wire::T_PTR {
                let ty_match = wire::names_eq_exact(&qu.name, &recs.ptr.name);
                let sub_match = recs.sub_ptr.as_ref().is_some_and(|s| wire::names_eq_exact(&qu.name, &s.name));
                if (ty_match || sub_match) && !fam_addrs.is_empty() {
                    let answer = if sub_match { recs.sub_ptr.as_ref().unwrap() } else { &recs.ptr };
                    if add_answer(answer, &mut e) {
                        e.additionals.insert(key_of(&recs.srv));
                        e.additionals.insert(key_of(&recs.txt));
                        for a in fam_addrs.iter() {
                            e.additionals.insert(key_of(a));
                        }
                    } else if e.optional.contains(&key_of(answer)) {
                        e.may_bring.insert(key_of(&recs.srv));
                        e.may_bring.insert(key_of(&recs.txt));
                        for a in recs.addrs.iter() {
                            e.may_bring.insert(key_of(a));
                        }
                        // the daemon lets the type's PTR bring the subtype's PTR along
                        if let (false, Some(sp)) = (sub_match, recs.sub_ptr.as_ref()) {
                            e.may_bring.insert(key_of(sp));
                        }
                    } else if suppressed(answer, known) && !borderline(answer, known) {
                        e.suppressed_brings.insert(key_of(&recs.srv));
                        e.suppressed_brings.insert(key_of(&recs.txt));
                        for a in recs.addrs.iter() {
                            e.suppressed_brings.insert(key_of(a));
                        }
                        if let (false, Some(sp)) = (sub_match, recs.sub_ptr.as_ref()) {
                            e.suppressed_brings.insert(key_of(sp));
                        }
                    }
                } else if wire::names_eq_exact(&qu.name, &recs.meta.name) {
                    add_answer(&recs.meta, &mut e);
                }
            } else {
                // host name questions: the address types asked for, whatever the transport
                if wire::names_eq_nocase(&qu.name, &recs.srv_target()) && matches!(qu.qtype, wire::T_A | wire::T_AAAA | wire::T_ANY) {
                    for a in recs.addrs.iter() {
                        if qu.qtype == wire::T_ANY || qu.qtype == a.rtype {
                            add_answer(a, &mut e);
                        }
                    }
                }
                if wire::names_eq_nocase(&qu.name, &recs.srv.name) && !fam_addrs.is_empty() {
                    if qu.qtype == wire::T_SRV || qu.qtype == wire::T_ANY {
                        if add_answer(&recs.srv, &mut e) && qu.qtype == wire::T_SRV {
                            for a in fam_addrs.iter() {
                                e.additionals.insert(key_of(a));
                            }
                        } else if e.optional.contains(&key_of(&recs.srv)) {
                            // an answer that may or may not be given may or may not bring its addresses
                            for a in recs.addrs.iter() {
                                e.may_bring.insert(key_of(a));
                            }
                        } else if qu.qtype == wire::T_SRV && suppressed(&recs.srv, known) {
                            for a in recs.addrs.iter() {
                                e.suppressed_brings.insert(key_of(a));
                            }
                        }
                    }
                    if qu.qtype == wire::T_TXT || qu.qtype == wire::T_ANY {
                        add_answer(&recs.txt, &mut e);
                    }
                }
            }
        }
    }
    e
}

impl SvcRecords {
    fn srv_target(&self) -> Name {
        match &self.srv.rdata {
            RData::Srv { target, .. } => target.clone(),
            _ => Vec::new(),
        }
    }
}

/// One injected query and where to find the reply.
pub struct Probe {
    pub t: u64,
    pub rx_idx: usize,
    pub if_index: u32,
    pub v4: bool,
    pub src: SocketAddr,
    pub query: Message,
    /// The daemon had nothing else to do at that instant.
    pub isolated: bool,
}

pub struct Made {
    pub world: World,
    pub desc: String,
    pub probes: Vec<Probe>,
    pub horizon: u64,
}

fn case_variant(rng: &mut Rng, n: &Name) -> Name {
    match rng.below(3) {
        0 => n.iter().map(|l| l.to_ascii_uppercase()).collect(),
        1 => n.iter().map(|l| l.iter().enumerate().map(|(i, c)| if i % 2 == 0 { c.to_ascii_uppercase() } else { *c }).collect()).collect(),
        _ => n.clone(),
    }
}

/// `ka_heavy`: most queries carry known answers around the half-TTL boundary (C10).
pub fn scenario(seed: u64, ka_heavy: bool) -> Made {
    let mut rng = Rng::new(seed);
    let mut w = World::new(seed);
    w.set_stepping(Stepping::Lazy);
    let ifs = match rng.below(5) {
        0 => scen::single_v4(),
        1 => scen::single_dual(),
        2 => scen::two_v4(),
        3 => scen::three_mixed(),
        _ => scen::random_topology(&mut rng),
    };
    let h = w.add_host(ifs.clone());
    let t0 = w.now();
    w.set_ip_check_interval(h, 3600);
    let n_svcs = 1 + rng.usize(4);
    let shared = rng.chance(1, 2);
    let mut desc = format!("ifs={} svcs={n_svcs} shared_host={shared} ka_heavy={ka_heavy}:", ifs.len());
    let mut host_addrs: Vec<IpAddr> = Vec::new();
    for i in ifs.iter() {
        for (a, _) in i.addrs.iter() {
            if rng.chance(3, 4) {
                host_addrs.push(*a);
            }
        }
    }
    if host_addrs.is_empty() {
        host_addrs.push(ifs[0].addrs[0].0);
    }
    let family_split = shared && util::mix(seed, 0x5F) % 3 == 0;
    if family_split {
        desc.push_str(" family-split");
    }
    let mut regs: Vec<RegInfo> = Vec::new();
    for s in 0..n_svcs {
        let ty = *rng.pick(&["_t._udp.local.", "_t._udp.local.", "_http._tcp.local.", "_p._sub._t._udp.local."]);
        let inst = match rng.below(9) {
            0..=2 => format!("Svc{s}"),
            3 => format!("\u{c9}cole{s}"),
            _ => format!("svc{s}"),
        };
        let host = if shared { "Box.local.".to_string() } else { format!("box{s}.local.") };
        let addrs = if shared && family_split {
            // services sharing a host name, each giving the addresses of one family or of both: per record type
            // the sets agree or are empty, so the services do not contradict one another
            let v4s: Vec<IpAddr> = host_addrs.iter().filter(|a| a.is_ipv4()).copied().collect();
            let v6s: Vec<IpAddr> = host_addrs.iter().filter(|a| a.is_ipv6()).copied().collect();
            match rng.below(3) {
                0 if !v4s.is_empty() => v4s,
                1 if !v6s.is_empty() => v6s,
                _ => host_addrs.clone(),
            }
        } else if shared {
            host_addrs.clone()
        } else {
            let mut v: Vec<IpAddr> = host_addrs.iter().filter(|_| rng.chance(3, 4)).copied().collect();
            if v.is_empty() {
                v.push(host_addrs[0]);
            }
            v
        };
        let txt_val = format!("v{s}");
        let reg = World::reg_info(ty, &inst, &host, &addrs, 1000 + s as u16, &[("k", Some(txt_val.as_bytes())), ("flag", None)]);
        regs.push(reg);
    }
    // timeline: registrations at 0..1500 ms, later re-register / unregister, queries throughout
    let mut ops: Vec<(u64, u8, usize)> = Vec::new();
    for s in 0..n_svcs {
        ops.push((rng.below(1500), 0, s));
        // (re-registering a name within the 120 ms goodbye repeat of its unregister makes the daemon
        // see its own goodbye as a conflict and rename the service: noted in DESIGN §12, kept out here)
        match rng.below(8) {
            0 | 1 => ops.push((3000 + rng.below(3000), 1, s)), // re-register with new values
            2 | 3 => ops.push((3000 + rng.below(4000), 2, s)), // unregister
            _ => {}
        }
    }
    let n_queries = 10 + rng.usize(30);
    for _ in 0..n_queries {
        ops.push((rng.below(9000), 3, 0));
    }
    ops.sort();
    let mut probes = Vec::new();
    for (t, kind, s) in ops {
        w.run_until(t0 + t);
        match kind {
            0 => {
                w.register(h, regs[s].clone());
                desc.push_str(&format!(" @{t}:register{s}"));
            }
            1 => {
                regs[s].port += 100;
                regs[s].txt[0].1 = Some(b"updated".to_vec());
                w.register(h, regs[s].clone());
                desc.push_str(&format!(" @{t}:re-register{s}"));
            }
            2 => {
                let full = format!("{}.{}", regs[s].instance, regs[s].ty_only);
                w.unregister(h, &full);
                desc.push_str(&format!(" @{t}:unregister{s}"));
            }
            _ => {
                // a query
                let i = rng.pick(&ifs).clone();
                let v4 = if i.has_family(true) && i.has_family(false) { rng.chance(1, 2) } else { i.has_family(true) };
                let port = if rng.chance(1, 5) { 40000 + rng.below(1000) as u16 } else { 5353 };
                let src: SocketAddr = if v4 {
                    let o = i.v4().unwrap().octets();
                    sock4([o[0], o[1], o[2], 99], port)
                } else {
                    let mut seg = i.v6().unwrap().segments();
                    seg[7] = 0x99;
                    sock6(std::net::Ipv6Addr::from(seg), port, i.index)
                };
                let mut q = Message::query();
                q.id = if rng.chance(1, 2) { rng.u64() as u16 | 1 } else { 0 };
                let max_q = if rng.chance(1, 8) { 8 } else { 3 };
                let nq = 1 + rng.usize(max_q);
                for _ in 0..nq {
                    let r = rng.pick(&regs).clone();
                    let inst = scen::wire_name(&format!("{}.{}", r.instance, r.ty_only));
                    let host = scen::wire_name(&r.host);
                    let question = match rng.below(12) {
                        0 | 1 => wire::question(&scen::wire_name(&r.ty_only), wire::T_PTR),
                        2 => wire::question(&scen::wire_name(r.subtype.as_deref().unwrap_or(&r.ty_only)), wire::T_PTR),
                        3 => wire::question(&scen::wire_name(META), wire::T_PTR),
                        4 => wire::question(&case_variant(&mut rng, &inst), wire::T_SRV),
                        5 => wire::question(&case_variant(&mut rng, &inst), wire::T_TXT),
                        6 => wire::question(&case_variant(&mut rng, &inst), wire::T_ANY),
                        7 => wire::question(&case_variant(&mut rng, &host), wire::T_A),
                        8 => wire::question(&case_variant(&mut rng, &host), wire::T_AAAA),
                        9 => wire::question(&case_variant(&mut rng, &host), wire::T_ANY),
                        10 => wire::question(&wire::name("nobody._t._udp.local"), wire::T_SRV),
                        _ => Question { name: inst.clone(), qtype: *rng.pick(&[wire::T_CNAME, wire::T_HINFO, wire::T_NSEC]), qclass: 1 },
                    };
                    if !q.questions.contains(&question) {
                        q.questions.push(question);
                    }
                }
                // known answers
                if rng.chance(if ka_heavy { 5 } else { 1 }, 6) {
                    for _ in 0..1 + rng.usize(4) {
                        let r = rng.pick(&regs).clone();
                        let mut full = r.clone();
                        full.fullname = format!("{}.{}", r.instance, r.ty_only);
                        let recs = records_of(&full, &i);
                        let mut cand: Vec<Record> = vec![recs.ptr.clone(), recs.srv.clone(), recs.txt.clone(), recs.meta.clone()];
                        cand.extend(recs.sub_ptr.clone());
                        cand.extend(recs.addrs.clone());
                        let mut k = rng.pick(&cand).clone();
                        let full_ttl = k.ttl;
                        k.ttl = *rng.pick(&[0, 1, full_ttl / 2 - 1, full_ttl / 2, full_ttl / 2 + 1, full_ttl, u32::MAX]);
                        // near misses
                        match rng.below(8) {
                            0 => {
                                if let RData::Srv { port, .. } = &mut k.rdata {
                                    *port += 1;
                                }
                                if let RData::Txt(t) = &mut k.rdata {
                                    t.push(0);
                                }
                            }
                            1 => k.class = 3,
                            2 => k.name = case_variant(&mut rng, &k.name),
                            3 => {
                                // same owner, same RDATA, another type: a CNAME to the instance is not the PTR
                                if k.rtype == wire::T_PTR {
                                    k.rtype = wire::T_CNAME;
                                }
                            }
                            _ => {}
                        }
                        if rng.chance(1, 2) {
                            k.class &= !wire::FLUSH; // known answers are sent without the flush bit
                        }
                        q.answers.push(k);
                    }
                }
                // header bits that stub resolvers set and that mean nothing to a responder: RD, AD, CD, AA
                if rng.chance(1, 4) {
                    q.flags |= *rng.pick(&[0x0100u16, 0x0120, 0x0010, 0x0400, 0x0020]);
                }
                // what ordinary stub resolvers append: an EDNS0 OPT pseudo-record (root name, no RDATA or one option),
                // or a record of a type the daemon has never heard of
                match rng.below(10) {
                    0 => q.additionals.push(wire::rec(&Vec::new(), 41, 1232, 0, RData::Raw(Vec::new()))),
                    1 => q.additionals.push(wire::rec(&Vec::new(), 41, 4096, 0, RData::Raw(vec![0, 10, 0, 8, 1, 2, 3, 4, 5, 6, 7, 8]))),
                    2 => q.additionals.push(wire::rec(&wire::name("whatever.local"), 65, 1, 120, RData::Raw(vec![0, 1, 0, 0, 1, 0, 3, 2, b'h', b'2']))),
                    _ => {}
                }
                // is the daemon idle at this instant?
                let wake = w.hosts[h].ctx.lock().wakeup;
                let isolated = wake.is_none_or(|x| x > w.now()) && !w.hosts[h].needs_run;
                let rx_idx = w.trace.entries.len();
                w.inject_msg(h, i.index, src, &q);
                w.settle();
                probes.push(Probe { t: w.now(), rx_idx, if_index: i.index, v4, src, query: q, isolated });
            }
        }
    }
    let horizon = t0 + 9500;
    w.run_until(horizon);
    Made { world: w, desc, probes, horizon }
}

/// A service (or its host) loses a conflict while probing and is renamed; afterwards questions
/// of every kind about the names in force and about the names it lost.
pub fn rename_scenario(seed: u64) -> Made {
    let mut rng = Rng::new(seed);
    let mut w = World::new(seed);
    w.set_stepping(Stepping::Lazy);
    let ifs = if rng.chance(1, 3) { scen::single_dual() } else { scen::single_v4() };
    let h = w.add_host(ifs.clone());
    let t0 = w.now();
    w.set_ip_check_interval(h, 3600);
    let addrs: Vec<IpAddr> = ifs[0].addrs.iter().map(|(a, _)| *a).collect();
    let ty = *rng.pick(&["_t._udp.local.", "_p._sub._t._udp.local."]);
    let inst_label = if rng.chance(1, 3) { "Printer" } else { "printer" };
    let reg = World::reg_info(ty, inst_label, "box.local.", &addrs, 1000, &[("k", Some(b"v")), ("flag", None)]);
    w.register(h, reg.clone());
    let at = 20 + rng.below(600);
    w.run_until(t0 + at);
    let which = rng.below(3);
    let inst = scen::wire_name(&format!("{inst_label}.{}", reg.ty_only));
    let host = scen::wire_name("box.local.");
    let mut m = Message::response();
    if which != 1 {
        m.answers.push(wire::a(&host, 120, [10, 0, 0, 77]));
    }
    if which != 0 {
        m.answers.push(wire::srv(&inst, 120, 9, &scen::wire_name("other.local.")));
    }
    for r in m.answers.iter_mut() {
        r.class |= wire::FLUSH;
    }
    w.inject_msg(h, 2, scen::peer4(77), &m);
    let mut desc = format!("rename: ifs={} type={ty} instance={inst_label} @{at}:conflicting-{}:", ifs.len(), ["address", "srv", "srv+address"][which as usize]);
    let mut times: Vec<u64> = (0..10 + rng.usize(12)).map(|_| at + 3300 + rng.below(4000)).collect();
    times.sort();
    let ty_name = scen::wire_name(&reg.ty_only);
    let mut probes = Vec::new();
    for t in times {
        w.run_until(t0 + t);
        // the names in force, read off the latest announcement
        let txs = scen::tx_msgs(&w.trace, 0);
        let in_force = txs.iter().filter(|tx| tx.msg.is_response() && tx.multicast).filter_map(|tx| {
            tx.msg.answers.iter().filter(|r| r.rtype == wire::T_PTR && wire::names_eq_nocase(&r.name, &ty_name)).find_map(|p| {
                let RData::Ptr(x) = &p.rdata else { return None };
                tx.msg.answers.iter().find_map(|r| match &r.rdata {
                    RData::Srv { port, target, .. } if wire::names_eq_nocase(&r.name, x) && *port == 1000 => Some((x.clone(), target.clone())),
                    _ => None,
                })
            })
        }).last();
        let (cur_inst, cur_host) = in_force.unwrap_or((inst.clone(), host.clone()));
        let i = ifs[0].clone();
        let v4 = if i.has_family(false) { rng.chance(1, 2) } else { true };
        let port = if rng.chance(1, 5) { 40000 + rng.below(1000) as u16 } else { 5353 };
        let src: SocketAddr = if v4 { sock4([10, 0, 0, 99], port) } else { sock6("fe80::99".parse().unwrap(), port, i.index) };
        let mut q = Message::query();
        q.id = if rng.chance(1, 2) { rng.u64() as u16 | 1 } else { 0 };
        for _ in 0..1 + rng.usize(2) {
            let question = match rng.below(12) {
                0 => wire::question(&ty_name, wire::T_PTR),
                1 => wire::question(&scen::wire_name(reg.subtype.as_deref().unwrap_or(&reg.ty_only)), wire::T_PTR),
                2 => wire::question(&case_variant(&mut rng, &cur_inst), wire::T_SRV),
                3 => wire::question(&case_variant(&mut rng, &cur_inst), wire::T_TXT),
                4 => wire::question(&case_variant(&mut rng, &cur_inst), wire::T_ANY),
                5 => wire::question(&case_variant(&mut rng, &cur_host), wire::T_A),
                6 => wire::question(&case_variant(&mut rng, &cur_host), wire::T_ANY),
                7 => wire::question(&case_variant(&mut rng, &cur_host), wire::T_AAAA),
                8 => wire::question(&inst, wire::T_SRV),
                9 => wire::question(&inst, wire::T_ANY),
                10 => wire::question(&host, wire::T_A),
                _ => wire::question(&host, wire::T_ANY),
            };
            if !q.questions.contains(&question) {
                q.questions.push(question);
            }
        }
        let wake = w.hosts[h].ctx.lock().wakeup;
        let isolated = wake.is_none_or(|x| x > w.now()) && !w.hosts[h].needs_run;
        let rx_idx = w.trace.entries.len();
        w.inject_msg(h, i.index, src, &q);
        w.settle();
        probes.push(Probe { t: w.now(), rx_idx, if_index: i.index, v4, src, query: q, isolated });
    }
    desc.push_str(&format!(" {} queries", probes.len()));
    let horizon = w.now() + 500;
    w.run_until(horizon);
    Made { world: w, desc, probes, horizon }
}

/// The model state of every service at entry index `idx` (time `t`): latest registration and
/// whether it has been announced on interface `if_index` since.
pub fn states_at(trace: &Trace, host: usize, idx: usize, if_index: u32) -> Vec<(SvcState, bool)> {
    let mut v: Vec<SvcState> = Vec::new();
    for e in trace.entries[..idx].iter() {
        if e.host != host {
            continue;
        }
        if let Ev::Api { call, result: ApiResult::Ok, .. } = &e.ev {
            match call {
                ApiCall::Register(r) => {
                    v.retain(|s| !s.reg.fullname.eq_ignore_ascii_case(&r.fullname));
                    v.push(SvcState { reg: (**r).clone(), t_reg: e.t, unregistered_at: None });
                }
                ApiCall::Unregister(n) => {
                    for s in v.iter_mut() {
                        if s.reg.fullname.eq_ignore_ascii_case(n) && s.unregistered_at.is_none() {
                            s.unregistered_at = Some(e.t);
                        }
                    }
                }
                _ => {}
            }
        }
    }
    let txs = trace.entries[..idx].iter().enumerate().filter_map(|(k, e)| match &e.ev {
        Ev::Tx(tx) if e.host == host && tx.out_if == Some(if_index) => tx.msg.as_ref().ok().map(|m| (k, e.t, m)),
        _ => None,
    });
    let txs: Vec<(usize, u64, &Message)> = txs.collect();
    v.into_iter()
        .map(|s| {
            let inst = scen::wire_name(&s.reg.fullname);
            let ty = scen::wire_name(&s.reg.ty_only);
            // announced: an unsolicited response with PTR and SRV in the answer section, after the registration call
            let reg_idx = trace.entries[..idx]
                .iter()
                .rposition(|e| matches!(&e.ev, Ev::Api { call: ApiCall::Register(r), result: ApiResult::Ok, .. } if r.fullname.eq_ignore_ascii_case(&s.reg.fullname)))
                .unwrap_or(0);
            let mut announced = s.unregistered_at.is_none()
                && txs.iter().any(|(k, _, m)| {
                    *k > reg_idx
                        && m.is_response()
                        && scen::answers_ptr(m, &ty, &inst)
                        && m.answers.iter().any(|r| r.rtype == wire::T_SRV && wire::names_eq_nocase(&r.name, &inst))
                });
            // a service renamed by conflict resolution answers under the names it last announced on this
            // interface: read them off that announcement (PTR of the type -> X, SRV at X with the service's port)
            let mut s = s;
            if s.unregistered_at.is_none() {
                let in_force = txs.iter().filter(|(k, _, m)| *k > reg_idx && m.is_response()).filter_map(|(_, _, m)| {
                    m.answers.iter().filter(|r| r.rtype == wire::T_PTR && wire::names_eq_nocase(&r.name, &ty)).find_map(|p| {
                        let RData::Ptr(x) = &p.rdata else { return None };
                        m.answers.iter().find_map(|r| match &r.rdata {
                            RData::Srv { port, target, .. } if r.rtype == wire::T_SRV && wire::names_eq_nocase(&r.name, x) && *port == s.reg.port => Some((x.clone(), target.clone())),
                            _ => None,
                        })
                    })
                }).last();
                if let Some((x, target)) = in_force {
                    if !wire::names_eq_nocase(&x, &inst) {
                        s.reg.fullname = wire::escaped(&x);
                    }
                    if !wire::names_eq_nocase(&target, &scen::wire_name(&s.reg.host)) {
                        s.reg.host = wire::escaped(&target);
                    }
                    announced = true;
                }
            }
            (s, announced)
        })
        .collect()
}

/// Was the service's state on this interface in flux around the query (probing after a
/// re-registration, or registered in this very instant)? Then nothing is required or forbidden.
fn in_flux(trace: &Trace, host: usize, p: &Probe, s: &SvcState, announced: bool) -> bool {
    if s.unregistered_at.is_some() {
        return false;
    }
    if !announced {
        // registered but not (re-)announced yet: it may become announced in the very iteration that answers
        let _ = (trace, host);
        return s.t_reg + 1100 > p.t && s.t_reg + 700 < p.t;
    }
    false
}

pub fn monitor(made: &Made, which: &str, l: &mut Local) {
    let trace = &made.world.trace;
    let host = 0;
    for p in made.probes.iter() {
        if !p.isolated {
            l.count("queries_skipped_not_isolated", 1);
            continue;
        }
        let ifs = trace.ifs_at(host, p.t);
        let Some(i) = ifs.iter().find(|i| i.index == p.if_index) else { continue };
        let rx_iter = trace.entries[p.rx_idx].iter;
        let replies: Vec<(&Entry, &TxInfo)> = trace
            .entries
            .iter()
            .skip(p.rx_idx)
            .filter_map(|e| match &e.ev {
                Ev::Tx(tx) if e.host == host && e.t == p.t && e.iter == rx_iter + 1 => Some((e, tx)),
                _ => None,
            })
            .collect();
        let states = states_at(trace, host, p.rx_idx, p.if_index);
        if states.iter().any(|(s, a)| in_flux(trace, host, p, s, *a)) {
            l.count("queries_skipped_state_in_flux", 1);
            continue;
        }
        let exp = expect(&states, i, p.v4, &p.query);
        let legacy = p.src.port() != 5353;
        let has_ka = !p.query.answers.is_empty();
        let wit = || {
            json!({"scenario": made.desc, "query": render_msg(&p.query), "from": p.src.to_string(), "interface": i.name,
                   "services": states.iter().map(|(s, a)| format!("{} port={} announced_here={} unregistered={:?}", s.reg.fullname, s.reg.port, a, s.unregistered_at.is_some())).collect::<Vec<_>>(),
                   "expected_answers": exp.answers.iter().map(|k| format!("{k:?}")).collect::<Vec<_>>(),
                   "replies": replies.iter().map(|(e, _)| render_entry(e)).collect::<Vec<_>>()})
        };
        let key = format!(
            "{}|{}|q{}|ka{}|exp{}",
            if legacy { "legacy" } else { "mdns" },
            if p.v4 { 4 } else { 6 },
            p.query.questions.iter().map(|q| q.qtype.to_string()).collect::<Vec<_>>().join(","),
            p.query.answers.len().min(3),
            exp.answers.len().min(4)
        );
        l.distinct.insert(util::fnv_str(&key));
        let parsed: Vec<(&TxInfo, &Message)> = replies.iter().filter_map(|(_, tx)| tx.msg.as_ref().ok().map(|m| (*tx, m))).collect();
        let responses: Vec<(&TxInfo, &Message)> = parsed.iter().filter(|(_, m)| m.is_response()).cloned().collect();
        // Q5: silence
        if exp.answers.is_empty() && exp.optional.is_empty() {
            l.act(if which == "C10" { "K2" } else { "Q5" });
            if let Some((_, m)) = responses.first() {
                let all_suppressed = has_ka;
                l.violate(
                    Violation::new(
                        if which == "C10" { "K2" } else { "Q5" },
                        format!("{}/answered-where-silence-is-required/{}", if which == "C10" { "K2" } else { "Q5" }, if all_suppressed { "with-known-answers" } else { "no-known-answers" }),
                        format!("a response was sent although nothing matches (or everything is suppressed): {}", render_msg(m)),
                    )
                    .with(wit()),
                );
            }
            continue;
        }
        // exactly one response message
        if responses.is_empty() {
            if !exp.answers.is_empty() {
                l.act("Q1");
                l.violate(
                    Violation::new(if which == "C10" { "K1" } else { "Q1" }, format!("{}/no-response/{}", if which == "C10" { "K1" } else { "Q1" }, if has_ka { "with-known-answers" } else { "no-known-answers" }), "no response although registered, announced records match the question")
                        .with(wit()),
                );
            }
            continue;
        }
        let (tx, m) = responses[0];
        // Q6: destination
        l.act("Q6");
        if legacy {
            let ok = !tx.multicast && tx.dest == p.src && responses.len() == 1;
            if !ok {
                l.violate(Violation::new("Q6", "Q6/legacy-query-not-answered-by-unicast-only", format!("query from port {} answered to {} (multicast={})", p.src.port(), tx.dest, tx.multicast)).with(wit()));
                continue;
            }
            if m.id != p.query.id {
                l.violate(Violation::new("Q6", "Q6/legacy-reply-id-not-echoed", format!("query ID {} but reply ID {}", p.query.id, m.id)).with(wit()));
                continue;
            }
            let echoed: BTreeSet<String> = m.questions.iter().map(|q| format!("{}/{}", wire::escaped(&wire::lower(&q.name)), q.qtype)).collect();
            let asked: BTreeSet<String> = p.query.questions.iter().map(|q| format!("{}/{}", wire::escaped(&wire::lower(&q.name)), q.qtype)).collect();
            if echoed != asked {
                l.violate(Violation::new("Q6", "Q6/legacy-reply-question-not-echoed", "the questions are not echoed in the unicast reply").with(wit()));
                continue;
            }
            if m.records().any(|r| r.flush()) {
                l.violate(Violation::new("Q6", "Q6/legacy-reply-with-cache-flush-bit", "a unicast (legacy) reply carries a cache-flush bit").with(wit()));
                continue;
            }
        } else {
            let ok = tx.multicast && tx.out_if == Some(p.if_index) && tx.v4 == p.v4;
            if !ok {
                l.violate(
                    Violation::new("Q6", "Q6/reply-not-multicast-on-receiving-link", format!("query on {} over {} answered to {} on interface {:?}", i.name, if p.v4 { "IPv4" } else { "IPv6" }, tx.dest, tx.out_if))
                        .with(wit()),
                );
                continue;
            }
        }
        // Q1 / K1 / K2: the answer set
        let strip = |k: &Key| -> Key {
            if legacy {
                (k.0.clone(), k.1, false, k.3, k.4.clone())
            } else {
                k.clone()
            }
        };
        let got: BTreeSet<Key> = m.answers.iter().map(key_of).collect();
        let want: BTreeSet<Key> = exp.answers.iter().map(strip).collect();
        let optional: BTreeSet<Key> = exp.optional.iter().map(strip).collect();
        l.act(if which == "C10" && has_ka { "K1" } else { "Q1" });
        let missing: Vec<&Key> = want.iter().filter(|k| !got.contains(*k)).collect();
        let extra: Vec<&Key> = got.iter().filter(|k| !want.contains(*k) && !optional.contains(*k)).collect();
        if !missing.is_empty() || !extra.is_empty() {
            // classify
            let loose = |k: &Key| (k.0.clone(), k.1, k.4.clone());
            let value_only = missing.iter().all(|k| got.iter().any(|g| loose(g) == loose(k))) && extra.iter().all(|k| want.iter().any(|g| loose(g) == loose(k)));
            let (rule, sig) = if value_only {
                ("Q3", "Q3/ttl-or-flush-bit-wrong".to_string())
            } else if !extra.is_empty() && extra.iter().all(|k| suppressed_key(k, &p.query.answers)) {
                ("K2", "K2/suppressed-answer-sent".to_string())
            } else if !missing.is_empty() && has_ka && extra.is_empty() {
                let sub = missing.iter().any(|k| k.0.contains("._sub."));
                ("K1", format!("K1/answer-missing-with-known-answers{}", if sub { "/subtype" } else { "" }))
            } else {
                let sub_q = p.query.questions.iter().any(|q| q.name.iter().any(|l| l.eq_ignore_ascii_case(b"_sub")));
                let kind = if !missing.is_empty() && !extra.is_empty() { "wrong-records" } else if !missing.is_empty() { "missing" } else { "extra" };
                ("Q1", format!("Q1/answer-set-differs/{kind}{}", if sub_q { "/subtype-question" } else { "" }))
            };
            l.violate(
                Violation::new(rule, sig, format!("answer section differs from the model: missing {:?}, unexpected {:?}", missing.iter().take(3).collect::<Vec<_>>(), extra.iter().take(3).collect::<Vec<_>>()))
                    .with(wit()),
            );
            continue;
        }
        // Q2: additionals
        l.act("Q2");
        let all: BTreeSet<Key> = m.records().map(key_of).collect();
        let miss_add: Vec<Key> = exp.additionals.iter().map(strip).filter(|k| !all.contains(k)).collect();
        if !miss_add.is_empty() {
            l.violate(Violation::new("Q2", "Q2/additional-records-missing", format!("records that a PTR/SRV answer must bring are missing: {:?}", &miss_add[..miss_add.len().min(3)])).with(wit()));
            continue;
        }
        // K2 (additionals): what only a suppressed answer would have brought stays out with it
        if !exp.suppressed_brings.is_empty() {
            l.act("K2-additionals");
            let loose = |k: &Key| (k.0.clone(), k.1, k.4.clone());
            let justified: BTreeSet<_> = exp.additionals.iter().chain(exp.answers.iter()).chain(exp.optional.iter()).chain(exp.may_bring.iter()).map(loose).collect();
            let leaked: Vec<Key> = m.additionals.iter().map(key_of).filter(|k| exp.suppressed_brings.iter().any(|s| loose(s) == loose(k)) && !justified.contains(&loose(k))).collect();
            if !leaked.is_empty() {
                l.violate(
                    Violation::new("K2", "K2/additionals-of-suppressed-answer-sent", format!("the answer that would have brought them was left out because of a known answer, yet the response carries {:?}", &leaked[..leaked.len().min(3)]))
                        .with(wit()),
                );
                continue;
            }
        }
        // Q4: only addresses inside the receiving interface's subnet
        l.act("Q4");
        for r in m.records() {
            let ip: Option<IpAddr> = match &r.rdata {
                RData::A(a) => Some(IpAddr::from(*a)),
                RData::Aaaa(a) => Some(IpAddr::from(*a)),
                _ => None,
            };
            if let Some(ip) = ip {
                if !i.in_subnet(&ip) {
                    l.violate(Violation::new("Q4", "Q4/address-outside-receiving-subnet", format!("{ip} sent on {} whose subnets do not contain it", i.name)).with(wit()));
                    break;
                }
            }
        }
        // Q3: TTL / flush on everything sent
        l.act("Q3");
        for r in m.records() {
            let (want_ttl, want_flush) = match r.rtype {
                wire::T_PTR => (4500, false),
                wire::T_TXT => (4500, !legacy),
                wire::T_SRV | wire::T_A | wire::T_AAAA => (120, !legacy),
                _ => continue,
            };
            if r.ttl != want_ttl || r.flush() != want_flush || r.class_only() != 1 {
                l.violate(
                    Violation::new("Q3", "Q3/ttl-class-or-flush-bit-wrong", format!("record {} type {} sent with ttl {} flush {} class {}", wire::escaped(&r.name), r.rtype, r.ttl, r.flush(), r.class_only()))
                        .with(wit()),
                );
                break;
            }
        }
    }
}

fn suppressed_key(k: &Key, known: &[Record]) -> bool {
    known.iter().any(|r| {
        let kk = key_of(r);
        kk.0 == k.0 && kk.1 == k.1 && kk.4 == k.4
    })
}

pub fn run_one(seed: u64, which: &str, l: &mut Local) {
    // (one scenario in six of C06's: a service renamed by conflict resolution)
    let made = if which == "C06" && seed % 6 == 0 { rename_scenario(seed) } else { scenario(seed, which == "C10") };
    l.evaluations += 1;
    let w = &made.world;
    l.count("daemon_iterations", w.total_iterations);
    l.count("queries_injected", made.probes.len() as u64);
    if w.trace.deaths().any(|d| matches!(d.ev, Ev::Death { panicked: true, .. })) {
        l.inconclusive.push(format!("daemon died in a responder scenario (seed {seed})"));
        return;
    }
    if l.samples.len() < 2 {
        l.samples.push(json!({"scenario": made.desc, "first_query": made.probes.first().map(|p| render_msg(&p.query))}));
    }
    monitor(&made, which, l);
}

pub fn run(report: &Report, tier: &Tier) {
    report.set_rule(
        "responder scenarios: 1..3 interfaces on differing subnets (v4/v6/both), 1..4 services (types, subtype, shared or separate hosts, upper-case \
         letters), registered at 0..1.5 s, re-registered with new port/TXT, unregistered; 10..39 queries per scenario at any time (before, during, \
         after probing) with 1..8 questions among type/subtype/meta PTR, SRV, TXT, ANY on the instance, A/AAAA/ANY on the host (case variants), \
         foreign names, other types; from port 5353 or an ephemeral port, over IPv4 or IPv6, with and without known answers; one scenario in six: a service whose \
         instance and/or host name lost a conflict while probing, then questions about the names in force and the names it lost; distinct by \
         (port class, family, question types, #known answers, #expected answers)",
    );
    report.assume("a query is judged only if the daemon had nothing else due at that instant, and not within the 400 ms around the end of probing");
    report.assume("after a rename by conflict resolution the names in force are the ones last announced on the interface (read off the wire)");
    for r in ["Q1", "Q2", "Q3", "Q4", "Q5", "Q6"] {
        report.floor(r, 100);
    }
    let seed = report.seed;
    let n: u64 = if tier.thorough { 500_000 } else { 3_000 };
    run_parallel(report, n, threads(), tier.budget_s, |i, l| {
        run_one(util::mix(seed, 0xC06_0000 + i), "C06", l);
    });
}

pub fn run_c10_responder(report: &Report, tier: &Tier, share: f64) {
    let seed = report.seed;
    let n: u64 = if tier.thorough { 500_000 } else { 3_000 };
    run_parallel(report, n, threads(), tier.budget_s * share, |i, l| {
        run_one(util::mix(seed, 0xC10_0000 + i), "C10", l);
    });
}
