//! C02 — every emitted packet parses back to exactly the records that were added.
//!
//! Ground truth is kept as label lists and raw RDATA (`wire::Message`); the message
//! is built through the crate's encoder (facade `OutBuilder`), every packet is
//! parsed by the independent parser `W` and by the crate's own decoder.
//!
//! E1 size ≤ 8972; E2 strict parse (counts = entries, no trailing bytes);
//! E3 per section the parsed entries are an order-preserving subsequence of the added
//! ones (nothing invented, names intact); E4 nothing that would have fitted is
//! missing; E5 TC on every packet but the last, questions only in the first;
//! E6 the crate's decoder reads the same content.

use crate::facade;
use crate::gen;
use crate::report::{run_parallel, threads, Local, Report, Violation};
use crate::util::{self, Rng};
use crate::wire::{self, Message, Name, RData, Record};
use crate::Tier;
use mdns_sd::verif::codec;
use serde_json::json;

const MAX_PACKET: usize = 8972;

fn describe(m: &Message) -> serde_json::Value {
    let rec = |r: &Record| {
        format!(
            "{} t{} c{:#x} ttl{} {}",
            wire::escaped(&r.name),
            r.rtype,
            r.class,
            r.ttl,
            match &r.rdata {
                RData::Txt(t) => format!("txt[{}]", t.len()),
                other => crate::world::render_rdata(other),
            }
        )
    };
    json!({
        "flags": format!("{:#06x}", m.flags),
        "questions": m.questions.iter().map(|q| format!("{}/{}", wire::escaped(&q.name), q.qtype)).collect::<Vec<_>>(),
        "answers": m.answers.iter().take(40).map(rec).collect::<Vec<_>>(),
        "authorities": m.authorities.iter().take(40).map(rec).collect::<Vec<_>>(),
        "additionals": m.additionals.iter().take(40).map(rec).collect::<Vec<_>>(),
        "counts": [m.questions.len(), m.answers.len(), m.authorities.len(), m.additionals.len()],
    })
}

/// `names`: the name strings handed to the crate for each wire name (normally the
/// escaped spelling; for ServiceInfo-derived names, what `get_fullname` returned).
pub struct Case {
    pub msg: Message,
    pub class: &'static str,
}

pub fn check_case(case: &Case, l: &mut Local) {
    l.evaluations += 1;
    let m = &case.msg;
    let Some(packets) = facade::encode_with_crate(m) else {
        // encoder panicked or the message is outside the encoder's input domain
        l.count("not_encodable", 1);
        return;
    };
    l.count(&format!("class_{}", case.class), 1);
    let total_uncompressed: usize = 12
        + m.questions
            .iter()
            .map(|q| wire::uncompressed_name_len(&q.name) + 4)
            .sum::<usize>()
        + m.records().map(wire::uncompressed_record_len).sum::<usize>();
    let witness = || {
        json!({"class": case.class, "message": describe(m),
               "packets": packets.iter().map(|p| json!({"len": p.len(), "hex": wire::hex(&p[..p.len().min(600)])})).collect::<Vec<_>>()})
    };
    let key = format!(
        "{}|p{}|q{}a{}n{}r{}|{}",
        case.class,
        packets.len().min(4),
        m.questions.len().min(3),
        m.answers.len().min(4),
        m.authorities.len().min(3),
        m.additionals.len().min(4),
        (total_uncompressed / 1500).min(12)
    );
    l.distinct.insert(util::fnv_str(&key));
    l.max("max_packets_per_message", packets.len() as u64);

    let mut parsed: Vec<Message> = Vec::new();
    for (pi, p) in packets.iter().enumerate() {
        l.act("E1");
        if p.len() > MAX_PACKET {
            l.violate(
                Violation::new("E1", "E1/packet-too-large", format!("packet {pi} has {} bytes", p.len()))
                    .with(witness()),
            );
            return;
        }
        l.act("E2");
        match wire::parse(p) {
            Ok((pm, _)) => parsed.push(pm),
            Err(e) => {
                l.violate(
                    Violation::new(
                        "E2",
                        format!("E2/unparseable/{}/{}", e.what, if pi == 0 { "first" } else { "continuation" }),
                        format!("packet {pi} of {} does not parse: {e}", packets.len()),
                    )
                    .with(witness()),
                );
                return;
            }
        }
    }

    // E5
    if packets.len() > 1 {
        l.act("E5");
        for (pi, pm) in parsed.iter().enumerate() {
            let last = pi + 1 == parsed.len();
            if !last && !pm.tc() {
                l.violate(
                    Violation::new("E5", "E5/missing-TC", format!("packet {pi} of {} has no TC bit", parsed.len()))
                        .with(witness()),
                );
                return;
            }
            if pi > 0 && !pm.questions.is_empty() {
                l.violate(
                    Violation::new("E5", "E5/question-in-continuation", "a continuation packet carries questions")
                        .with(witness()),
                );
                return;
            }
        }
    }

    // questions: exactly the added ones, in the first packet
    l.act("E3");
    let got_q: Vec<&wire::Question> = parsed.iter().flat_map(|p| p.questions.iter()).collect();
    let fits_all = total_uncompressed <= MAX_PACKET;
    if got_q.len() != m.questions.len() || got_q.iter().zip(m.questions.iter()).any(|(a, b)| *a != b) {
        // questions are never dropped by design of the encoder; treat any difference as E3
        l.violate(
            Violation::new("E3", "E3/questions-differ", "parsed questions differ from the added ones")
                .with(witness()),
        );
        return;
    }

    // records per section
    let sections: [(&'static str, &Vec<Record>, Vec<&Record>); 3] = [
        ("answer", &m.answers, parsed.iter().flat_map(|p| p.answers.iter()).collect()),
        (
            "authority",
            &m.authorities,
            parsed.iter().flat_map(|p| p.authorities.iter()).collect(),
        ),
        (
            "additional",
            &m.additionals,
            parsed.iter().flat_map(|p| p.additionals.iter()).collect(),
        ),
    ];
    let first_len = packets[0].len();
    let last_len = packets.last().map(|p| p.len()).unwrap_or(0);
    let mut overflow_seen = false;
    for (sect, added, got) in sections.iter() {
        let mut ai = 0usize;
        for g in got.iter() {
            // the next unmatched added entry equal to g
            let mut found = None;
            for (k, a) in added.iter().enumerate().skip(ai) {
                if a == *g {
                    found = Some(k);
                    break;
                }
            }
            match found {
                Some(k) => {
                    // entries skipped over are "missing": E4
                    for a in added[ai..k].iter() {
                        if let Some(v) = missing_ok(sect, a, m, first_len, last_len, fits_all, &mut overflow_seen) {
                            l.violate(v.with(witness()));
                            return;
                        }
                    }
                    ai = k + 1;
                }
                None => {
                    let class = classify_invented(g, added);
                    l.violate(
                        Violation::new(
                            "E3",
                            format!("E3/{sect}/{class}"),
                            format!(
                                "{sect} section carries a record that was not added (or out of order): {} t{} {}",
                                wire::escaped(&g.name),
                                g.rtype,
                                crate::world::render_rdata(&g.rdata)
                            ),
                        )
                        .with(witness()),
                    );
                    return;
                }
            }
        }
        for a in added[ai..].iter() {
            if let Some(v) = missing_ok(sect, a, m, first_len, last_len, fits_all, &mut overflow_seen) {
                l.violate(v.with(witness()));
                return;
            }
        }
    }
    l.act("E4");

    // E6: the crate's own decoder
    for (pi, p) in packets.iter().enumerate() {
        l.act("E6");
        match codec::decode(p, "eth0", 2) {
            Err(e) => {
                l.violate(
                    Violation::new(
                        "E6",
                        "E6/own-decoder-rejects",
                        format!("the crate's decoder rejects packet {pi}: {}", util::prefix(&e, 120)),
                    )
                    .with(witness()),
                );
                return;
            }
            Ok(view) => {
                let pm = &parsed[pi];
                let is_response = pm.is_response();
                let pairs: [(&Vec<codec::RecView>, &Vec<Record>); 3] = [
                    (&view.answers, &pm.answers),
                    (&view.authorities, &pm.authorities),
                    (&view.additionals, &pm.additionals),
                ];
                for (got, reference) in pairs {
                    if got.len() != reference.len() {
                        l.violate(
                            Violation::new("E6", "E6/own-decoder-count", "the crate's decoder reads a different number of records")
                                .with(witness()),
                        );
                        return;
                    }
                    for (g, w) in got.iter().zip(reference.iter()) {
                        if let Some((class, detail)) = facade::compare_record(g, w, is_response) {
                            l.violate(
                                Violation::new("E6", format!("E6/own-decoder-differs/{class}"), detail)
                                    .with(witness()),
                            );
                            return;
                        }
                    }
                }
            }
        }
    }
}

/// Decides whether leaving `a` out is allowed. Returns a violation if not.
fn missing_ok(
    sect: &str,
    a: &Record,
    m: &Message,
    first_len: usize,
    last_len: usize,
    fits_all: bool,
    overflow_seen: &mut bool,
) -> Option<Violation> {
    let size = wire::uncompressed_record_len(a);
    if fits_all {
        return Some(Violation::new(
            "E4",
            format!("E4/{sect}/missing-though-message-fits"),
            format!(
                "a {sect} record is missing although the whole message fits one packet uncompressed: {} t{}",
                wire::escaped(&a.name),
                a.rtype
            ),
        ));
    }
    // The packet a record was tried on only grows afterwards, so if it fits behind the
    // packet's final size it would have fitted when it was tried.
    let host_packet_len = if sect == "additional" && m.is_query() {
        last_len
    } else {
        first_len
    };
    let would_fit = host_packet_len + size <= MAX_PACKET;
    if !would_fit {
        *overflow_seen = true;
        return None;
    }
    if sect == "additional" && m.is_response() && *overflow_seen {
        // Adjudicated (DESIGN §12): after the first additional that does not fit, a
        // response is closed; later additionals are left out whole.
        return None;
    }
    Some(Violation::new(
        "E4",
        format!("E4/{sect}/missing-though-it-fits"),
        format!(
            "a {sect} record of {size} bytes (uncompressed) is missing although it fits behind a {host_packet_len}-byte packet: {} t{}",
            wire::escaped(&a.name),
            a.rtype
        ),
    ))
}

fn classify_invented(g: &Record, added: &[Record]) -> &'static str {
    // same record except for names?
    let same_but_owner = added.iter().any(|a| {
        a.rtype == g.rtype && a.class == g.class && a.ttl == g.ttl && a.rdata == g.rdata && a.name != g.name
    });
    if same_but_owner {
        let merged = added.iter().any(|a| {
            a.rdata == g.rdata && a.rtype == g.rtype && wire::dotted(&a.name) == wire::dotted(&g.name)
        });
        return if merged { "owner-label-boundaries-changed" } else { "owner-name-changed" };
    }
    let same_but_rdata_name = added.iter().any(|a| {
        a.name == g.name
            && a.rtype == g.rtype
            && a.class == g.class
            && a.ttl == g.ttl
            && matches!((&a.rdata, &g.rdata), (RData::Ptr(_), RData::Ptr(_)) | (RData::Srv { .. }, RData::Srv { .. }))
    });
    if same_but_rdata_name {
        return "name-in-rdata-changed";
    }
    if added.iter().any(|a| a == g) {
        return "out-of-order-or-duplicated";
    }
    "record-not-added"
}

// ---------------------------------------------------------------------------
// Workloads

fn txt_of(rng: &mut Rng, n: usize) -> RData {
    RData::Txt(rng.bytes(n))
}

fn push_random_section(rng: &mut Rng, m: &mut Message, r: Record) {
    match rng.below(3) {
        0 => m.answers.push(r),
        1 => m.authorities.push(r),
        _ => m.additionals.push(r),
    }
}

fn service_info_name(rng: &mut Rng) -> Option<(Name, String)> {
    // the way the daemon obtains instance names: ServiceInfo::new(...).get_fullname()
    let raw = gen::utf8_label(rng, 63);
    let ty = *rng.pick(&["_t._udp.local.", "_http._tcp.local."]);
    let info = mdns_sd::ServiceInfo::new(ty, &raw, "h.local.", "10.0.0.1", 80, None::<std::collections::HashMap<String, String>>).ok()?;
    let mut labels: Name = vec![raw.into_bytes()];
    labels.extend(wire::name(ty));
    Some((labels, info.get_fullname().to_string()))
}

pub fn gen_case(rng: &mut Rng) -> Case {
    let class_pick = rng.below(10);
    let max_label = if rng.chance(1, 3) { 63 } else { 20 };
    match class_pick {
        0..=3 => Case {
            msg: gen::random_message(rng, gen::CORE_TYPES, 10, max_label),
            class: "small",
        },
        4 => {
            // fill to the limit ± 40 bytes
            let mut m = gen::random_message(rng, gen::CORE_TYPES, 3, max_label);
            let pool = gen::name_pool(rng, 4, max_label);
            let target = MAX_PACKET as i64 + rng.range(0, 80) as i64 - 40;
            loop {
                let size: i64 = 12
                    + m.questions.iter().map(|q| wire::uncompressed_name_len(&q.name) as i64 + 4).sum::<i64>()
                    + m.records().map(|r| wire::uncompressed_record_len(r) as i64).sum::<i64>();
                let room = target - size;
                if room < 40 {
                    break;
                }
                let name = rng.pick(&pool).clone();
                let overhead = wire::uncompressed_name_len(&name) as i64 + 10;
                let n = (room - overhead).clamp(0, 900) as usize;
                let n = if n > 300 && rng.chance(1, 2) { rng.range(100, n as u64) as usize } else { n };
                let r = wire::rec(&name, wire::T_TXT, 1 | wire::FLUSH, 4500, txt_of(rng, n));
                push_random_section(rng, &mut m, r);
            }
            Case { msg: m, class: "near-limit" }
        }
        5 | 6 => {
            // several times the limit
            let mut m = gen::random_message(rng, gen::CORE_TYPES, 4, max_label);
            let pool = gen::name_pool(rng, 6, max_label);
            let total = MAX_PACKET * (2 + rng.usize(3));
            let mut size = 0;
            while size < total {
                let mut r = gen::random_record(rng, &pool, gen::CORE_TYPES);
                if r.rtype == wire::T_TXT {
                    let n = rng.usize(1200);
                    r.rdata = txt_of(rng, n);
                }
                size += wire::uncompressed_record_len(&r);
                if class_pick == 5 {
                    // the daemon's own shape: a query with many known answers and additionals
                    m.flags = 0;
                    if rng.chance(1, 2) {
                        m.answers.push(r)
                    } else {
                        m.additionals.push(r)
                    }
                } else {
                    push_random_section(rng, &mut m, r);
                }
            }
            Case { msg: m, class: "several-packets" }
        }
        7 => {
            // one record larger than a packet, followed by small records sharing its name suffixes
            let pool = gen::name_pool(rng, 3, 20);
            let mut m = if rng.chance(1, 2) { Message::response() } else { Message::query() };
            let big_name = rng.pick(&pool).clone();
            let big = wire::rec(&big_name, wire::T_TXT, 1, 4500, txt_of(rng, 9000));
            let mut followers = Vec::new();
            for cut in 0..big_name.len() {
                let suffix: Name = big_name[cut..].to_vec();
                followers.push(wire::a(&suffix, 120, [10, 0, 0, cut as u8]));
                followers.push(wire::ptr(&suffix, 4500, &big_name));
            }
            rng.shuffle(&mut followers);
            followers.truncate(1 + rng.usize(4));
            match rng.below(3) {
                0 => {
                    m.answers.push(big);
                    m.answers.extend(followers);
                }
                1 => {
                    m.authorities.push(big);
                    m.additionals.extend(followers);
                }
                _ => {
                    m.additionals.push(big);
                    m.additionals.extend(followers);
                }
            }
            Case { msg: m, class: "oversize-record" }
        }
        8 => {
            // names obtained through ServiceInfo (escape_instance_name inside the round trip)
            let mut m = Message::response();
            for _ in 0..1 + rng.usize(3) {
                if let Some((labels, _full)) = service_info_name(rng) {
                    let ty: Name = labels[1..].to_vec();
                    let host = wire::name("h.local");
                    m.answers.push(wire::ptr(&ty, 4500, &labels));
                    m.answers.push(wire::srv(&labels, 120, 80, &host));
                    m.additionals.push(wire::txt(&labels, 4500, vec![0]));
                }
            }
            Case { msg: m, class: "service-info-names" }
        }
        _ => {
            // look-alike names: ("a.b","c") next to ("a","b","c"), case variants, shared suffixes
            let mut m = if rng.chance(1, 2) { Message::response() } else { Message::query() };
            let a = gen::utf8_label(rng, 8).replace(['.', '\\'], "x");
            let b = gen::utf8_label(rng, 8).replace(['.', '\\'], "y");
            let tail = wire::name("_t._udp.local");
            let mut split: Name = vec![a.clone().into_bytes(), b.clone().into_bytes()];
            split.extend(tail.clone());
            let mut joined: Name = vec![format!("{a}.{b}").into_bytes()];
            joined.extend(tail.clone());
            let mut upper: Name = vec![a.to_uppercase().into_bytes(), b.clone().into_bytes()];
            upper.extend(tail.clone());
            let mut names = vec![split, joined, upper, tail.clone()];
            // labels made of letters, dots and backslashes only: every way two different label
            // sequences can look alike once written as text ("a\" + "b" next to "a.b", "\." next to ".", ...)
            for _ in 0..rng.usize(4) {
                let mut n: Name = Vec::new();
                for _ in 0..1 + rng.usize(3) {
                    let len = 1 + rng.usize(3);
                    n.push((0..len).map(|_| *rng.pick(&[b'a', b'.', b'\\', b'b'])).collect());
                }
                n.extend(tail.clone());
                names.push(n);
            }
            // and deliberate pairs: label "x\" followed by label "y" next to the single label "x.y" (and the like)
            if rng.chance(1, 2) {
                let x: Vec<u8> = (0..rng.usize(3)).map(|_| *rng.pick(&[b'a', b'.', b'\\'])).collect();
                let y: Vec<u8> = (0..1 + rng.usize(2)).map(|_| *rng.pick(&[b'b', b'.', b'\\'])).collect();
                let sep = *rng.pick(&[b'.', b'\\']);
                let mut two: Name = vec![[x.clone(), vec![b'\\']].concat(), y.clone()];
                two.extend(tail.clone());
                let mut one: Name = vec![[x.clone(), vec![sep], y.clone()].concat()];
                one.extend(tail.clone());
                let mut one_b: Name = vec![[x, vec![b'\\', b'.'], y].concat()];
                one_b.extend(tail.clone());
                names.extend([two, one, one_b]);
            }
            rng.shuffle(&mut names);
            for n in names.iter() {
                let r = match rng.below(3) {
                    0 => wire::ptr(n, 4500, rng.pick(&names)),
                    1 => wire::srv(n, 120, 80, rng.pick(&names)),
                    _ => wire::a(n, 120, [10, 0, 0, 1]),
                };
                push_random_section(rng, &mut m, r);
            }
            Case { msg: m, class: "look-alike-names" }
        }
    }
}

/// One hand-built case per rule and per defect found while designing.
fn scripted() -> Vec<Case> {
    let mut v = Vec::new();
    let ty = wire::name("_t._udp.local");
    let inst = wire::name("inst._t._udp.local");
    let host = wire::name("host.local");
    // plain announcement
    let mut m = Message::response();
    m.answers.push(wire::ptr(&ty, 4500, &inst));
    m.answers.push(wire::srv(&inst, 120, 80, &host));
    m.answers.push(wire::txt(&inst, 4500, vec![3, b'k', b'=', b'v']));
    m.answers.push(wire::a(&host, 120, [10, 0, 0, 1]));
    v.push(Case { msg: m, class: "scripted-announcement" });
    // over-size record rolled back, then a record that shares its name suffix
    let mut m = Message::response();
    let big = wire::name("big.x.local");
    let x = wire::name("x.local");
    m.answers.push(wire::rec(&big, wire::T_TXT, 1, 4500, RData::Txt(vec![7u8; 9000])));
    m.answers.push(wire::a(&x, 120, [10, 0, 0, 1]));
    v.push(Case { msg: m, class: "scripted-rollback" });
    // a\.b vs a.b
    let mut m = Message::response();
    let joined: Name = vec![b"a.b".to_vec(), b"local".to_vec()];
    let split = wire::name("a.b.local");
    m.answers.push(wire::a(&joined, 120, [10, 0, 0, 1]));
    m.answers.push(wire::a(&split, 120, [10, 0, 0, 2]));
    v.push(Case { msg: m, class: "scripted-escaped-dot" });
    // query whose additionals spill into continuation packets, one of them too big for any packet
    let mut m = Message::query();
    m.questions.push(wire::question(&ty, wire::T_PTR));
    for i in 0..12 {
        let n = wire::name(&format!("i{i}._t._udp.local"));
        m.additionals.push(wire::rec(&n, wire::T_TXT, 1, 4500, RData::Txt(vec![1u8; 1000])));
    }
    m.additionals.insert(9, wire::rec(&inst, wire::T_TXT, 1, 4500, RData::Txt(vec![2u8; 9100])));
    v.push(Case { msg: m, class: "scripted-continuation" });
    v
}

/// E7: a label longer than 63 bytes cannot go onto the wire as it is (the daemon meets such labels in names it
/// learned from the network: two labels that merge when a name is written again). Whatever the encoder does with
/// it, the packet still parses, the crate's own decoder still reads it, and what stands in the label's place is
/// the beginning of the label, whole characters only.
pub fn overlong_label_case(rng: &mut Rng, l: &mut Local) {
    l.evaluations += 1;
    let pad = 50 + rng.usize(14);
    let mut label = String::new();
    for _ in 0..pad {
        label.push(char::from(b'a' + rng.below(26) as u8));
    }
    while label.len() < 64 + rng.usize(20) {
        label.push(match rng.below(4) {
            0 => *rng.pick(&['\u{e9}', '\u{fc}']),
            1 | 2 => *rng.pick(&['\u{65e5}', '\u{672c}', '\u{20ac}']),
            _ => *rng.pick(&['\u{1f600}', '\u{10348}']),
        });
    }
    let ty = wire::name("_t._udp.local");
    let mut inst: Name = vec![label.as_bytes().to_vec()];
    inst.extend(ty.clone());
    let mut m = if rng.chance(1, 2) { Message::query() } else { Message::response() };
    if m.is_query() {
        m.questions.push(wire::question(&inst, wire::T_ANY));
        if rng.chance(1, 2) {
            m.questions.push(wire::question(&ty, wire::T_PTR));
        }
    } else {
        m.answers.push(wire::ptr(&ty, 4500, &inst));
        if rng.chance(1, 2) {
            m.answers.push(wire::srv(&inst, 120, 80, &wire::name("host.local")));
        }
    }
    let Some(packets) = facade::encode_with_crate(&m) else {
        l.count("not_encodable", 1);
        return;
    };
    l.act("E7");
    let witness = || json!({"label": label, "label_bytes": label.len(), "packets": packets.iter().map(|p| wire::hex(&p[..p.len().min(300)])).collect::<Vec<_>>()});
    for p in packets.iter() {
        let pm = match wire::parse(p) {
            Ok((pm, _)) => pm,
            Err(e) => {
                l.violate(Violation::new("E7", format!("E7/over-long-label/unparseable/{}", e.what), format!("a message with a label of {} bytes was encoded into a packet that does not parse: {e}", label.len())).with(witness()));
                return;
            }
        };
        let mut names: Vec<&Name> = pm.questions.iter().map(|q| &q.name).collect();
        for r in pm.records() {
            names.push(&r.name);
            if let RData::Ptr(n) = &r.rdata {
                names.push(n);
            }
        }
        for n in names {
            if n.len() != inst.len() {
                continue;
            }
            let first = &n[0];
            let ok = first.len() <= 63 && label.as_bytes().starts_with(first) && std::str::from_utf8(first).is_ok();
            if !ok {
                l.violate(
                    Violation::new("E7", "E7/over-long-label/not-a-whole-character-prefix", format!("in place of a label of {} bytes the packet carries {} bytes that are not its beginning in whole characters: {}", label.len(), first.len(), wire::hex(first)))
                        .with(witness()),
                );
                return;
            }
        }
        if let Err(e) = codec::decode(p, "eth0", 2) {
            l.violate(Violation::new("E7", "E7/over-long-label/own-decoder-rejects", format!("the crate's decoder rejects the packet its encoder made of a label of {} bytes: {e}", label.len())).with(witness()));
            return;
        }
    }
}

pub fn run(report: &Report, tier: &Tier) {
    report.set_rule(
        "messages of questions and PTR/SRV/TXT/A/AAAA records in all sections built through the crate's encoder; classes: small, \
         near-limit (8972±40 bytes), several-packets, oversize-record with suffix-sharing followers, ServiceInfo-derived names, \
         look-alike names (a\\.b vs a.b, labels of letters, dots and backslashes, case variants); distinct by (class, #packets, section sizes, size bucket)",
    );
    report.assume("the reference parser W is correct and shares no code with the crate");
    report.assume("E4 allowance: in a response, additionals after the first one that does not fit may be left out (adjudicated, DESIGN §12)");
    for r in ["E1", "E2", "E3", "E4", "E5", "E6", "E7"] {
        report.floor(r, if r == "E5" { 3 } else { 50 });
    }
    let mut l = Local::default();
    for c in scripted() {
        check_case(&c, &mut l);
    }
    let mut rng = Rng::new(report.seed);
    for _ in 0..3 {
        let c = gen_case(&mut rng);
        l.samples.push(json!({"class": c.class, "message": describe(&c.msg)}));
    }
    report.merge(l);
    let seed = report.seed;
    let n: u64 = if tier.thorough { 30_000_000 } else { 40_000 };
    let batch = 50;
    run_parallel(report, n / batch, threads(), tier.budget_s * 0.6, |i, l| {
        let mut rng = Rng::new(util::mix(seed, 0xC02_0000 + i));
        for _ in 0..batch {
            let c = gen_case(&mut rng);
            check_case(&c, l);
        }
        overlong_label_case(&mut rng, l);
    });
}
