//! C09 — unregistering says goodbye for exactly what was announced, then goes quiet.

use crate::props::c06;
use crate::report::{run_parallel, threads, Local, Report, Violation};
use crate::scen::{self, TxM};
use crate::util::{self, Rng};
use crate::wire::{self, Message, Name, RData};
use crate::world::*;
use crate::Tier;
use serde_json::json;
use std::net::{IpAddr, SocketAddr};

pub struct Made {
    pub world: World,
    pub desc: String,
    pub horizon: u64,
    pub probes: Vec<c06::Probe>,
}

fn is_goodbye_for(tx: &TxM, ty: &Name, inst: &Name) -> bool {
    tx.msg.is_response()
        && tx.multicast
        && tx.msg.answers.iter().any(|r| r.ttl == 0 && r.rtype == wire::T_PTR && wire::names_eq_nocase(&r.name, ty) && matches!(&r.rdata, RData::Ptr(t) if wire::names_eq_nocase(t, inst)))
}

fn is_announcement_for(tx: &TxM, ty: &Name, inst: &Name) -> bool {
    tx.msg.is_response()
        && tx.multicast
        && tx.msg.answers.iter().any(|r| r.ttl > 0 && r.rtype == wire::T_PTR && wire::names_eq_nocase(&r.name, ty) && matches!(&r.rdata, RData::Ptr(t) if wire::names_eq_nocase(t, inst)))
        && tx.msg.answers.iter().any(|r| r.rtype == wire::T_SRV && wire::names_eq_nocase(&r.name, inst))
}

/// The instance and host names under which `tx` carries the service of type `ty` on `port`
/// (PTR of the type, SRV at its target with that port), with TTL zero (`bye`) or not.
fn names_in(tx: &TxM, ty: &Name, port: u16, bye: bool) -> Option<(Name, Name)> {
    if !tx.msg.is_response() || !tx.multicast {
        return None;
    }
    for p in tx.msg.answers.iter().filter(|r| (r.ttl == 0) == bye && r.rtype == wire::T_PTR && wire::names_eq_nocase(&r.name, ty)) {
        let RData::Ptr(inst) = &p.rdata else { continue };
        for s in tx.msg.answers.iter().filter(|r| r.rtype == wire::T_SRV && wire::names_eq_nocase(&r.name, inst)) {
            if let RData::Srv { port: sp, target, .. } = &s.rdata {
                if *sp == port {
                    return Some((inst.clone(), target.clone()));
                }
            }
        }
    }
    None
}

/// A service (or its host name) loses a conflict while probing on the first interface and
/// is renamed there; it is then unregistered, or the daemon shut down, once announced.
pub fn rename_scenario(seed: u64) -> Made {
    let mut rng = Rng::new(seed);
    let mut w = World::new(seed);
    w.set_stepping(Stepping::Lazy);
    let ifs = match rng.below(3) {
        0 => scen::single_v4(),
        1 => scen::single_dual(),
        _ => scen::two_v4(),
    };
    let h = w.add_host(ifs.clone());
    let t0 = w.now();
    w.set_ip_check_interval(h, 3600);
    let addrs: Vec<IpAddr> = ifs.iter().flat_map(|i| i.addrs.iter().map(|(a, _)| *a)).collect();
    let ty = *rng.pick(&["_t._udp.local.", "_p._sub._t._udp.local."]);
    let reg = World::reg_info(ty, "printer", "box.local.", &addrs, 1000, &[("k", Some(b"v"))]);
    w.register(h, reg.clone());
    let at = 20 + rng.below(600);
    w.run_until(t0 + at);
    let which = rng.below(2);
    let mut m = Message::response();
    if which == 0 {
        // someone else's SRV for the instance name
        m.answers.push(wire::srv(&scen::wire_name("printer._t._udp.local."), 120, 9, &scen::wire_name("other.local.")));
    } else {
        // someone else's address for the host name
        m.answers.push(wire::a(&scen::wire_name("box.local."), 120, [10, 0, 0, 77]));
    }
    for r in m.answers.iter_mut() {
        r.class |= wire::FLUSH;
    }
    w.inject_msg(h, ifs[0].index, scen::peer4(77), &m);
    let mut desc = format!("rename ifs={} type={ty}: @0:register0 @{at}:conflicting-{}", ifs.len(), if which == 0 { "srv" } else { "address" });
    let t_end = 4000 + rng.below(3000);
    // sometimes the application updates the service (registers it again with another TXT) shortly before it
    // withdraws it: the changed record is still being probed when the goodbye is due
    let update_before = if rng.chance(1, 3) { Some(100 + rng.below(800)) } else { None };
    if let Some(d) = update_before {
        w.run_until(t0 + t_end - d);
        let mut reg2 = reg.clone();
        reg2.txt = vec![("k".to_string(), Some(b"changed".to_vec()))];
        w.register(h, reg2);
        desc.push_str(&format!(" @{}:re-register0", t_end - d));
    }
    w.run_until(t0 + t_end);
    if rng.chance(1, 3) {
        w.shutdown(h);
        desc.push_str(&format!(" @{t_end}:shutdown"));
    } else {
        w.unregister(h, "printer._t._udp.local.");
        desc.push_str(&format!(" @{t_end}:unregister0"));
    }
    let horizon = t0 + t_end + 2000;
    w.run_until(horizon);
    Made { world: w, desc, horizon, probes: Vec::new() }
}

pub fn scenario(seed: u64) -> Made {
    let mut rng = Rng::new(seed);
    let mut w = World::new(seed);
    w.set_stepping(if rng.chance(1, 4) { Stepping::Eager(10) } else { Stepping::Lazy });
    let ifs = match rng.below(4) {
        0 => scen::single_v4(),
        1 => scen::single_dual(),
        2 => scen::two_v4(),
        _ => scen::three_mixed(),
    };
    let h = w.add_host(ifs.clone());
    let t0 = w.now();
    w.set_ip_check_interval(h, 3600);
    let n_svcs = 1 + rng.usize(4);
    let mut all_addrs: Vec<IpAddr> = Vec::new();
    for i in ifs.iter() {
        for (a, _) in i.addrs.iter() {
            if rng.chance(4, 5) {
                all_addrs.push(*a);
            }
        }
    }
    if all_addrs.is_empty() {
        all_addrs.push(ifs[0].addrs[0].0);
    }
    let mut regs: Vec<RegInfo> = Vec::new();
    for s in 0..n_svcs {
        let ty = *rng.pick(&["_t._udp.local.", "_http._tcp.local.", "_p._sub._t._udp.local."]);
        let inst = match rng.below(9) {
            0..=2 => format!("Svc{s}"),
            3 => format!("\u{c9}cole{s}"),
            _ => format!("svc{s}"),
        };
        let val = format!("v{s}");
        let mut reg = World::reg_info(ty, &inst, "box.local.", &all_addrs, 1000 + s as u16, &[("k", Some(val.as_bytes()))]);
        reg.requires_probe = !rng.chance(1, 6);
        regs.push(reg);
    }
    let mut desc = format!("{:?} ifs={} svcs={n_svcs}:", w.stepping, ifs.len());
    // ops: (time, kind, service)
    let mut ops: Vec<(u64, u8, usize)> = Vec::new();
    for s in 0..n_svcs {
        let t_reg = rng.below(1200);
        ops.push((t_reg, 0, s));
        match rng.below(6) {
            0 => ops.push((t_reg + rng.below(900), 2, s)),        // unregister while probing
            1 | 2 => ops.push((t_reg + 2500 + rng.below(3000), 2, s)), // unregister when announced
            3 => {
                let t = t_reg + 2500 + rng.below(2000);
                ops.push((t, 2, s));
                ops.push((t + 1 + rng.below(3000), 2, s)); // twice
            }
            _ => {}
        }
    }
    if rng.chance(1, 3) {
        ops.push((rng.below(6000), 4, 0)); // unregister of an unknown name
    }
    for _ in 0..8 + rng.usize(16) {
        ops.push((rng.below(16_000), 3, 0));
    }
    let with_shutdown = rng.chance(1, 3);
    ops.sort();
    let mut probes = Vec::new();
    for (t, kind, s) in ops {
        w.run_until(t0 + t);
        match kind {
            0 => {
                w.register(h, regs[s].clone());
                desc.push_str(&format!(" @{t}:register{s}"));
            }
            2 => {
                let mut full = format!("{}.{}", regs[s].instance, regs[s].ty_only);
                if rng.chance(1, 3) {
                    full = full.to_uppercase().replace(".LOCAL.", ".local.");
                }
                w.unregister(h, &full);
                desc.push_str(&format!(" @{t}:unregister{s}"));
            }
            4 => {
                w.unregister(h, "nobody._t._udp.local.");
                desc.push_str(&format!(" @{t}:unregister-unknown"));
            }
            _ => {
                // a query about one of the services / the host
                let i = rng.pick(&ifs).clone();
                let v4 = if i.has_family(true) && i.has_family(false) { rng.chance(1, 2) } else { i.has_family(true) };
                let src: SocketAddr = if v4 {
                    let o = i.v4().unwrap().octets();
                    sock4([o[0], o[1], o[2], 99], 5353)
                } else {
                    let mut seg = i.v6().unwrap().segments();
                    seg[7] = 0x99;
                    sock6(std::net::Ipv6Addr::from(seg), 5353, i.index)
                };
                let r = rng.pick(&regs).clone();
                let inst = scen::wire_name(&format!("{}.{}", r.instance, r.ty_only));
                let mut q = Message::query();
                q.questions.push(match rng.below(5) {
                    0 => wire::question(&scen::wire_name(&r.ty_only), wire::T_PTR),
                    1 => wire::question(&inst, wire::T_SRV),
                    2 => wire::question(&inst, wire::T_ANY),
                    3 => wire::question(&scen::wire_name("box.local."), wire::T_ANY),
                    _ => wire::question(&scen::wire_name("_services._dns-sd._udp.local."), wire::T_PTR),
                });
                let wake = w.hosts[h].ctx.lock().wakeup;
                let isolated = wake.is_none_or(|x| x > w.now()) && !w.hosts[h].needs_run;
                let rx_idx = w.trace.entries.len();
                w.inject_msg(h, i.index, src, &q);
                w.settle();
                probes.push(c06::Probe { t: w.now(), rx_idx, if_index: i.index, v4, src, query: q, isolated });
            }
        }
    }
    w.run_until(t0 + 17_000);
    if with_shutdown {
        w.shutdown(h);
        desc.push_str(" @17000:shutdown");
    }
    let horizon = t0 + 19_000;
    w.run_until(horizon);
    Made { world: w, desc, horizon, probes }
}

pub fn monitor(made: &Made, l: &mut Local) {
    let trace = &made.world.trace;
    let host = 0;
    let sl = crate::props::c03::slack(made.world.stepping);
    let txs = scen::tx_msgs(trace, host);
    // U1 + goodbye rules, walking the API history
    let mut registered: Vec<RegInfo> = Vec::new();
    let api: Vec<(usize, &Entry)> = trace.entries.iter().enumerate().filter(|(_, e)| e.host == host && matches!(e.ev, Ev::Api { .. })).collect();
    for (idx, e) in api.iter() {
        let Ev::Api { call, result: ApiResult::Ok, chan } = &e.ev else { continue };
        match call {
            ApiCall::Register(r) => {
                registered.retain(|x| !x.fullname.eq_ignore_ascii_case(&r.fullname));
                registered.push((**r).clone());
            }
            ApiCall::Unregister(name) => {
                let known = registered.iter().position(|x| x.fullname.eq_ignore_ascii_case(name));
                // U1
                l.act("U1");
                let status = chan.and_then(|c| trace.obs(c).find_map(|(_, o)| if let Obs::Unreg(ok) = o { Some(*ok) } else { None }));
                let wit = |from: u64, to: u64| json!({"scenario": made.desc, "call": format!("unregister({name})"), "trace": scen::witness_window(trace, from, to, 50)});
                if status != Some(known.is_some()) {
                    l.violate(
                        Violation::new("U1", format!("U1/wrong-status/{}", if known.is_some() { "registered-but-NotFound" } else { "unknown-but-OK" }), format!("unregister({name}) answered {status:?}, model says registered={}", known.is_some()))
                            .with(wit(e.t.saturating_sub(100), e.t + 10)),
                    );
                }
                let Some(k) = known else { continue };
                let reg = registered.remove(k);
                check_goodbyes(made, &reg, *idx, e.t, true, sl, &txs, l);
            }
            ApiCall::Shutdown => {
                for reg in registered.drain(..) {
                    check_goodbyes(made, &reg, *idx, e.t, false, sl, &txs, l);
                }
            }
            _ => {}
        }
    }
    // U5 / U6 via the responder model: silence for what is gone, unchanged answers for the rest
    let mut l6 = Local::default();
    monitor_queries(made, &mut l6);
    l.act_n("U5-U6-queries", l6.activations.values().sum::<u64>());
    for v in l6.violations {
        l.violate(Violation::new("U5", format!("U5-U6/{}", v.signature), v.message).with(v.witness));
    }
}

fn monitor_queries(made: &Made, l: &mut Local) {
    let trace = &made.world.trace;
    for p in made.probes.iter() {
        if !p.isolated {
            continue;
        }
        let ifs = trace.ifs_at(0, p.t);
        let Some(i) = ifs.iter().find(|i| i.index == p.if_index) else { continue };
        let rx_iter = trace.entries[p.rx_idx].iter;
        let states = c06::states_at(trace, 0, p.rx_idx, p.if_index);
        // state in flux around the end of probing: skip
        if states.iter().any(|(s, a)| s.unregistered_at.is_none() && !*a && s.t_reg + 1100 > p.t && s.t_reg + 700 < p.t) {
            continue;
        }
        let exp = c06::expect(&states, i, p.v4, &p.query);
        let replies: Vec<&Message> = trace
            .entries
            .iter()
            .skip(p.rx_idx)
            .filter_map(|e| match &e.ev {
                Ev::Tx(tx) if e.host == 0 && e.t == p.t && e.iter == rx_iter + 1 => tx.msg.as_ref().ok().filter(|m| m.is_response()),
                _ => None,
            })
            .collect();
        let wit = || {
            json!({"scenario": made.desc, "query": render_msg(&p.query), "interface": i.name,
                   "services": states.iter().map(|(s, a)| format!("{} announced_here={} unregistered={}", s.reg.fullname, a, s.unregistered_at.is_some())).collect::<Vec<_>>(),
                   "replies": replies.iter().map(|m| render_msg(m)).collect::<Vec<_>>(),
                   "api": scen::api_log(trace), "trace": scen::witness_window(trace, p.t.saturating_sub(400), p.t + 5, 40)})
        };
        l.act("q");
        let got: std::collections::BTreeSet<c06::Key> = replies.iter().flat_map(|m| m.answers.iter().map(c06::key_of)).collect();
        // anything about an unregistered service?
        for (s, _) in states.iter().filter(|(s, _)| s.unregistered_at.is_some()) {
            let inst = wire::escaped(&wire::lower(&scen::wire_name(&s.reg.fullname)));
            // (a later registration of the same name is a new service)
            if states.iter().any(|(o, _)| o.unregistered_at.is_none() && o.reg.fullname.eq_ignore_ascii_case(&s.reg.fullname)) {
                continue;
            }
            if replies.iter().any(|m| m.records().any(|r| wire::escaped(&wire::lower(&r.name)) == inst || matches!(&r.rdata, RData::Ptr(t) if wire::escaped(&wire::lower(t)) == inst))) {
                l.violate(Violation::new("U5", "U5/answered-for-unregistered-service", format!("a reply still mentions the unregistered service {}", s.reg.fullname)).with(wit()));
                return;
            }
        }
        // U6: the other services' answers are as the model says
        let missing: Vec<&c06::Key> = exp.answers.iter().filter(|k| !got.contains(*k)).collect();
        if !missing.is_empty() {
            l.violate(Violation::new("U6", "U6/other-service-answer-missing", format!("answers for services that are still registered are missing: {:?}", &missing[..missing.len().min(2)])).with(wit()));
            return;
        }
    }
}

#[allow(clippy::too_many_arguments)]
fn check_goodbyes(made: &Made, reg: &RegInfo, api_idx: usize, t: u64, by_unregister: bool, sl: u64, txs: &[TxM], l: &mut Local) {
    let trace = &made.world.trace;
    let ty = scen::wire_name(&reg.ty_only);
    let inst = scen::wire_name(&reg.fullname);
    let host_name = scen::wire_name(&reg.host);
    let sub = reg.subtype.as_ref().map(|s| scen::wire_name(s));
    let ifs = trace.ifs_at(0, t);
    // registration index: announcements count from there
    // (the first registration of the current period: registering a live service again updates it, what was
    // announced before stays announced)
    let period_start = trace.entries[..api_idx]
        .iter()
        .rposition(|e| matches!(&e.ev, Ev::Api { call: ApiCall::Unregister(n), result: ApiResult::Ok, .. } if n.eq_ignore_ascii_case(&reg.fullname)))
        .map_or(0, |i| i + 1);
    let reg_idx = trace.entries[period_start..api_idx]
        .iter()
        .position(|e| matches!(&e.ev, Ev::Api { call: ApiCall::Register(r), result: ApiResult::Ok, .. } if r.fullname.eq_ignore_ascii_case(&reg.fullname)))
        .map_or(0, |i| i + period_start);
    let t_reg = trace.entries[reg_idx].t;
    let what = if by_unregister { "unregister" } else { "shutdown" };
    for i in ifs.iter() {
        for v4 in [true, false] {
            if !i.has_family(v4) {
                continue;
            }
            let on_link = |tx: &&TxM| tx.out_if == Some(i.index) && tx.v4 == v4;
            // the names most recently announced on this link and family
            // (the statement speaks of interfaces where the service was announced and of families in use: a family that has an
            // address of the service on an announced interface is expected to carry the goodbye, whichever family the announcement used)
            let has_addr_here = reg.addrs.iter().any(|a| a.is_ipv4() == v4 && i.in_subnet(a));
            let last_ann = txs
                .iter()
                .filter(|tx| tx.idx > reg_idx && tx.idx < api_idx)
                .filter(on_link)
                .filter_map(|tx| names_in(tx, &ty, reg.port, false))
                .last()
                .or_else(|| txs.iter().filter(|tx| tx.idx > reg_idx && tx.idx < api_idx && tx.out_if == Some(i.index)).filter_map(|tx| names_in(tx, &ty, reg.port, false)).last())
                .filter(|_| has_addr_here);
            let announced = last_ann.is_some();
            // goodbye candidates: a TTL-0 PTR of the type that points at the registered name, the announced name, or a name carrying this service's SRV
            let bye_target = |tx: &TxM| -> Option<Name> {
                if !tx.msg.is_response() || !tx.multicast {
                    return None;
                }
                if let Some((x, _)) = names_in(tx, &ty, reg.port, true) {
                    return Some(x);
                }
                tx.msg.answers.iter().find_map(|r| match &r.rdata {
                    RData::Ptr(t) if r.ttl == 0 && r.rtype == wire::T_PTR && wire::names_eq_nocase(&r.name, &ty) && (wire::names_eq_nocase(t, &inst) || last_ann.as_ref().is_some_and(|(x, _)| wire::names_eq_nocase(t, x))) => Some(t.clone()),
                    _ => None,
                })
            };
            let byes: Vec<&TxM> = txs.iter().filter(|tx| tx.idx > api_idx && tx.t >= t && tx.t <= t + 400).filter(on_link).filter(|tx| bye_target(tx).is_some()).collect();
            let wit = || json!({"scenario": made.desc, "service": reg.fullname, "interface": i.name, "family": if v4 { 4 } else { 6 }, "announced_there": announced,
                                "announced_as": last_ann.as_ref().map(|(x, hn)| format!("{} on {}", wire::escaped(x), wire::escaped(hn))),
                                "trace": scen::witness_window(trace, t.saturating_sub(50), t + 300, 40)});
            let Some((ann_inst, ann_host)) = last_ann.clone() else {
                // U3
                l.act("U3");
                if !byes.is_empty() {
                    let probing = t < t_reg + 1100;
                    l.violate(
                        Violation::new(
                            "U3",
                            format!("U3/goodbye-where-never-announced/{what}/{}", if probing { "still-probing" } else { "no-address-there" }),
                            format!("{what} sent a goodbye for {} on {} ({}) although it was never announced there", reg.fullname, i.name, if v4 { "IPv4" } else { "IPv6" }),
                        )
                        .with(wit()),
                    );
                    return;
                }
                continue;
            };
            let renamed = !wire::names_eq_nocase(&ann_inst, &inst) || !wire::names_eq_nocase(&ann_host, &host_name);
            if renamed {
                l.act("U2-renamed");
            }
            // U2
            l.act("U2");
            let first = byes.iter().find(|b| b.t <= t + sl);
            let Some(first) = first else {
                l.violate(Violation::new("U2", format!("U2/no-goodbye/{what}"), format!("{what}: no goodbye for {} on {} ({})", reg.fullname, i.name, if v4 { "IPv4" } else { "IPv6" })).with(wit()));
                return;
            };
            // names: those most recently announced on this link
            let m = first.msg;
            let target = bye_target(first).unwrap();
            if !wire::names_eq_nocase(&target, &ann_inst) {
                l.violate(
                    Violation::new("U2", format!("U2/goodbye-names/instance-not-as-announced/{what}"), format!("{what}: the goodbye on {} names {} but the service was last announced there as {}", i.name, wire::escaped(&target), wire::escaped(&ann_inst)))
                        .with(wit()),
                );
                return;
            }
            // content: every record TTL 0; PTR, subtype PTR, SRV, TXT, the link's addresses of that family
            let all_zero = m.records().all(|r| r.ttl == 0);
            let has_sub = sub.as_ref().is_none_or(|s| m.answers.iter().any(|r| r.rtype == wire::T_PTR && wire::names_eq_nocase(&r.name, s) && matches!(&r.rdata, RData::Ptr(t) if wire::names_eq_nocase(t, &ann_inst))));
            let has_srv = m.answers.iter().any(|r| r.rtype == wire::T_SRV && wire::names_eq_nocase(&r.name, &ann_inst));
            let has_txt = m.answers.iter().any(|r| r.rtype == wire::T_TXT && wire::names_eq_nocase(&r.name, &ann_inst));
            let srv_host_ok = m.answers.iter().filter(|r| r.rtype == wire::T_SRV).all(|r| matches!(&r.rdata, RData::Srv { target, .. } if wire::names_eq_nocase(target, &ann_host)));
            let addrs_ok = reg.addrs.iter().filter(|a| a.is_ipv4() == v4 && i.in_subnet(a)).all(|a| {
                m.answers.iter().any(|r| wire::names_eq_nocase(&r.name, &ann_host) && match (&r.rdata, a) {
                    (RData::A(x), IpAddr::V4(y)) => y.octets() == *x,
                    (RData::Aaaa(x), IpAddr::V6(y)) => y.octets() == *x,
                    _ => false,
                })
            });
            if !(all_zero && has_sub && has_srv && has_txt && addrs_ok && srv_host_ok) {
                let why = if !all_zero { "ttl-not-zero" } else if !has_sub { "no-subtype-ptr" } else if !has_srv { "no-srv" } else if !has_txt { "no-txt" } else if !srv_host_ok { "host-not-as-announced" } else if renamed { "address-not-under-announced-host-name" } else { "address-missing" };
                l.violate(Violation::new("U2", format!("U2/goodbye-content/{why}"), format!("the goodbye for {} on {} is incomplete: {why}", reg.fullname, i.name)).with(wit()));
                return;
            }
            if by_unregister {
                // U4: the identical datagram once more about 120 ms later
                l.act("U4");
                let resend: Vec<&&TxM> = byes.iter().filter(|b| b.t >= t + 120 && b.t <= t + 120 + sl).collect();
                let at_once = byes.iter().filter(|b| b.t <= t + sl).count();
                if resend.len() != 1 || at_once != 1 {
                    l.violate(
                        Violation::new("U4", format!("U4/goodbye-repeat/{}", if resend.is_empty() { "missing" } else { "wrong-count" }), format!("unregister({}): {} goodbye(s) at once and {} repeat(s) 120 ms later on {}", reg.fullname, at_once, resend.len(), i.name))
                            .with(wit()),
                    );
                    return;
                }
            } else {
                l.act("U2-shutdown-once");
                if byes.len() != 1 {
                    l.violate(Violation::new("U2", "U2/shutdown-goodbye-count", format!("shutdown sent {} goodbyes for {} on {}", byes.len(), reg.fullname, i.name)).with(wit()));
                    return;
                }
            }
        }
    }
    // U5: never announced again afterwards (until a new registration of the name)
    l.act("U5");
    let next_reg = trace.entries[api_idx..]
        .iter()
        .position(|e| matches!(&e.ev, Ev::Api { call: ApiCall::Register(r), result: ApiResult::Ok, .. } if r.fullname.eq_ignore_ascii_case(&reg.fullname)))
        .map(|k| k + api_idx)
        .unwrap_or(usize::MAX);
    if let Some(tx) = txs.iter().find(|tx| tx.idx > api_idx && tx.idx < next_reg && (is_announcement_for(tx, &ty, &inst) || names_in(tx, &ty, reg.port, false).is_some())) {
        l.violate(
            Violation::new("U5", format!("U5/announced-after-{what}"), format!("{} was announced again {} ms after {what}", reg.fullname, tx.t - t))
                .with(json!({"scenario": made.desc, "trace": scen::witness_window(trace, t, tx.t + 5, 40)})),
        );
    }
}

pub fn run_one(seed: u64, l: &mut Local) {
    let made = if seed % 5 == 0 { rename_scenario(seed) } else { scenario(seed) };
    l.evaluations += 1;
    l.count("daemon_iterations", made.world.total_iterations);
    if made.world.trace.deaths().any(|d| matches!(d.ev, Ev::Death { panicked: true, .. })) {
        l.inconclusive.push(format!("daemon died in a C09 scenario (seed {seed})"));
        return;
    }
    let kinds: Vec<&str> = made.desc.split(':').skip(1).map(|s| s.trim_end_matches(|c: char| c.is_ascii_digit() || c == ' ' || c == '@')).collect();
    l.distinct.insert(util::fnv_str(&format!("{kinds:?}")));
    if l.samples.len() < 2 {
        l.samples.push(json!({"scenario": made.desc}));
    }
    monitor(&made, l);
}

pub fn run(report: &Report, tier: &Tier) {
    report.set_rule(
        "register / unregister / shutdown histories over 1..4 services (types, subtype, upper-case letters, probing on/off) on 1..3 interfaces \
         (v4/v6/both): unregister while still probing, when announced, twice, of an unknown name, with the name in another letter case, shutdown \
         with services still registered; one scenario in five makes the service or its host name lose a conflict while probing on the first \
         interface (renamed there, not on the others) before unregister / shutdown; 8..23 queries about the services, the host and the meta name at any time; watched 19 s; distinct by \
         operation sequence",
    );
    report.assume("re-registration right after unregister is kept out (self-conflict, DESIGN §12); after a rename only the goodbye is judged here, answers under the new names are C08's");
    for r in ["U1", "U2", "U2-renamed", "U3", "U4", "U5", "U5-U6-queries"] {
        report.floor(r, 50);
    }
    let seed = report.seed;
    let n: u64 = if tier.thorough { 300_000 } else { 3_000 };
    run_parallel(report, n, threads(), tier.budget_s, |i, l| {
        run_one(util::mix(seed, 0xC09_0000 + i), l);
    });
    let _ = Rng::new(0);
}
