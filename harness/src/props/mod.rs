pub mod c01;
pub mod c02;
pub mod c07;
pub mod c11;
pub mod c16;

pub fn lab() {
    use crate::world::*;
    use std::net::IpAddr;
    let mut w = World::new(1);
    let h = w.add_host(vec![IfSpec::new("eth0", 2, 0, &[("10.0.0.5", 24)])]);
    let _mon = w.monitor(h);
    let addrs: Vec<IpAddr> = vec!["10.0.0.5".parse().unwrap()];
    let reg = World::reg_info("_t._udp.local.", "inst", "host.local.", &addrs, 80, &[("k", Some(b"v"))]);
    w.register(h, reg);
    let _b = w.browse(h, "_t._udp.local.");
    w.run_for(5000);
    for l in w.trace.render(0, 200) {
        println!("{l}");
    }
}
