pub mod browser;
pub mod c01;
pub mod c02;
pub mod c03;
pub mod c04;
pub mod c06;
pub mod c07;
pub mod c08;
pub mod c09;
pub mod c18;
pub mod c10;
pub mod c11;
pub mod c11w;
pub mod c12;
pub mod c13;
pub mod c14;
pub mod c15;
pub mod c16;
pub mod c17;
pub mod c19;
pub mod c20;

pub fn lab() {
    use crate::world::*;
    use std::net::IpAddr;
    let mut w = World::new(1);
    let h = w.add_host(vec![IfSpec::new("eth0", 2, 0, &[("10.0.0.5", 24)])]);
    let _mon = w.monitor(h);
    let addrs: Vec<IpAddr> = vec!["10.0.0.5".parse().unwrap()];
    let reg = World::reg_info("_t._udp.local.", "inst", "host.local.", &addrs, 80, &[("k", Some(b"v"))]);
    w.register(h, reg);
    let _b = w.browse(h, "_t._udp.local.");
    w.run_for(5000);
    for l in w.trace.render(0, 200) {
        println!("{l}");
    }
}

/// Debug helper: find C13 scenarios with many iterations and show why.
pub fn lab2() {
    use crate::util;
    for i in 0..400u64 {
        let seed = util::mix(1, 0xC13_0000 + i);
        let made = c13::scenario(seed, None, i % 4 == 0);
        if made.world.total_iterations > 20000 {
            println!("scenario {i} iterations {} desc {}", made.world.total_iterations, made.desc);
            let w = &made.world;
            for l in w.trace.render(0, 60) {
                println!("  {}", &l[..l.len().min(200)]);
            }
            let snap = w.hosts[0].last_snapshot.clone();
            println!("snapshot: {:?}", snap.map(|s| (s.timers_len, s.timers_min, s.retransmissions, s.resolvers)));
            println!("wakeup {:?} now {}", w.hosts[0].ctx.lock().wakeup, w.now());
            break;
        }
    }
}

pub fn lab3() {
    let r = (c12::SCENARIOS[2].1)(12345);
    println!("{}", r.desc);
    for l in r.world.trace.render(0, 80) {
        println!("  {}", crate::util::prefix(&l, 260));
    }
}

pub fn lab4() {
    for i in 0..3000u64 {
        let seed = crate::util::mix(1, 0xC09_0000 + i);
        if seed % 5 != 0 {
            continue;
        }
        let made = c09::rename_scenario(seed);
        if made.desc.contains(&std::env::var("LAB_DESC").unwrap_or_default()) {
            println!("{}", made.desc);
            for l in made.world.trace.render(0, 400) {
                if l.contains(" tx ") || l.contains(" api ") || l.contains(" ev#") || l.contains("Q ?box") {
                    println!("  {}", crate::util::prefix(&l, 330));
                }
            }
            println!("{:?}", made.world.hosts[0].last_snapshot);
            break;
        }
    }
}

pub fn lab5() {
    let want = std::env::var("LAB_DESC").unwrap_or_default();
    for i in 0..600u64 {
        let seed = crate::util::mix(1, 0xC07_8000 + i);
        let made = c08::scenario_r(seed);
        if made.desc.contains(&want) {
            println!("{}", made.desc);
            for l in made.world.trace.render(0, 400) {
                if l.contains(" tx v4") || l.contains(" api ") || l.contains(" ev#") || (l.contains(" rx ") && !l.contains("from=10.0.0.5") && !l.contains("from=[fe80::5")) {
                    println!("  {}", crate::util::prefix(&l, 300));
                }
            }
            break;
        }
    }
}

pub fn lab6() {
    use crate::scen;
    use crate::wire;
    use crate::world::*;
    use std::net::IpAddr;
    let mut w = World::new(1);
    w.set_stepping(Stepping::Lazy);
    let h = w.add_host(scen::single_v4());
    let a: Vec<IpAddr> = vec!["10.0.0.5".parse().unwrap()];
    w.register(h, World::reg_info("_t._udp.local.", "Svc1", "box1.local.", &a, 1001, &[("k", Some(b"v1"))]));
    w.register(h, World::reg_info("_t._udp.local.", "svc2", "box2.local.", &a, 1002, &[("k", Some(b"v2"))]));
    w.run_for(8000);
    let variants = std::env::var("LAB_V").unwrap_or("0".into());
    let mut q = wire::Message::query();
    let ty = scen::wire_name("_t._udp.local.");
    q.questions.push(wire::question(&ty, wire::T_PTR));
    if variants.contains('t') {
        q.questions.push(wire::question(&scen::wire_name("Svc1._t._udp.local."), wire::T_TXT));
    }
    if variants.contains('m') {
        q.questions.push(wire::question(&scen::wire_name("_services._dns-sd._udp.local."), wire::T_PTR));
    }
    q.answers.push(wire::ptr(&ty, 4500, &scen::wire_name("Svc1._t._udp.local.")));
    w.inject_msg(h, 2, scen::peer4(99), &q);
    w.run_for(500);
    for l in w.trace.render(0, 400) {
        if l.contains("10.0.0.99") || (l.contains(" tx ") && l.contains(" R ")) {
            println!("  {}", crate::util::prefix(&l, 900));
        }
    }
}

pub fn lab7() {
    let want = std::env::var("LAB_DESC").unwrap_or_default();
    for i in 0..4000u64 {
        let seed = crate::util::mix(1, 0xC10_0000 + i);
        let made = c06::scenario(seed, true);
        if made.desc.contains(&want) {
            println!("{} seed={seed}", made.desc);
            for l in made.world.trace.render(0, 4000) {
                if l.contains(" api ") || (l.contains(" tx ") && l.contains(" R ")) || l.contains("4294967295") {
                    println!("  {}", crate::util::prefix(&l, 700));
                }
            }
            break;
        }
    }
}

pub fn lab8() {
    let want = std::env::var("LAB_DESC").unwrap_or_default();
    let lo: u64 = std::env::var("LAB_LO").ok().and_then(|s| s.parse().ok()).unwrap_or(0);
    let hi: u64 = std::env::var("LAB_HI").ok().and_then(|s| s.parse().ok()).unwrap_or(900_000);
    for i in lo..hi {
        if i % 3 != 1 {
            continue;
        }
        let seed = crate::util::mix(1, 0xC18_0000 + i);
        let made = c18::scenario_e(seed);
        if made.desc.contains(&want) {
            println!("{} seed={seed} i={i}", made.desc);
            for l in made.world.trace.render(0, 6000) {
                let g = std::env::var("LAB_GREP").unwrap_or_else(|_| "h2.local,svc2".into());
                if l.contains(" api ") || l.contains("ifedit") || l.contains(" ev#") || ((l.contains(" tx ") || l.contains(" rx ")) && g.split(',').any(|w| l.contains(w))) {
                    println!("  {}", crate::util::prefix(&l, 330));
                }
            }
            break;
        }
    }
}


/// Runs one case of one part by its seed and prints what its monitor reports.
pub fn lab9() {
    let seed: u64 = std::env::var("LAB_SEED").ok().and_then(|s| s.parse().ok()).unwrap_or(0);
    let part = std::env::var("LAB_PART").unwrap_or_default();
    let mut l = crate::report::Local::default();
    match part.as_str() {
        "c18e" => c18::run_e(seed, &mut l),
        "c18s" => c18::run_s(seed, &mut l),
        "c18p" => c18::run_p(seed, &mut l),
        "c17" => c17::run_one(seed, &mut l),
        _ => println!("unknown part"),
    }
    for v in l.violations.iter() {
        println!("{}", serde_json::to_string_pretty(&serde_json::json!({"signature": v.signature, "message": v.message, "witness": v.witness})).unwrap());
    }
    println!("activations {:?} inconclusive {:?}", l.activations, l.inconclusive);
}
