//! C01 — decoding any datagram is safe, terminating and bounded.
//!
//! Oracle (DESIGN §6 C01): R1 no panic; R2 decode loop steps ≤ 128·len + 1024
//! (hook H10; exceeding the budget unwinds the decode, so a cycle is observed as a
//! count, not as a wall-clock timeout); R3 peak live bytes allocated by the call
//! ≤ 1024·len + 1 MiB (counting allocator); R4 every name of an accepted message
//! has text length ≤ len; R5 an accepted message agrees, record by record, with
//! the independent parser `W`.

use crate::facade;
use crate::gen;
use crate::report::{run_parallel, threads, Local, Report, Violation};
use crate::util::{self, Rng};
use crate::wire::{self, RData};
use crate::{alloc, Tier};
use mdns_sd::verif::{self as hooks, codec};
use serde_json::json;

const STEP_SLOPE: u64 = 128;
const STEP_CONST: u64 = 1024;
const MEM_SLOPE: u64 = 1024;
const MEM_CONST: u64 = 1 << 20;

pub fn check_input(b: &[u8], l: &mut Local, origin: &'static str) {
    l.evaluations += 1;
    l.count(&format!("inputs_{origin}"), 1);
    let len = b.len() as u64;
    let budget = STEP_SLOPE * len + STEP_CONST;
    hooks::set_step_budget(budget);
    alloc::mark();
    let r = std::panic::catch_unwind(|| codec::decode(b, "eth0", 2));
    let (peak, _total) = alloc::measure();
    let steps = hooks::steps();
    hooks::set_step_budget(u64::MAX);
    l.max("max_steps_per_byte_x100", steps * 100 / len.max(1));
    l.max("max_peak_bytes_per_input_byte", peak / len.max(1));
    let witness = || json!({"origin": origin, "len": b.len(), "hex": wire::hex(&b[..b.len().min(4096)])});

    let outcome_class: String;
    match r {
        Err(payload) => {
            if payload.downcast_ref::<hooks::StepBudgetExceeded>().is_some() {
                l.violate(
                    Violation::new(
                        "R2",
                        "R2/steps-exceeded/read_name",
                        format!(
                            "decoding a {len}-byte datagram took more than {budget} name-loop steps (compression cycle / non-termination)"
                        ),
                    )
                    .with(witness()),
                );
                outcome_class = "steps".into();
            } else {
                let p = util::take_thread_panic();
                let (msg, file) = p
                    .map(|p| (util::strip_numbers(&p.msg), util::short_file(&p.file)))
                    .unwrap_or_default();
                l.violate(
                    Violation::new(
                        "R1",
                        format!("R1/panic/{msg}/{file}"),
                        format!("decoder panicked on a {len}-byte datagram: {msg} ({file})"),
                    )
                    .with(witness()),
                );
                outcome_class = "panic".into();
            }
        }
        Ok(res) => {
            l.act("R1");
            l.act("R2");
            l.act("R3");
            if peak > MEM_SLOPE * len + MEM_CONST {
                l.violate(
                    Violation::new(
                        "R3",
                        "R3/memory",
                        format!("decoding a {len}-byte datagram held {peak} bytes at peak"),
                    )
                    .with(witness()),
                );
            }
            match res {
                Err(e) => {
                    outcome_class = format!("err:{}", util::strip_numbers(util::prefix(&e, 24)));
                }
                Ok(view) => {
                    outcome_class = format!(
                        "ok:q{}a{}n{}r{}",
                        view.questions.len().min(3),
                        view.answers.len().min(3),
                        view.authorities.len().min(3),
                        view.additionals.len().min(3)
                    );
                    check_accepted(b, &view, l, origin);
                }
            }
        }
    }
    let key = format!("{origin}|{}|{outcome_class}", (len.max(1)).ilog2());
    if b.len() >= 12 {
        l.distinct.insert(util::fnv_str(&key));
    }
}

fn check_accepted(b: &[u8], view: &codec::MsgView, l: &mut Local, origin: &'static str) {
    let witness = || json!({"origin": origin, "len": b.len(), "hex": wire::hex(&b[..b.len().min(4096)])});
    // R4
    l.act("R4");
    let mut names: Vec<&str> = Vec::new();
    for q in &view.questions {
        names.push(&q.name);
    }
    for r in view
        .answers
        .iter()
        .chain(view.authorities.iter())
        .chain(view.additionals.iter())
    {
        names.push(&r.name);
        match &r.rdata {
            codec::RData::Ptr(n) => names.push(n),
            codec::RData::Srv { host, .. } => names.push(host),
            codec::RData::NSec { next, .. } => names.push(next),
            _ => {}
        }
    }
    for n in names {
        if n.len() > b.len() {
            l.violate(
                Violation::new(
                    "R4",
                    "R4/name-longer-than-datagram",
                    format!("decoded a {}-byte name from a {}-byte datagram", n.len(), b.len()),
                )
                .with(witness()),
            );
            return;
        }
    }
    // R5
    let (m, _info) = match wire::parse_lenient(b) {
        Ok(x) => x,
        Err(e) => {
            l.violate(
                Violation::new(
                    "R5",
                    format!("R5/accepted-but-malformed/{}", e.what),
                    format!("the decoder accepted a datagram the reference parser rejects: {e}"),
                )
                .with(witness()),
            );
            return;
        }
    };
    l.act("R5");
    if view.questions.len() != m.questions.len() {
        l.violate(
            Violation::new("R5", "R5/question-count", "question count differs from the reference parser")
                .with(witness()),
        );
        return;
    }
    for (q, wq) in view.questions.iter().zip(m.questions.iter()) {
        let class = q.class | if q.top_bit { 0x8000 } else { 0 };
        if q.name != wire::dotted(&wq.name) || q.ty != wq.qtype || class != wq.qclass {
            l.violate(
                Violation::new("R5", "R5/question-differs", format!("question {q:?} vs reference {wq:?}"))
                    .with(witness()),
            );
            return;
        }
    }
    let is_response = m.is_response();
    let sections: [(&str, &Vec<codec::RecView>, &Vec<wire::Record>); 3] = [
        ("answer", &view.answers, &m.answers),
        ("authority", &view.authorities, &m.authorities),
        ("additional", &view.additionals, &m.additionals),
    ];
    for (sect, got, reference) in sections {
        let expected: Vec<&wire::Record> = reference
            .iter()
            .filter(|r| facade::crate_knows_type(r.rtype))
            .collect();
        if got.len() != expected.len() {
            l.violate(
                Violation::new(
                    "R5",
                    format!("R5/{sect}-count"),
                    format!("{sect} section: decoder returned {} records, reference parser {}", got.len(), expected.len()),
                )
                .with(witness()),
            );
            return;
        }
        for (g, w) in got.iter().zip(expected.iter()) {
            l.count("records_compared", 1);
            if let Some(diff) = facade::compare_record(g, w, is_response) {
                l.violate(
                    Violation::new(
                        "R5",
                        format!("R5/{sect}-record-differs/{}", diff.0),
                        format!("{sect} record differs from the reference parser: {}", diff.1),
                    )
                    .with(witness()),
                );
                return;
            }
        }
    }
}

// ---------------------------------------------------------------------------
// Generators

pub fn valid_packet(rng: &mut Rng) -> Vec<u8> {
    let m = gen::random_message(rng, gen::ALL_TYPES, 8, 63);
    if rng.chance(1, 3) {
        // through the crate's own encoder
        let core = gen::random_message(rng, gen::CORE_TYPES, 8, 63);
        if let Some(pkts) = facade::encode_with_crate(&core) {
            if let Some(p) = pkts.into_iter().next() {
                return p;
            }
        }
    }
    wire::encode(
        &m,
        if rng.chance(1, 2) {
            wire::Compression::Max
        } else {
            wire::Compression::None
        },
    )
}

pub fn g1_random(rng: &mut Rng) -> Vec<u8> {
    let len = match rng.below(8) {
        0 => rng.usize(13),
        1 => 9000 - rng.usize(30),
        2 => rng.usize(9001),
        _ => rng.usize(200),
    };
    let mut b = rng.bytes(len);
    if b.len() >= 12 && rng.chance(3, 4) {
        // plausible counts so that parsing goes past the header
        for i in 4..12 {
            b[i] = 0;
        }
        b[5] = rng.below(3) as u8;
        b[7] = rng.below(3) as u8;
        b[9] = rng.below(2) as u8;
        b[11] = rng.below(2) as u8;
    }
    b
}

pub fn g2_mutate(rng: &mut Rng) -> Vec<u8> {
    let mut b = valid_packet(rng);
    let n = 1 + rng.usize(4);
    for _ in 0..n {
        if b.is_empty() {
            break;
        }
        match rng.below(8) {
            0 => {
                let i = rng.usize(b.len());
                b[i] ^= 1 << rng.below(8);
            }
            1 => {
                let i = rng.usize(b.len());
                b[i] = *rng.pick(&[0u8, 1, 0x3F, 0x40, 0x80, 0xC0, 0xFF, 12, 13]);
            }
            2 => {
                let at = rng.usize(b.len() + 1);
                b.truncate(at);
            }
            3 => {
                let other = valid_packet(rng);
                let cut = rng.usize(b.len() + 1);
                let from = rng.usize(other.len() + 1);
                b.truncate(cut);
                b.extend_from_slice(&other[from..]);
            }
            4 => {
                // corrupt a length-like field near a random place
                let i = rng.usize(b.len());
                b[i] = b[i].wrapping_add(*rng.pick(&[1u8, 255, 2, 16]));
            }
            5 => {
                // insert a pointer somewhere
                let i = rng.usize(b.len());
                let target = rng.usize(b.len().min(0x3FFF)) as u16;
                let p = (0xC000 | target).to_be_bytes();
                b[i] = p[0];
                if i + 1 < b.len() {
                    b[i + 1] = p[1];
                }
            }
            6 => {
                let i = rng.usize(b.len());
                let n_extra = 1 + rng.usize(6);
                let extra = rng.bytes(n_extra);
                for (k, e) in extra.iter().enumerate() {
                    b.insert((i + k).min(b.len()), *e);
                }
            }
            _ => {
                if b.len() > 12 {
                    let i = 4 + rng.usize(8);
                    b[i] = *rng.pick(&[0u8, 1, 2, 255]);
                }
            }
        }
    }
    b.truncate(9000);
    b
}

/// Hostile name writer: returns nothing, appends to `b`. `marks` are offsets worth pointing at.
fn hostile_name(rng: &mut Rng, b: &mut Vec<u8>, marks: &mut Vec<usize>) {
    let start = b.len();
    marks.push(start);
    let parts = rng.usize(5);
    for _ in 0..parts {
        match rng.below(12) {
            0..=5 => {
                // label
                marks.push(b.len());
                let n = match rng.below(6) {
                    0 => 63,
                    1 => 1,
                    _ => 1 + rng.usize(8),
                };
                b.push(n as u8);
                let body = if rng.chance(1, 6) {
                    rng.bytes(n)
                } else {
                    (0..n).map(|_| b'a' + rng.below(26) as u8).collect()
                };
                marks.push(b.len() + n / 2);
                b.extend_from_slice(&body);
            }
            6 => {
                // reserved label type
                b.push(*rng.pick(&[0x40u8, 0x80, 0x41, 0xBF]));
                b.push(rng.u64() as u8);
            }
            _ => {
                // pointer: earlier mark, self, forward, header, anywhere
                let target = match rng.below(7) {
                    0 => start,
                    1 => b.len(),
                    2 => b.len() + 2 + rng.usize(8),
                    3 => rng.usize(12),
                    4 if !marks.is_empty() => *rng.pick(marks),
                    5 if !marks.is_empty() => *rng.pick(marks),
                    _ => rng.usize(b.len() + 20),
                } & 0x3FFF;
                b.extend_from_slice(&(0xC000u16 | target as u16).to_be_bytes());
                if rng.chance(9, 10) {
                    return; // a pointer ends the name
                }
            }
        }
    }
    if rng.chance(9, 10) {
        b.push(0);
    }
}

pub fn g3_grammar(rng: &mut Rng) -> Vec<u8> {
    let mut b = vec![0u8; 12];
    let response = rng.chance(2, 3);
    if response {
        b[2] = 0x84;
    }
    let mut marks: Vec<usize> = Vec::new();
    let nq = rng.usize(3);
    for _ in 0..nq {
        hostile_name(rng, &mut b, &mut marks);
        let qt = *rng.pick(&[1u16, 12, 16, 28, 33, 47, 255, 13, 5, 99, 0]);
        b.extend_from_slice(&qt.to_be_bytes());
        b.extend_from_slice(&(*rng.pick(&[1u16, 0x8001, 255, 0])).to_be_bytes());
    }
    let nrec = rng.usize(6);
    let mut per_section = [0u16; 3];
    for i in 0..nrec {
        hostile_name(rng, &mut b, &mut marks);
        let ty = *rng.pick(&[1u16, 12, 16, 28, 33, 47, 13, 13, 5, 99, 255, 41]);
        b.extend_from_slice(&ty.to_be_bytes());
        b.extend_from_slice(&(*rng.pick(&[1u16, 0x8001, 0x8001, 3])).to_be_bytes());
        b.extend_from_slice(&gen::random_ttl(rng).to_be_bytes());
        let len_at = b.len();
        b.extend_from_slice(&[0, 0]);
        let rs = b.len();
        marks.push(rs);
        match ty {
            1 => {
                let n = if rng.chance(9, 10) { 4 } else { rng.usize(8) };
                b.extend_from_slice(&rng.bytes(n));
            }
            28 => {
                let n = if rng.chance(9, 10) { 16 } else { rng.usize(20) };
                b.extend_from_slice(&rng.bytes(n));
            }
            12 | 5 => hostile_name(rng, &mut b, &mut marks),
            33 => {
                let n = if rng.chance(9, 10) { 6 } else { rng.usize(7) };
                b.extend_from_slice(&rng.bytes(n));
                hostile_name(rng, &mut b, &mut marks);
            }
            16 => {
                // strings that look like names, so that pointers into RDATA find labels
                let n = rng.usize(4);
                for _ in 0..n {
                    hostile_name(rng, &mut b, &mut marks);
                }
            }
            13 => {
                for _ in 0..rng.usize(3) {
                    let n = rng.usize(6);
                    b.push(if rng.chance(1, 5) { 200 } else { n as u8 });
                    b.extend_from_slice(&rng.bytes(n));
                }
            }
            47 => {
                hostile_name(rng, &mut b, &mut marks);
                b.push(if rng.chance(4, 5) { 0 } else { 1 });
                let bl = *rng.pick(&[1u8, 4, 32, 33, 0]);
                b.push(bl);
                let n = if rng.chance(4, 5) { bl as usize } else { rng.usize(8) };
                b.extend_from_slice(&rng.bytes(n));
            }
            _ => {
                let n = rng.usize(12);
                b.extend_from_slice(&rng.bytes(n));
            }
        }
        let exact = (b.len() - rs) as i64;
        let rdlen: i64 = match rng.below(12) {
            0 => 0,
            1 => exact + 1,
            2 => (exact - 1).max(0),
            3 => 65535,
            4 => exact + 2 + rng.below(40) as i64,
            _ => exact,
        };
        let rdlen = rdlen.clamp(0, 65535) as u16;
        b[len_at..len_at + 2].copy_from_slice(&rdlen.to_be_bytes());
        per_section[i % 3] += 1;
    }
    let tweak = |rng: &mut Rng, exact: u16| -> u16 {
        match rng.below(12) {
            0 => exact.wrapping_add(1),
            1 => exact.saturating_sub(1),
            2 => 65535,
            3 => 0,
            _ => exact,
        }
    };
    // records were written round-robin; make the sections contiguous by count only
    let total = per_section.iter().sum::<u16>();
    let an = rng.below(total as u64 + 1) as u16;
    let ns = rng.below((total - an) as u64 + 1) as u16;
    let ar = total - an - ns;
    let counts = [
        tweak(rng, nq as u16),
        tweak(rng, an),
        tweak(rng, ns),
        tweak(rng, ar),
    ];
    for (i, c) in counts.iter().enumerate() {
        b[4 + 2 * i..6 + 2 * i].copy_from_slice(&c.to_be_bytes());
    }
    if rng.chance(1, 5) {
        let at = rng.usize(b.len() + 1);
        b.truncate(at);
    }
    if rng.chance(1, 10) {
        let n = rng.usize(16);
        b.extend_from_slice(&rng.bytes(n));
    }
    b
}

const ALPHABET: [u8; 9] = [0x00, 0x01, 0x02, b'a', 0x3F, 0x40, 0xC0, 0x0C, 0x0D];

/// G5: label runs laid over one another. A region of 0x3F bytes ("a 63-byte label of '?'"
/// from whichever byte reading starts) is followed by a tail holding backward pointers,
/// each two bytes below the previous run's start: every run re-reads the same region at
/// another alignment. All pointers point strictly backwards; only a per-run limit
/// ("pointed-to labels end before the run that pointed to them") keeps the decoded name
/// from growing to runs x region. Parameters are random; so are a few damaged variants.
/// G6: a well-formed message whose last string / bitmap inside some RDATA claims one byte more (or less) than the
/// RDATA holds - the record length itself stays right -, and whose header promises one record more than the
/// datagram carries (so that the reader of the next name starts exactly at the end): each is harmless to a
/// careful decoder, together they reach the code that formats half-read messages for an error text.
pub fn g6_off_by_one(rng: &mut Rng) -> Vec<u8> {
    let mut m = wire::Message::response();
    let pool = gen::name_pool(rng, 3, 20);
    let n = 1 + rng.usize(3);
    for _ in 0..n {
        let owner = rng.pick(&pool).clone();
        let rec = match rng.below(7) {
            5 | 6 => {
                // TXT, well formed: many strings of text outside ASCII (2-, 3- and 4-byte characters at every
                // alignment), a few hundred bytes in all - whatever formats the half-read message has to cope
                let mut t: Vec<u8> = Vec::new();
                let strings = 1 + rng.usize(8);
                for _ in 0..strings {
                    let mut sbytes: Vec<u8> = Vec::new();
                    let want = rng.usize(120);
                    if rng.chance(1, 2) {
                        sbytes.extend(b"key=");
                    }
                    while sbytes.len() < want {
                        let c = match rng.below(5) {
                            0 => char::from(b'a' + rng.below(26) as u8),
                            1 => *rng.pick(&['\u{e9}', '\u{fc}', '\u{df}', '\u{f8}']),
                            2 | 3 => *rng.pick(&['\u{65e5}', '\u{672c}', '\u{20ac}', '\u{8a9e}']),
                            _ => *rng.pick(&['\u{1f600}', '\u{1f5a8}', '\u{10348}']),
                        };
                        let mut buf = [0u8; 4];
                        sbytes.extend(c.encode_utf8(&mut buf).as_bytes());
                    }
                    sbytes.truncate(255);
                    t.push(sbytes.len() as u8);
                    t.extend(sbytes);
                }
                wire::rec(&owner, wire::T_TXT, 1 | wire::FLUSH, 120, RData::Raw(t))
            }
            0 | 1 => {
                // TXT: strings, the last length byte off by one
                let mut t: Vec<u8> = Vec::new();
                for _ in 0..rng.usize(3) {
                    let k = rng.usize(6);
                    t.push(k as u8);
                    t.extend((0..k).map(|i| b'a' + i as u8));
                }
                let k = rng.usize(5);
                t.push((k as i32 + *rng.pick(&[1i32, 1, -1, 2])).max(0) as u8);
                t.extend((0..k).map(|i| b'k' + i as u8));
                wire::rec(&owner, wire::T_TXT, 1 | wire::FLUSH, 120, RData::Raw(t))
            }
            2 => {
                // HINFO: two strings, the second one byte short
                wire::rec(&owner, 13, 1, 120, RData::Raw(vec![3, b'x', b'8', b'6', 6, b'L', b'i', b'n', b'u', b'x']))
            }
            3 => {
                // NSEC: next name, window, bitmap length one more than what follows (or nothing after the window)
                let mut d = vec![0xc0, 0x0c];
                d.push(0);
                if rng.chance(1, 2) {
                    d.push(3);
                    d.extend([0x40, 0x00]);
                }
                wire::rec(&owner, wire::T_NSEC, 1 | wire::FLUSH, 120, RData::Raw(d))
            }
            _ => gen::random_record(rng, &pool, gen::CORE_TYPES),
        };
        match rng.below(3) {
            0 => m.answers.push(rec),
            1 => m.authorities.push(rec),
            _ => m.additionals.push(rec),
        }
    }
    let mut b = wire::encode(&m, if rng.chance(1, 2) { wire::Compression::Max } else { wire::Compression::None });
    // one record (or question) more than there is, in a section after the last one that has records
    if b.len() >= 12 && rng.chance(3, 4) {
        let at = if !m.additionals.is_empty() || rng.chance(1, 3) { 10 } else if !m.authorities.is_empty() { *rng.pick(&[8usize, 10]) } else { *rng.pick(&[6usize, 8, 10]) };
        let v = u16::from_be_bytes([b[at], b[at + 1]]).saturating_add(1);
        b[at..at + 2].copy_from_slice(&v.to_be_bytes());
    }
    b
}

pub fn g5_overlap(rng: &mut Rng) -> Vec<u8> {
    let big = rng.chance(1, 4);
    let m = 1 + rng.usize(if big { 130 } else { 24 }); // 63-byte labels per run
    let runs = 2 + rng.usize(31);
    // runs start at base+62, base+60, ...: the pointers to them (C2 80 ..= C2 BE for base 640)
    // are valid UTF-8, which matters because they are label content for the other runs
    let base: usize = 640;
    let mut p = vec![0u8; 12];
    p[2] = 0x84;
    p[7] = 2; // two answers
    p.extend_from_slice(&[0x00, 0xFF, 0x00, 0x00, 0x01, 0, 0, 0, 120]);
    let rdata_at = p.len() + 2;
    let rdlen = (base - rdata_at) + 64 * m + 64;
    p.extend_from_slice(&(rdlen as u16).to_be_bytes());
    p.resize(base, 0);
    p.extend(std::iter::repeat(0x3F).take(64 * m));
    let mut tail = vec![0u8; 64];
    for i in 0..runs - 1 {
        let slot = 62 - 2 * i;
        let next_start = base + 62 - 2 * (i + 1);
        tail[slot..slot + 2].copy_from_slice(&(0xC000u16 | next_start as u16).to_be_bytes());
    }
    p.extend_from_slice(&tail);
    // the second answer's owner: a pointer to the first run (sometimes a label first)
    if rng.chance(1, 5) {
        p.extend_from_slice(&[1, b'x']);
    }
    p.extend_from_slice(&(0xC000u16 | (base + 62) as u16).to_be_bytes());
    p.extend_from_slice(&[0, 1, 0, 1, 0, 0, 0, 120, 0, 4, 10, 0, 0, 1]);
    // damaged variants: a flipped byte in the tail or the region
    if rng.chance(1, 4) {
        let at = base + rng.usize(64 * m + 64);
        p[at] = rng.u64() as u8;
    }
    p
}

/// The smallest overlap: two runs sharing two bytes.
fn g5_minimal() -> Vec<u8> {
    let mut p = vec![0u8; 12];
    p[2] = 0x84;
    p[7] = 2;
    p.extend_from_slice(&[0x00, 0xFF, 0x00, 0x00, 0x01, 0, 0, 0, 120, 0, 5]);
    let base = p.len();
    p.extend_from_slice(&[0x01, 0x01, 0x00]);
    p.extend_from_slice(&(0xC000u16 | base as u16).to_be_bytes());
    p.extend_from_slice(&(0xC000u16 | (base + 1) as u16).to_be_bytes());
    p.extend_from_slice(&[0, 1, 0, 1, 0, 0, 0, 120, 0, 4, 10, 0, 0, 1]);
    p
}

fn g4_datagram(header: usize, s: &[u8]) -> Vec<u8> {
    let mut b = vec![0u8; 12];
    match header {
        0 => {
            b[5] = 1; // one question
            b.extend_from_slice(s);
            b.extend_from_slice(&[0, 1, 0, 1]);
        }
        1 => {
            b[2] = 0x84;
            b[7] = 1; // one answer: A
            b.extend_from_slice(s);
            b.extend_from_slice(&[0, 1, 0x80, 1, 0, 0, 0, 120, 0, 4, 10, 0, 0, 1]);
        }
        2 => {
            b[2] = 0x84;
            b[7] = 1; // one answer: HINFO with RDLENGTH 2 (two empty strings)
            b.extend_from_slice(s);
            b.extend_from_slice(&[0, 13, 0, 1, 0, 0, 0, 120, 0, 2, 0, 0]);
        }
        _ => {
            b[2] = 0x84;
            b[7] = 1; // one answer: SRV whose target points back at the owner name
            b.extend_from_slice(s);
            b.extend_from_slice(&[0, 33, 0x80, 1, 0, 0, 0, 120, 0, 8, 0, 0, 0, 0, 0, 80, 0xC0, 0x0C]);
        }
    }
    b
}

/// Enumerates every string over `ALPHABET` of length ≤ `max_len` (index → string).
fn g4_count(max_len: usize) -> u64 {
    (0..=max_len as u32).map(|l| 9u64.pow(l)).sum()
}

fn g4_string(mut idx: u64, max_len: usize) -> Vec<u8> {
    let mut len = 0usize;
    loop {
        let n = 9u64.pow(len as u32);
        if idx < n || len == max_len {
            break;
        }
        idx -= n;
        len += 1;
    }
    let mut s = vec![0u8; len];
    for i in 0..len {
        s[i] = ALPHABET[(idx % 9) as usize];
        idx /= 9;
    }
    s
}

/// Must-activate inputs: one per rule, built by hand (so a run is never vacuous),
/// including the two defects found while designing (now regression inputs).
fn scripted() -> Vec<(&'static str, Vec<u8>)> {
    let mut v = Vec::new();
    // plain, valid announcement
    let inst = wire::name("inst._t._udp.local");
    let ty = wire::name("_t._udp.local");
    let host = wire::name("host.local");
    let mut m = wire::Message::response();
    m.answers.push(wire::ptr(&ty, 4500, &inst));
    m.answers.push(wire::srv(&inst, 120, 80, &host));
    m.answers.push(wire::txt(&inst, 4500, vec![3, b'k', b'=', b'v']));
    m.additionals.push(wire::a(&host, 120, [10, 0, 0, 1]));
    m.additionals.push(wire::rec(
        &host,
        wire::T_NSEC,
        1 | wire::FLUSH,
        120,
        RData::NSec {
            next: host.clone(),
            rest: vec![0, 4, 0x40, 0, 0, 8],
        },
    ));
    m.additionals.push(wire::rec(
        &host,
        wire::T_HINFO,
        1,
        120,
        RData::HInfo {
            cpu: b"x86".to_vec(),
            os: b"linux".to_vec(),
        },
    ));
    v.push(("scripted-valid", wire::encode(&m, wire::Compression::Max)));
    v.push(("scripted-valid", wire::encode(&m, wire::Compression::None)));
    // HINFO with empty RDATA as the last bytes of the datagram
    let mut b = vec![0u8; 12];
    b[2] = 0x84;
    b[7] = 1;
    b.extend_from_slice(&[1, b'h', 0, 0, 13, 0, 1, 0, 0, 0, 120, 0, 0]);
    v.push(("scripted-hinfo-empty", b));
    // pointer cycle through RDATA below the name start
    let mut b = vec![0u8; 12];
    b[2] = 0x84;
    b[7] = 2;
    // record 1: owner "x", TXT whose RDATA is [02 'a' 'b' C0 <self>]
    b.extend_from_slice(&[1, b'x', 0, 0, 16, 0, 1, 0, 0, 0, 120, 0, 5]);
    let rs = b.len();
    b.extend_from_slice(&[2, b'a', b'b', 0xC0, rs as u8]);
    // record 2: owner = pointer into that RDATA
    b.extend_from_slice(&[0xC0, rs as u8, 0, 1, 0, 1, 0, 0, 0, 120, 0, 4, 10, 0, 0, 1]);
    v.push(("scripted-rdata-cycle", b));
    // many records sharing one long name through pointers (legal, maximal work per byte)
    let mut b = vec![0u8; 12];
    b[2] = 0x84;
    let mut nrec = 0u16;
    let first = b.len();
    for _ in 0..3 {
        b.push(63);
        b.extend_from_slice(&[b'a'; 63]);
    }
    b.push(0);
    b.extend_from_slice(&[0, 1, 0, 1, 0, 0, 0, 120, 0, 4, 10, 0, 0, 1]);
    nrec += 1;
    while b.len() + 16 <= 9000 {
        b.extend_from_slice(&[0xC0, first as u8, 0, 1, 0, 1, 0, 0, 0, 120, 0, 4, 10, 0, 0, 2]);
        nrec += 1;
    }
    b[6..8].copy_from_slice(&nrec.to_be_bytes());
    v.push(("scripted-shared-long-name", b));
    v
}

/// R6, at the receiving daemon: datagrams are read into a fixed buffer; only the bytes that
/// arrived may be decoded. Every proper prefix of a valid response (cut inside a header count's
/// worth of records, inside RDATA, inside a name) is malformed: a daemon with a hostname search
/// and a browse open must not act on it - whatever it would "read" beyond the cut was never in
/// the datagram. The complete datagram, sent last, must be acted on (so the cut ones could have been).
pub fn truncation_case(seed: u64, thorough: bool, l: &mut Local) {
    use crate::scen;
    use crate::world::*;
    let mut rng = Rng::new(seed);
    let mut w = World::new(seed);
    w.set_stepping(Stepping::Lazy);
    let h = w.add_host(scen::single_v4());
    w.set_ip_check_interval(h, 3600);
    let host_name = format!("trunc{}.local.", rng.below(1000));
    let Some(hchan) = w.resolve_hostname(h, &host_name, None) else { return };
    let Some(bchan) = w.browse(h, "_t._udp.local.") else { return };
    w.run_for(50);
    let mut m = wire::Message::response();
    let owner = wire::name(host_name.trim_end_matches('.'));
    let last_octet = 1 + rng.below(250) as u8;
    // (addresses without zero bytes: padding read as data shows up as zeros)
    let mut svc = scen::Svc::new("_t._udp.local.", "truncated", host_name.trim_end_matches('.'), [10, 7, 9, last_octet]);
    svc.v4 = vec![[10, 7, 9, last_octet]];
    match rng.below(3) {
        0 => m.answers.push(wire::a(&owner, 120, [10, 7, 9, last_octet])),
        1 => m.answers = svc.records(),
        _ => {
            m.answers.push(svc.ptr());
            m.additionals = svc.records()[1..].to_vec();
        }
    }
    let full = wire::encode(&m, if rng.chance(1, 2) { wire::Compression::Max } else { wire::Compression::None });
    let mut cuts: Vec<usize> = (1..full.len()).collect();
    if !thorough {
        rng.shuffle(&mut cuts);
        cuts.truncate(24);
        cuts.sort();
    }
    l.evaluations += 1;
    l.distinct.insert(util::fnv_str(&format!("trunc|{}|{}", m.answers.len(), m.additionals.len())));
    let events = |w: &World| w.trace.obs(hchan).filter(|(_, o)| matches!(o, Obs::AddrFound(..))).count() + w.trace.obs(bchan).filter(|(_, o)| matches!(o, Obs::Found(..) | Obs::Resolved(..))).count();
    for cut in cuts {
        let before = events(&w);
        w.inject(h, 2, scen::peer4(44), full[..cut].to_vec());
        w.settle();
        w.run_for(5);
        l.act("R6");
        if w.trace.deaths().any(|d| matches!(d.ev, Ev::Death { panicked: true, .. })) {
            l.violate(Violation::new("R6", "R6/daemon-died-on-truncated-datagram", format!("the daemon died on a response cut after {cut} of {} bytes", full.len())).with(json!({"hex": wire::hex(&full), "cut": cut})));
            return;
        }
        if events(&w) != before {
            let what: Vec<String> = w.trace.obs(hchan).chain(w.trace.obs(bchan)).map(|(_, o)| format!("{o:?}")).filter(|s| !s.contains("Started")).collect();
            l.violate(
                Violation::new("R6", "R6/truncated-datagram-acted-on", format!("a response cut after {cut} of {} bytes (malformed: the rest was never received) produced events: {:?}", full.len(), what))
                    .with(json!({"hex": wire::hex(&full), "cut": cut, "events": what})),
            );
            return;
        }
    }
    // the control
    let before = events(&w);
    w.inject(h, 2, scen::peer4(44), full.clone());
    w.settle();
    w.run_for(5);
    if events(&w) == before {
        l.inconclusive.push(format!("the complete datagram of a C01 truncation case produced no event (seed {seed})"));
    }
}

pub fn run(report: &Report, tier: &Tier) {
    report.set_rule(
        "inputs: G1 uniform random bytes, G2 mutations/truncations/splices of valid packets (W-encoded and crate-encoded), \
         G3 grammar with hostile counts/RDLENGTH/pointer graphs, G5 label runs laid over one another and chained by backward pointers \
         (2..32 runs over 1..130 63-byte labels), R6: every (quick: 24 sampled) proper prefix of valid responses delivered to a running daemon with a hostname search and a browse open; G4 every string over a 9-byte name alphabet up to a fixed \
         length after four fixed headers, plus scripted inputs; a case is distinct by (generator, log2 length, decoder outcome class) \
         and non-trivial if it is at least a full header long",
    );
    report.assume("the reference parser W (harness/src/wire.rs) is correct; it shares no code with the crate");
    report.assume("loops outside read_name are bounded by the 16-bit section counts (checked by reading; R2 counts read_name steps)");
    for r in ["R1", "R2", "R3", "R4", "R5", "R6"] {
        report.floor(r, 100);
    }

    let mut l = Local::default();
    for (origin, b) in scripted() {
        check_input(&b, &mut l, origin);
    }
    report.merge(l);

    let seed = report.seed;
    let thorough = tier.thorough;
    let per_gen: u64 = if thorough { 120_000_000 } else { 600_000 };
    let batch: u64 = 2000;
    let budget = tier.budget_s * 0.5;
    {
        let mut l = Local::default();
        check_input(&g5_minimal(), &mut l, "G5-overlap");
        report.merge(l);
        let n: u64 = if thorough { 2_000_000 } else { 4_000 };
        run_parallel(report, n / 100, threads(), budget / 6.0, |i, l| {
            let mut rng = Rng::new(util::mix(seed, 5u64 << 40 | i));
            for _ in 0..100 {
                check_input(&g5_overlap(&mut rng), l, "G5-overlap");
                check_input(&g6_off_by_one(&mut rng), l, "G6-off-by-one");
            }
        });
    }
    for (gi, name) in ["G1-random", "G2-mutation", "G3-grammar"].iter().enumerate() {
        let name: &'static str = name;
        run_parallel(report, per_gen / batch, threads(), budget / 3.0, |i, l| {
            let mut rng = Rng::new(util::mix(seed, (gi as u64) << 40 | i));
            for _ in 0..batch {
                let b = match gi {
                    0 => g1_random(&mut rng),
                    1 => g2_mutate(&mut rng),
                    _ => g3_grammar(&mut rng),
                };
                check_input(&b, l, name);
            }
        });
    }
    // G4 exhaustive
    let max_len = if thorough { 7 } else { 6 };
    let total = g4_count(max_len);
    let chunks = total.div_ceil(batch);
    let done = run_parallel(report, chunks, threads(), tier.budget_s * 0.45, |i, l| {
        for idx in i * batch..((i + 1) * batch).min(total) {
            let s = g4_string(idx, max_len);
            for header in 0..4 {
                check_input(&g4_datagram(header, &s), l, "G4-exhaustive");
            }
        }
    });
    report.extra(
        "g4",
        json!({"alphabet": ALPHABET, "max_len": max_len, "strings": total, "headers": 4,
               "exhaustive": done == chunks, "chunks_done": done, "chunks": chunks}),
    );
    // R6: truncated datagrams at a running daemon
    let nt: u64 = if thorough { 3_000 } else { 200 };
    run_parallel(report, nt, threads(), tier.budget_s * 0.05, |i, l| {
        truncation_case(util::mix(seed, 6u64 << 40 | i), thorough, l);
    });
    let mut l = Local::default();
    l.samples.push(json!({"generator":"scripted-valid","hex": wire::hex(&scripted()[0].1)}));
    let mut rng = Rng::new(seed);
    l.samples.push(json!({"generator":"G3-grammar","hex": wire::hex(&g3_grammar(&mut rng))}));
    l.samples.push(json!({"generator":"G2-mutation","hex": wire::hex(&g2_mutate(&mut rng))}));
    l.samples.push(json!({"generator":"G4-exhaustive","hex": wire::hex(&g4_datagram(3, &g4_string(12345, max_len)))}));
    report.merge(l);
}
