//! C15 — no API argument and no packet can crash a caller or kill the daemon.
//!
//! A1 no panic in the calling thread; A2 the daemon thread is alive and serving after
//! every input and after the deferred work it caused (probing, announcing, renames,
//! follow-up queries: ≥ 6 virtual seconds, with conflicts injected against whatever it
//! probes for); A3 requests made before the hostile input keep working.

use crate::gen;
use crate::props::c01;
use crate::report::{run_parallel, threads, Local, Report, Violation};
use crate::scen::{self, Svc};
use crate::util::{self, Rng};
use crate::wire::{self, Message, Name, RData};
use crate::world::*;
use crate::Tier;
use serde_json::json;
use std::net::IpAddr;

const OK_TYPE: &str = "_ok._udp.local.";

/// Hostile strings for names.
pub fn hostile_name(rng: &mut Rng, role: u8) -> String {
    // role 0 = service type, 1 = instance, 2 = host, 3 = anything
    let suffix = match role {
        0 => *rng.pick(&["._udp.local.", "._tcp.local.", "._udp.local", ".local.", "", "._sub._t._udp.local.", "._udp.local.local."]),
        2 => *rng.pick(&[".local.", ".local.", ".local", "", ".local.local.", "..local."]),
        _ => "",
    };
    let n_labels = match rng.below(6) {
        0 => 0,
        1 | 2 => 1,
        3 => 2,
        _ => 1 + rng.usize(4),
    };
    let mut labels: Vec<String> = Vec::new();
    for _ in 0..n_labels {
        let len = *rng.pick(&[0usize, 1, 2, 15, 16, 30, 31, 59, 60, 61, 62, 63, 64, 65, 100, 255, 256]);
        let mut s = match rng.below(7) {
            0 => "a".repeat(len),
            1 => {
                // multi-byte text ending exactly at / across the length
                let mut s = String::new();
                while s.len() < len {
                    s.push(*rng.pick(&['é', '日', '😀', 'a']));
                }
                s
            }
            2 => {
                let mut s = "b".repeat(len.saturating_sub(1));
                s.push('\\');
                s
            }
            3 => {
                let mut s = String::new();
                while s.len() < len {
                    s.push(*rng.pick(&['.', '\\', 'c', ' ', '-', '_']));
                }
                s
            }
            4 => {
                let mut s = "d".repeat(len.saturating_sub(4));
                s.push_str(*rng.pick(&[" (2)", "-2", " (9)", "-4294967295", " (4294967295)"]));
                s
            }
            5 => gen::utf8_label(rng, len.max(1)),
            _ => {
                let mut s = "_".to_string();
                s.push_str(&"e".repeat(len.saturating_sub(1)));
                s
            }
        };
        if role == 0 && rng.chance(2, 3) && !s.starts_with('_') {
            s.insert(0, '_');
        }
        labels.push(s);
    }
    let mut name = labels.join(".");
    name.push_str(suffix);
    // total lengths around the 255 limit
    if rng.chance(1, 10) {
        let target = *rng.pick(&[253usize, 254, 255, 256, 260]);
        while name.len() < target {
            name.insert_str(0, "x.");
        }
    }
    name
}

#[derive(Clone, Debug)]
pub enum Hostile {
    Browse(String),
    BrowseCache(String),
    StopBrowse(String),
    Resolve(String, Option<u64>),
    StopResolve(String),
    Register { ty: String, inst: String, host: String, port: u16, big_txt: bool, auto: bool },
    Unregister(String),
    Verify(String, u64),
    IpCheck(u32),
    NameLenMax(u8),
    Interfaces(bool, String),
}

fn gen_hostile(rng: &mut Rng) -> Hostile {
    match rng.below(16) {
        0 | 1 => Hostile::Browse(hostile_name(rng, 0)),
        2 => Hostile::BrowseCache(hostile_name(rng, 0)),
        3 => Hostile::StopBrowse(hostile_name(rng, 0)),
        4 | 5 => Hostile::Resolve(hostile_name(rng, 2), *rng.pick(&[None, Some(0), Some(1), Some(u64::MAX), Some(u64::MAX - 1_800_000_000_000), Some(1000)])),
        6 => Hostile::StopResolve(hostile_name(rng, 2)),
        7..=10 => {
            let valid_ty = rng.chance(1, 2);
            let valid_host = rng.chance(1, 2);
            Hostile::Register {
                ty: if valid_ty { "_t._udp.local.".into() } else { hostile_name(rng, 0) },
                inst: hostile_name(rng, 1),
                host: if valid_host { "h.local.".into() } else { hostile_name(rng, 2) },
                port: *rng.pick(&[0u16, 1, 65535, 80]),
                big_txt: rng.chance(1, 6),
                auto: rng.chance(1, 4),
            }
        }
        11 => Hostile::Unregister(hostile_name(rng, 3)),
        12 => Hostile::Verify(hostile_name(rng, 1), *rng.pick(&[0u64, 1, u64::MAX, u64::MAX / 2, 10_000])),
        13 => Hostile::IpCheck(*rng.pick(&[0u32, 1, u32::MAX, u32::MAX - 1])),
        14 => Hostile::NameLenMax(*rng.pick(&[0u8, 1, 15, 30, 31, 255])),
        _ => Hostile::Interfaces(rng.chance(1, 2), hostile_name(rng, 3)),
    }
}

fn kind_of(h: &Hostile) -> &'static str {
    match h {
        Hostile::Browse(_) => "browse",
        Hostile::BrowseCache(_) => "browse_cache",
        Hostile::StopBrowse(_) => "stop_browse",
        Hostile::Resolve(..) => "resolve_hostname",
        Hostile::StopResolve(_) => "stop_resolve_hostname",
        Hostile::Register { .. } => "register",
        Hostile::Unregister(_) => "unregister",
        Hostile::Verify(..) => "verify",
        Hostile::IpCheck(_) => "set_ip_check_interval",
        Hostile::NameLenMax(_) => "set_service_name_len_max",
        Hostile::Interfaces(..) => "enable/disable_interface",
    }
}

fn apply(w: &mut World, h: usize, x: &Hostile) {
    match x {
        Hostile::Browse(t) => {
            w.browse(h, t);
        }
        Hostile::BrowseCache(t) => {
            w.browse_cache(h, t);
        }
        Hostile::StopBrowse(t) => w.stop_browse(h, t),
        Hostile::Resolve(n, to) => {
            w.resolve_hostname(h, n, *to);
        }
        Hostile::StopResolve(n) => w.stop_resolve_hostname(h, n),
        Hostile::Register { ty, inst, host, port, big_txt, auto } => {
            let addrs: Vec<IpAddr> = vec!["10.0.0.5".parse().unwrap(), "fe80::5".parse().unwrap()];
            let big = vec![b'x'; 200];
            let mut txt: Vec<(String, Option<Vec<u8>>)> = vec![("k".to_string(), Some(b"v".to_vec()))];
            if *big_txt {
                for i in 0..60 {
                    txt.push((format!("key{i}"), Some(big.clone())));
                }
            }
            // a third of the registrations carry a hostile property list instead (sizes around the 255-byte
            // limit of key=value, empty and over-long keys, '=' in keys, binary values, duplicates)
            let mut pr = Rng::new(util::fnv_str(&format!("{inst}|{host}|{port}")));
            if !*big_txt && pr.chance(1, 3) {
                txt = crate::props::c16::gen_list(&mut pr);
                if pr.chance(1, 2) {
                    // right at the limit: key=value of exactly 255 and 256 bytes (also with an empty value)
                    let k = *pr.pick(&[1usize, 5, 100, 250, 254, 255]);
                    let total = *pr.pick(&[255usize, 256]);
                    let at = pr.usize(txt.len() + 1);
                    // (text or bytes that are no text at all: the limit is on bytes)
                    let fill = if pr.chance(1, 2) { b'v' } else { 0xFF };
                    let extra = if fill == 0xFF && pr.chance(1, 2) { 50 } else { 0 };
                    txt.insert(at, ("L".repeat(k), Some(vec![fill; total.saturating_sub(k + 1) + extra])));
                }
            }
            let mut reg = World::reg_info(ty, inst, host, &addrs, *port, &[]);
            reg.txt = txt;
            reg.addr_auto = *auto;
            w.register(h, reg);
        }
        Hostile::Unregister(n) => {
            w.unregister(h, n);
        }
        Hostile::Verify(n, ms) => {
            // Duration::from_millis(u64::MAX) is a valid Duration
            w.verify(h, n, *ms);
        }
        Hostile::IpCheck(v) => w.set_ip_check_interval(h, *v),
        Hostile::NameLenMax(v) => w.set_service_name_len_max(h, *v),
        Hostile::Interfaces(enable, n) => {
            // selections that match no real interface (disabling a real one legitimately stops traffic)
            let kinds = vec![mdns_sd::IfKind::Name(n.clone()), mdns_sd::IfKind::Addr("203.0.113.9".parse().unwrap()), mdns_sd::IfKind::IndexV6(u32::MAX), mdns_sd::IfKind::IndexV4(0)];
            if *enable {
                w.enable_interface(h, kinds)
            } else {
                w.disable_interface(h, kinds)
            }
        }
    }
}

/// Answers every probe the daemon sends with conflicting records, so that renaming runs.
fn inject_conflicts(w: &mut World, h: usize, seen: &mut usize, budget: &mut u32) {
    let mut replies: Vec<(u32, bool, Message)> = Vec::new();
    for e in w.trace.entries[*seen..].iter() {
        if e.host != h {
            continue;
        }
        if let Ev::Tx(tx) = &e.ev {
            let Ok(m) = &tx.msg else { continue };
            if !m.is_query() || m.authorities.is_empty() || *budget == 0 {
                continue;
            }
            let mut r = Message::response();
            for a in m.authorities.iter() {
                let rdata = match &a.rdata {
                    RData::A(_) => RData::A([10, 0, 0, 200]),
                    RData::Aaaa(x) => {
                        let mut y = *x;
                        y[15] ^= 0x55;
                        RData::Aaaa(y)
                    }
                    RData::Srv { .. } => RData::Srv { priority: 0, weight: 0, port: 1, target: wire::name("other.local") },
                    RData::Txt(_) => RData::Txt(vec![1, b'z']),
                    other => other.clone(),
                };
                r.answers.push(wire::rec(&a.name, a.rtype, a.class, 120, rdata.clone()));
                // the daemon keeps its own names in escaped text but reads names off the wire without escapes: a first label
                // that literally holds the escaped text ("v1\.2") is what reads back as the name it is probing, and is what
                // makes the renaming code run for names with dots and backslashes
                let first = &a.name[0];
                if first.iter().any(|b| *b == b'.' || *b == b'\\') {
                    let mut esc: Vec<u8> = Vec::new();
                    for b in first {
                        if *b == b'.' || *b == b'\\' {
                            esc.push(b'\\');
                        }
                        esc.push(*b);
                    }
                    if esc.len() <= 63 {
                        let mut n = a.name.clone();
                        n[0] = esc;
                        r.answers.push(wire::rec(&n, a.rtype, a.class, 120, rdata));
                    }
                }
            }
            if let Some(i) = tx.out_if {
                *budget -= 1;
                // first a competing prober for the same names (handled before the conflicting answer renames them): the daemon's own proposed records with one left out,
                // one more added, or one changed (simultaneous-probe tiebreaking walks both lists)
                let mut q = Message::query();
                q.questions = m.questions.clone();
                let mut auth = m.authorities.clone();
                match e.t % 4 {
                    0 => {
                        auth.pop();
                    }
                    1 => {
                        if let Some(last) = auth.last().cloned() {
                            let extra = match last.rtype {
                                wire::T_A => wire::aaaa(&last.name, 120, [0xfe, 0x80, 0, 0, 0, 0, 0, 0, 0, 0, 0, 0, 0, 0, 0, 9]),
                                _ => wire::rec(&last.name, wire::T_NSEC, last.class, 120, RData::NSec { next: last.name.clone(), rest: vec![0, 1, 0x40] }),
                            };
                            auth.push(extra);
                        }
                    }
                    2 => {
                        if let Some(first) = auth.first_mut() {
                            first.ttl = 0;
                            if let RData::Txt(t) = &mut first.rdata {
                                t.push(1);
                                t.push(0xff);
                            }
                        }
                    }
                    _ => auth.reverse(),
                }
                q.authorities = auth;
                replies.push((i, tx.v4, q));
                replies.push((i, tx.v4, r));
            }
        }
    }
    *seen = w.trace.entries.len();
    for (i, v4, r) in replies {
        let src = if v4 { scen::peer4(66) } else { scen::peer6(0x66, i) };
        w.inject_msg(h, i, src, &r);
    }
}

struct Ctx {
    w: World,
    h: usize,
    ok_browse: Option<usize>,
    t0: u64,
}

fn setup(seed: u64) -> Ctx {
    let mut w = World::new(seed);
    w.set_stepping(Stepping::Lazy);
    let h = w.add_host(scen::single_dual());
    let t0 = w.now();
    let _ = w.monitor(h);
    let ok_browse = w.browse(h, OK_TYPE);
    let _ = w.resolve_hostname(h, "known.local.", None);
    let addrs: Vec<IpAddr> = vec!["10.0.0.5".parse().unwrap()];
    w.register(h, World::reg_info("_mine._tcp.local.", "mine", "minehost.local.", &addrs, 81, &[("a", Some(b"1"))]));
    w.run_for(2500);
    Ctx { w, h, ok_browse, t0 }
}

/// A2/A3 after the hostile input. `via` names what was thrown at the daemon.
fn liveness(c: &mut Ctx, via: &str, detail: serde_json::Value, l: &mut Local) -> bool {
    let w = &mut c.w;
    let h = c.h;
    // A1
    l.act("A1");
    for (_, call, result, _) in w.trace.apis(h) {
        if let ApiResult::Panic(p) = result {
            let which = match call {
                ApiCall::Register(_) => "register".to_string(),
                other => format!("{other:?}").split('(').next().unwrap_or("").to_string(),
            };
            l.violate(
                Violation::new("A1", format!("A1/caller-panic/{}/via={which}", util::strip_numbers(p)), format!("{which} panicked in the calling thread: {p}"))
                    .with(json!({"input": detail, "call": format!("{call:?}")})),
            );
            return false;
        }
    }
    // A2: alive
    l.act("A2");
    if let Some(d) = w.trace.deaths().next() {
        let Ev::Death { msg, file, panicked } = &d.ev else { unreachable!() };
        l.violate(
            Violation::new(
                "A2",
                format!("A2/daemon-died/{}/{}/via={via}", util::strip_numbers(msg), file),
                format!("the daemon thread ended (panicked={panicked}) at +{} ms: {msg} ({file})", d.t - c.t0),
            )
            .with(json!({"input": detail, "trace_tail": w.trace.render_tail(25)})),
        );
        return false;
    }
    // A2: serving
    let st = w.status(h);
    let fresh = w.browse(h, "_probe._udp.local.");
    w.run_for(10);
    let running = st.is_some_and(|c| w.trace.obs(c).any(|(_, o)| matches!(o, Obs::Status(true))));
    let started = fresh.is_some_and(|c| w.trace.obs(c).any(|(_, o)| matches!(o, Obs::SearchStarted(_))));
    if !running || !started {
        if w.trace.deaths().next().is_some() {
            return liveness(c, via, detail, l);
        }
        l.violate(
            Violation::new("A2", format!("A2/not-serving/via={via}"), format!("after the input the daemon does not serve: status Running={running}, fresh browse started={started}"))
                .with(json!({"input": detail, "trace_tail": w.trace.render_tail(25)})),
        );
        return false;
    }
    // A3: the earlier browse still reports what a responder announces
    if let Some(ch) = c.ok_browse {
        l.act("A3");
        let s = Svc::new(OK_TYPE, &format!("fresh{}", w.now() % 1000), "okhost.local", [10, 0, 0, 40]);
        w.inject_msg(h, 2, scen::peer4(40), &s.announce());
        w.run_for(10);
        let name = s.fullname();
        let found = w.trace.obs(ch).any(|(_, o)| matches!(o, Obs::Resolved(r) if r.fullname == name));
        if !found && w.trace.deaths().next().is_none() {
            l.violate(
                Violation::new("A3", format!("A3/earlier-browse-broken/via={via}"), "a browse started before the hostile input no longer reports a newly announced instance")
                    .with(json!({"input": detail, "trace_tail": w.trace.render_tail(25)})),
            );
            return false;
        }
        if !found {
            return liveness(c, via, detail, l);
        }
    }
    true
}

pub fn api_case(seed: u64, l: &mut Local) {
    let mut rng = Rng::new(seed);
    let mut c = setup(seed);
    l.evaluations += 1;
    let n = 1 + rng.usize(3);
    let mut inputs: Vec<Hostile> = Vec::new();
    let mut seen = c.w.trace.entries.len();
    let mut budget = 12u32;
    for _ in 0..n {
        let x = gen_hostile(&mut rng);
        apply(&mut c.w, c.h, &x);
        inputs.push(x);
        // deferred work with conflicts against everything it probes for
        for _ in 0..14 {
            c.w.run_for(450);
            inject_conflicts(&mut c.w, c.h, &mut seen, &mut budget);
        }
    }
    c.w.run_for(1000);
    let kinds: Vec<&str> = inputs.iter().map(kind_of).collect();
    let accepted = c.w.trace.apis(c.h).filter(|(_, _, r, _)| matches!(r, ApiResult::Ok)).count();
    l.distinct.insert(util::fnv_str(&format!("api|{kinds:?}|{accepted}")));
    l.count("api_inputs", n as u64);
    l.count("daemon_iterations", c.w.total_iterations);
    let via = *kinds.last().unwrap_or(&"");
    // attribute a death to the call that preceded it
    let via = c
        .w
        .trace
        .deaths()
        .next()
        .map(|d| {
            let t = d.t;
            inputs
                .iter()
                .zip(c.w.trace.apis(c.h).filter(|(e, _, _, _)| e.t >= c.t0 + 2500).map(|(e, _, _, _)| e.t))
                .filter(|(_, ta)| *ta <= t)
                .map(|(x, _)| kind_of(x))
                .last()
                .unwrap_or(via)
        })
        .unwrap_or(via);
    let detail = json!(inputs.iter().map(|i| util::prefix(&format!("{i:?}"), 400).to_string()).collect::<Vec<_>>());
    if l.samples.len() < 2 {
        l.samples.push(json!({"api_inputs": detail}));
    }
    liveness(&mut c, via, detail, l);
}

// ---------------------------------------------------------------------------
// Datagram streams

fn weird_label(rng: &mut Rng) -> Vec<u8> {
    match rng.below(9) {
        0 => vec![b'a'; 63],
        1 => {
            let mut v = vec![b'b'; 62];
            v.push(b'\\');
            v
        }
        2 => b"with.dot".to_vec(),
        3 => b"trailing\\".to_vec(),
        4 => b"\\".to_vec(),
        5 => b".".to_vec(),
        6 => "日本語😀".as_bytes().to_vec(),
        7 => {
            let mut v = vec![b'c'; 58];
            v.extend_from_slice(b" (9)");
            v
        }
        _ => gen::utf8_label(rng, 63).into_bytes(),
    }
}

/// A valid PTR→SRV→address chain (plus TXT) whose names are hostile but encodable.
fn rich_packet(rng: &mut Rng, browsed: &Name) -> Vec<u8> {
    let mut inst: Name = vec![weird_label(rng)];
    if rng.chance(1, 4) {
        inst.push(weird_label(rng));
    }
    inst.extend(browsed.clone());
    let mut host: Name = vec![weird_label(rng)];
    if rng.chance(1, 3) {
        host.push(weird_label(rng));
    }
    host.push(b"local".to_vec());
    if rng.chance(1, 5) {
        host = wire::name("known.local");
    }
    let mut m = if rng.chance(5, 6) { Message::response() } else { Message::query() };
    let ttl = *rng.pick(&[0u32, 1, 2, 10, 120, 4500, u32::MAX]);
    let mut recs = vec![
        wire::ptr(browsed, ttl, &inst),
        wire::srv(&inst, ttl, 80, &host),
        // TXT data is decoded lazily, when an event is built: well-formed, or anything at all (strings that
        // run off the end by one byte or by many, stray zero lengths, binary keys)
        wire::txt(&inst, ttl, if rng.chance(1, 2) { vec![1, b'k'] } else { crate::props::c16::gen_txt_bytes(rng) }),
        wire::a(&host, ttl, [10, 0, 0, 50]),
    ];
    if rng.chance(1, 3) {
        recs.push(wire::rec(&inst, wire::T_NSEC, 1 | wire::FLUSH, ttl, RData::NSec { next: inst.clone(), rest: vec![0, 1, 0x40] }));
    }
    if rng.chance(1, 3) {
        // arrives incomplete, so that the daemon itself has to ask for the rest (re-encoding the names)
        recs.truncate(1 + rng.usize(3));
    }
    if m.is_query() {
        m.questions.push(wire::question(&inst, wire::T_ANY));
        m.questions.push(wire::question(&wire::name("mine._mine._tcp.local"), wire::T_ANY));
        m.authorities = recs;
    } else {
        for r in recs {
            match rng.below(3) {
                0 => m.additionals.push(r),
                _ => m.answers.push(r),
            }
        }
    }
    if wire::uncompressed_name_len(&inst) > 255 || wire::uncompressed_name_len(&host) > 255 {
        // over-long names are exactly what a hostile peer would send
    }
    wire::encode(&m, if rng.chance(1, 2) { wire::Compression::Max } else { wire::Compression::None })
}

pub fn stream_case(seed: u64, l: &mut Local) {
    let mut rng = Rng::new(seed);
    let mut c = setup(seed);
    l.evaluations += 1;
    let browsed = wire::name(OK_TYPE);
    let n = 20 + rng.usize(60);
    let mut kinds = [0u32; 4];
    let mut last: Vec<u8> = Vec::new();
    let mut hexes: Vec<String> = Vec::new();
    for _ in 0..n {
        let (k, pkt) = match rng.below(8) {
            0 => (0, c01::g1_random(&mut rng)),
            1 | 2 => (1, c01::g2_mutate(&mut rng)),
            3 => (2, c01::g3_grammar(&mut rng)),
            4 => (2, c01::g6_off_by_one(&mut rng)),
            _ => (3, rich_packet(&mut rng, &browsed)),
        };
        kinds[k] += 1;
        let (src, ifi) = if rng.chance(3, 4) {
            (sock4([10, 0, 0, 50], if rng.chance(7, 8) { 5353 } else { 40000 }), 2)
        } else {
            (scen::peer6(0x50, 2), 2)
        };
        last = pkt.clone();
        if hexes.len() < 100 {
            hexes.push(wire::hex(&pkt[..pkt.len().min(300)]));
        }
        c.w.inject(c.h, ifi, src, pkt);
        c.w.run_for(rng.below(120));
        if c.w.hosts[c.h].dead {
            break;
        }
    }
    c.w.run_for(6000);
    l.count("datagrams_injected", n as u64);
    l.count("daemon_iterations", c.w.total_iterations);
    l.distinct.insert(util::fnv_str(&format!("stream|{:?}|{}", kinds, c.w.trace.entries.iter().filter(|e| matches!(e.ev, Ev::Tx(_))).count() / 4)));
    let detail = json!({"datagrams_hex": hexes[hexes.len().saturating_sub(8)..], "last_len": last.len()});
    if l.samples.len() < 2 {
        l.samples.push(json!({"stream_kinds_random_mutated_grammar_rich": kinds}));
    }
    liveness(&mut c, "packet", detail, l);
}

/// One hand-written case per anticipated weakness (regression inputs once repaired).
fn scripted(l: &mut Local) {
    let long64 = "a".repeat(64);
    let cases: Vec<Hostile> = vec![
        Hostile::Browse(format!("_{}._udp.local.", "a".repeat(63))),
        Hostile::Browse(format!("{long64}._t._udp.local.")),
        Hostile::Resolve(format!("{long64}.local."), None),
        Hostile::Resolve("h.local.".into(), Some(u64::MAX)),
        Hostile::Register { ty: "._tcp.local.".into(), inst: "i".into(), host: "h.local.".into(), port: 1, big_txt: false, auto: false },
        Hostile::Register { ty: "_t._udp.local.".into(), inst: long64.clone(), host: "h.local.".into(), port: 1, big_txt: false, auto: false },
        Hostile::Register { ty: "_t._udp.local.".into(), inst: "i".into(), host: format!("{long64}.local."), port: 1, big_txt: false, auto: false },
        Hostile::Register { ty: "_t._udp.local.".into(), inst: "b".repeat(61), host: "h.local.".into(), port: 1, big_txt: false, auto: false },
        Hostile::Register { ty: "_t._udp.local.".into(), inst: "i".into(), host: format!("{}.local.", "c".repeat(62)), port: 1, big_txt: false, auto: false },
        Hostile::Register { ty: "_t._udp.local.".into(), inst: "big".into(), host: "h.local.".into(), port: 1, big_txt: true, auto: false },
        Hostile::Verify("i._t._udp.local.".into(), u64::MAX),
        Hostile::IpCheck(u32::MAX),
    ];
    for (i, x) in cases.iter().enumerate() {
        let mut c = setup(1000 + i as u64);
        l.evaluations += 1;
        apply(&mut c.w, c.h, x);
        let mut seen = 0;
        let mut budget = 12;
        for _ in 0..14 {
            c.w.run_for(450);
            inject_conflicts(&mut c.w, c.h, &mut seen, &mut budget);
        }
        c.w.run_for(1000);
        liveness(&mut c, kind_of(x), json!(util::prefix(&format!("{x:?}"), 300)), l);
    }
    // a peer whose instance label ends in a backslash and is long enough to overflow once merged
    for pad in [40usize, 58, 59, 60] {
        let mut c = setup(2000 + pad as u64);
        l.evaluations += 1;
        let mut first = vec![b'a'; pad];
        first.push(b'\\');
        let mut inst: Name = vec![first];
        inst.extend(wire::name(OK_TYPE));
        let mut m = Message::response();
        m.answers.push(wire::ptr(&wire::name(OK_TYPE), 4500, &inst));
        c.w.inject_msg(c.h, 2, scen::peer4(50), &m);
        c.w.run_for(6000);
        liveness(&mut c, "packet", json!({"ptr_target_first_label": format!("{} x 'a' + backslash", pad)}), l);
    }
    // the same with a label of characters outside ASCII behind it: once merged (the daemon reads "\." as an
    // escaped dot when it writes the name again) the 63-byte limit falls inside a 2-, 3- or 4-byte character
    for pad in 55usize..=62 {
        for (k, second) in ["\u{65e5}\u{672c}\u{8a9e}", "\u{1f600}\u{1f5a8}", "\u{e9}\u{fc}\u{df}", "x\u{20ac}\u{20ac}"].iter().enumerate() {
            let mut c = setup(3000 + (pad * 8 + k) as u64);
            l.evaluations += 1;
            let mut first = vec![b'a'; pad];
            first.push(b'\\');
            let mut inst: Name = vec![first, second.as_bytes().to_vec()];
            inst.extend(wire::name(OK_TYPE));
            let mut m = Message::response();
            m.answers.push(wire::ptr(&wire::name(OK_TYPE), 4500, &inst));
            c.w.inject_msg(c.h, 2, scen::peer4(50), &m);
            c.w.run_for(3000);
            if !c.w.hosts[c.h].dead {
                // and as a question from a one-shot querier, which the daemon echoes in its unicast reply
                let mut q = Message::query();
                q.questions.push(wire::question(&wire::name("mine._mine._tcp.local"), wire::T_ANY));
                q.questions.push(wire::question(&inst, wire::T_ANY));
                c.w.inject_msg(c.h, 2, sock4([10, 0, 0, 50], 40000), &q);
                c.w.run_for(3000);
            }
            liveness(&mut c, "packet", json!({"ptr_target_labels": format!("{pad} x 'a' + backslash, then {second:?}")}), l);
        }
    }
}

pub fn run(report: &Report, tier: &Tier) {
    report.set_rule(
        "(a) 1..3 hostile API calls per case (browse, browse_cache, stop_browse, resolve_hostname, stop_resolve_hostname, register, unregister, \
         verify, option setters) with names from a hostile grammar (empty, '.', missing/doubled suffix, labels of 0..256 bytes incl. 62/63/64/255, \
         multi-byte UTF-8 at the boundary, dots and backslashes anywhere, existing '(N)'/'-N' suffixes, totals of 253..260 bytes) and extreme \
         numbers, each followed by 6.3 virtual seconds with conflicting responses against everything the daemon probes for; (b) streams of \
         20..80 datagrams (random, mutated valid, grammar-hostile, and valid PTR/SRV/TXT/A chains with hostile labels, partly incomplete so \
         that the daemon re-encodes the names in follow-up queries) into a daemon with an active browse, resolver and registration; \
         distinct by (call kinds, accepted count) / (stream composition, egress volume)",
    );
    report.assume("checked profile: integer overflow and debug assertions panic; a panic only reachable that way is still reported (signature carries the message)");
    for r in ["A1", "A2", "A3"] {
        report.floor(r, 50);
    }
    let mut l = Local::default();
    scripted(&mut l);
    report.merge(l);
    let seed = report.seed;
    let n: u64 = if tier.thorough { 600_000 } else { 2_500 };
    run_parallel(report, n, threads(), tier.budget_s * 0.6, |i, l| {
        api_case(util::mix(seed, 0xC15_0000 + i), l);
    });
    let n: u64 = if tier.thorough { 120_000 } else { 500 };
    run_parallel(report, n, threads(), tier.budget_s * 0.4, |i, l| {
        stream_case(util::mix(seed, 0xC15_8000 + i), l);
    });
}
