//! C12 — the daemon wakes itself for all time-driven work and never spins.
//!
//! W1 (differential): the same scenario is run with lazy stepping (woken only when it
//!     asks) and eager stepping (additionally every 10 ms); every action of the eager
//!     run must also happen in the lazy run, and not later.
//! W2 (hooked state): at every gate the requested wake-up is no later than any due
//!     time that lies in the future (retransmissions, probes, resolver deadlines,
//!     expiry of cached records that matter).
//! W3 (no spin): never three consecutive idle iterations that each ask to be woken at
//!     or before their own `now`.

use crate::props::{c07, c13};
use crate::report::{run_parallel, threads, Local, Report, Violation};
use crate::scen;
use crate::util::{self, Rng};
use crate::wire::{self, Message, RData};
use crate::world::*;
use crate::Tier;
use serde_json::json;
use std::collections::HashMap;
use std::net::IpAddr;

pub struct Run {
    pub world: World,
    pub horizon: u64,
    pub desc: String,
}

pub type ScenarioFn = fn(u64) -> Run;

fn from_c07(seed: u64) -> Run {
    let m = c07::scenario(seed, false);
    Run { world: m.world, horizon: m.horizon, desc: format!("c07: {}", m.desc) }
}

fn from_c13(seed: u64) -> Run {
    let m = c13::scenario(seed, None, false);
    Run { world: m.world, horizon: m.horizon, desc: format!("c13: {}", m.desc) }
}

/// A probe from somebody else that beats ours: the daemon has to wait a second and probe again.
fn lost_tiebreak(seed: u64) -> Run {
    let mut rng = Rng::new(seed);
    let mut w = World::new(seed);
    w.set_stepping(Stepping::Lazy);
    let jitter = *rng.pick(&[0u64, 10, 100, 249]);
    let h = w.add_host_with(scen::single_v4(), |g| g.jitter = [jitter].into_iter().collect());
    let _ = w.monitor(h);
    let t0 = w.now();
    let addrs: Vec<IpAddr> = vec!["10.0.0.5".parse().unwrap()];
    let reg = World::reg_info("_t._udp.local.", "contested", "contested-host.local.", &addrs, 80, &[("k", Some(b"v"))]);
    w.register(h, reg);
    let at = jitter + 1 + rng.below(700);
    w.run_until(t0 + at);
    // the other prober's data sorts later than ours (TXT rdata 0xff…)
    let inst = wire::name("contested._t._udp.local");
    let mut q = Message::query();
    q.questions.push(wire::question(&inst, wire::T_ANY));
    q.authorities.push(wire::rec(&inst, wire::T_TXT, 1, 4500, RData::Txt(vec![4, 0xff, 0xff, 0xff, 0xff])));
    q.authorities.push(wire::srv(&inst, 120, 9999, &wire::name("zzz.local")));
    w.inject_msg(h, 2, scen::peer4(77), &q);
    let horizon = t0 + 12_000;
    w.run_until(horizon);
    Run { world: w, horizon, desc: format!("lost-tiebreak jitter={jitter} at=+{at}") }
}

/// Interface-check interval settings, with an interface appearing so that the check is observable.
fn ip_check(seed: u64) -> Run {
    let mut rng = Rng::new(seed);
    let mut w = World::new(seed);
    w.set_stepping(Stepping::Lazy);
    let h = w.add_host(scen::single_v4());
    let _ = w.monitor(h);
    let t0 = w.now();
    let mut desc = String::from("ip-check:");
    let n = 1 + rng.usize(4);
    let mut t = 0u64;
    for _ in 0..n {
        t += rng.below(8000);
        w.run_until(t0 + t);
        let v = *rng.pick(&[0u32, 0, 1, 2, 5, 3600, u32::MAX]);
        w.set_ip_check_interval(h, v);
        desc.push_str(&format!(" @{t}ms={v}"));
    }
    t += rng.below(8000);
    w.run_until(t0 + t);
    let mut ifs = scen::single_v4();
    ifs.push(IfSpec::new("usb0", 9, 3, &[("172.20.0.5", 24)]));
    w.set_ifs(h, ifs, "usb0 appears");
    let horizon = t0 + t + 30_000;
    w.run_until(horizon);
    Run { world: w, horizon, desc }
}

/// An interface that goes away while a service with automatic addresses is probing on it, and comes back with
/// the same index and address a few checks later: the probes left over there are long overdue, the daemon has
/// to take them up when it notices the interface, not an interface check later.
fn interface_flap_while_probing(seed: u64) -> Run {
    let mut rng = Rng::new(seed);
    let mut w = World::new(seed);
    w.set_stepping(Stepping::Lazy);
    let two = rng.chance(1, 2);
    let full = if two { scen::two_v4() } else { scen::single_v4() };
    let h = w.add_host(full.clone());
    let _ = w.monitor(h);
    let check = *rng.pick(&[1u32, 2, 5]);
    w.set_ip_check_interval(h, check);
    w.run_for(5500);
    let t0 = w.now();
    let mut reg = World::reg_info("_t._udp.local.", "flappy", "flappy-host.local.", &[], 80, &[("k", Some(b"v"))]);
    reg.addr_auto = true;
    w.register(h, reg);
    // away inside the probing window (a check must fall into it: the checks are `check` seconds apart)
    let away_at = rng.below(700);
    w.run_until(t0 + away_at);
    let gone: Vec<IfSpec> = if two { full.iter().filter(|i| i.index != 3).cloned().collect() } else { Vec::new() };
    w.set_ifs(h, gone, "interface-away");
    let back_after = 1000 * check as u64 + rng.below(3000 * check as u64);
    w.run_until(t0 + away_at + back_after);
    w.set_ifs(h, full, "interface-back");
    let horizon = t0 + away_at + back_after + 1000 * check as u64 * 3 + 5000;
    w.run_until(horizon);
    Run { world: w, horizon, desc: format!("interface-flap-while-probing check={check}s two={two} away=+{away_at} back=+{}", away_at + back_after) }
}

/// Records that expire, are withdrawn, flushed or verified on an otherwise silent network.
fn expiry(seed: u64) -> Run {
    let mut rng = Rng::new(seed);
    let mut w = World::new(seed);
    w.set_stepping(Stepping::Lazy);
    let h = w.add_host(scen::single_v4());
    let t0 = w.now();
    w.browse(h, "_t._udp.local.");
    let with_host = rng.chance(1, 2);
    if with_host {
        w.resolve_hostname(h, "srvhost0.local.", if rng.chance(1, 2) { Some(rng.range(500, 20_000)) } else { None });
    }
    let mut s = scen::Svc::new("_t._udp.local.", "inst0", "srvhost0.local", [10, 0, 0, 30]);
    s.ttl_ptr = *rng.pick(&[2u32, 10, 30, 120]);
    s.ttl_srv = *rng.pick(&[2u32, 10, 30, 120]);
    s.ttl_txt = s.ttl_ptr;
    s.ttl_addr = *rng.pick(&[2u32, 6, 10, 120]);
    w.run_for(rng.below(300));
    w.inject_msg(h, 2, scen::peer4(30), &s.announce());
    let mut desc = format!("expiry ttl ptr={} srv={} addr={} host_search={with_host}:", s.ttl_ptr, s.ttl_srv, s.ttl_addr);
    match rng.below(5) {
        0 => {
            w.run_for(rng.below(4000));
            w.inject_msg(h, 2, scen::peer4(30), &s.goodbye());
            desc.push_str(" goodbye");
        }
        1 => {
            w.run_for(1500 + rng.below(3000));
            let mut s2 = s.clone();
            s2.port = 9090;
            s2.v4 = vec![[10, 0, 0, 31]];
            w.inject_msg(h, 2, scen::peer4(30), &s2.announce());
            desc.push_str(" flush-update");
        }
        2 => {
            w.run_for(rng.below(1500));
            let timeout = *rng.pick(&[0u64, 1, 1000, 3000, 10_000]);
            w.verify(h, &s.fullname(), timeout);
            desc.push_str(&format!(" verify({timeout})"));
        }
        3 => {
            // only the PTR arrives first: follow-up queries must run on their own
            desc.push_str(" (plain)");
        }
        _ => {
            w.run_for(rng.below(2000));
            w.stop_browse(h, "_t._udp.local.");
            desc.push_str(" stop");
        }
    }
    let horizon = t0 + 150_000;
    w.run_until(horizon);
    Run { world: w, horizon, desc }
}

/// Only the PTR is delivered: the three follow-up queries have to be sent 500 ms apart.
fn follow_up(seed: u64) -> Run {
    let mut rng = Rng::new(seed);
    let mut w = World::new(seed);
    w.set_stepping(Stepping::Lazy);
    let h = w.add_host(scen::single_v4());
    let t0 = w.now();
    w.browse(h, "_t._udp.local.");
    w.run_for(rng.below(900));
    let s = scen::Svc::new("_t._udp.local.", "lonely", "srvhost9.local", [10, 0, 0, 39]);
    let mut m = Message::response();
    m.answers.push(s.ptr());
    if rng.chance(1, 2) {
        m.answers.push(s.srv());
        m.answers.push(s.txt());
    }
    w.inject_msg(h, 2, scen::peer4(39), &m);
    let horizon = t0 + 8000;
    w.run_until(horizon);
    Run { world: w, horizon, desc: "follow-up".to_string() }
}

/// A response that contests the name late in the probing period: the daemon renames and has to
/// start probing the new name a jitter later - on a silent link, with no interface check to help.
fn conflict_rename(seed: u64) -> Run {
    let mut rng = Rng::new(seed);
    let mut w = World::new(seed);
    w.set_stepping(Stepping::Lazy);
    let jitter = *rng.pick(&[0u64, 10, 100, 249]);
    let h = w.add_host_with(scen::single_v4(), |g| g.jitter = [jitter, 200, 249, 249].into_iter().collect());
    w.set_ip_check_interval(h, 3600);
    let _ = w.monitor(h);
    let t0 = w.now();
    let addrs: Vec<IpAddr> = vec!["10.0.0.5".parse().unwrap()];
    let reg = World::reg_info("_t._udp.local.", "contested", "contested-host.local.", &addrs, 80, &[("k", Some(b"v"))]);
    w.register(h, reg);
    // one run in three: the conflict hits an update of the announced service (only the changed record is probed)
    let update = util::mix(seed, 0x0D) % 3 == 0;
    let (t0, jitter) = if update {
        w.run_until(t0 + 3000);
        let reg = World::reg_info("_t._udp.local.", "contested", "contested-host.local.", &addrs, 80, &[("k", Some(b"v2"))]);
        let t = w.now();
        w.register(h, reg);
        (t, 200)
    } else {
        (t0, jitter)
    };
    // anywhere in the probing period, often after the third probe (when no probe timer is left)
    let at = jitter + if rng.chance(1, 2) { 505 + rng.below(240) } else { 1 + rng.below(745) };
    w.run_until(t0 + at);
    let inst = wire::name("contested._t._udp.local");
    let host = wire::name("contested-host.local");
    let mut m = Message::response();
    match if update { 3 } else { rng.below(3) } {
        3 => m.answers.push(wire::txt(&inst, 4500, b"\x08k=theirs".to_vec())),
        0 => m.answers.push(wire::srv(&inst, 120, 9999, &wire::name("zzz.local"))),
        1 => m.answers.push(wire::a(&host, 120, [10, 0, 0, 77])),
        _ => {
            m.answers.push(wire::srv(&inst, 120, 9999, &wire::name("zzz.local")));
            m.answers.push(wire::a(&host, 120, [10, 0, 0, 77]));
        }
    }
    w.inject_msg(h, 2, scen::peer4(77), &m);
    let horizon = t0 + 12_000;
    w.run_until(horizon);
    Run { world: w, horizon, desc: format!("conflict-rename jitter={jitter} at=+{at} update={update}") }
}

/// Host-name searches with short time-outs (0, 1, 5 ms ...) on a link where nobody answers, half of them on a
/// daemon that does not hear its own questions: the time-out events are owed at the deadline all the same.
fn hostname_timeouts(seed: u64) -> Run {
    let mut rng = Rng::new(seed);
    let mut w = World::new(seed);
    w.set_stepping(Stepping::Lazy);
    let h = w.add_host(if rng.chance(1, 2) { scen::single_v4() } else { scen::single_dual() });
    w.set_ip_check_interval(h, 3600);
    let deaf = rng.chance(1, 2);
    if deaf {
        w.set_multicast_loop_v4(h, false);
        w.set_multicast_loop_v6(h, false);
    }
    let t0 = w.now();
    let n = 1 + rng.below(3);
    let mut desc = format!("hostname-timeouts deaf={deaf}:");
    for k in 0..n {
        let now = w.now();
        w.run_until(now + 200 + rng.below(1500));
        let timeout = *rng.pick(&[0u64, 0, 1, 5, 250, 999, 1000, 1001, 2500]);
        let _ = w.resolve_hostname(h, &format!("quiet{k}.local."), Some(timeout));
        desc.push_str(&format!(" resolve({timeout})"));
    }
    let horizon = w.now().max(t0) + 8000;
    w.run_until(horizon);
    Run { world: w, horizon, desc }
}

pub const SCENARIOS: &[(&str, ScenarioFn)] = &[
    ("hostname-timeouts", hostname_timeouts),
    ("conflict-rename", conflict_rename),
    ("registration", from_c07),
    ("searches", from_c13),
    ("lost-tiebreak", lost_tiebreak),
    ("ip-check", ip_check),
    ("expiry", expiry),
    ("follow-up", follow_up),
    ("interface-flap", interface_flap_while_probing),
];

// ---------------------------------------------------------------------------
// W1

fn action_key(e: &Entry) -> Option<String> {
    match &e.ev {
        Ev::Tx(tx) => {
            let m = tx.msg.as_ref().ok()?;
            let mut qs: Vec<String> = m
                .questions
                .iter()
                .map(|q| format!("{}/{}", wire::escaped(&wire::lower(&q.name)), q.qtype))
                .collect();
            qs.sort();
            let mut rs: Vec<String> = if m.is_response() {
                m.records()
                    .map(|r| format!("{}/{}/{}", wire::escaped(&wire::lower(&r.name)), r.rtype, if r.ttl == 0 { "bye" } else { "" }))
                    .collect()
            } else {
                // known answers depend on the exact age of the cache: not part of the identity
                m.authorities.iter().map(|r| format!("{}/{}", wire::escaped(&wire::lower(&r.name)), r.rtype)).collect()
            };
            rs.sort();
            Some(format!(
                "tx h{} if{:?} {} {} q[{}] r[{}]",
                e.host,
                tx.out_if,
                if tx.v4 { 4 } else { 6 },
                if m.is_response() { "R" } else { "Q" },
                qs.join(","),
                rs.join(",")
            ))
        }
        Ev::Obs { chan, obs } => {
            let k = match obs {
                Obs::SearchStarted(_) => "SearchStarted".to_string(),
                Obs::HStarted(_) => "HStarted".to_string(),
                Obs::Found(t, i) => format!("Found({t},{i})"),
                Obs::Resolved(r) => format!("Resolved({})", r.fullname),
                Obs::Removed(t, i) => format!("Removed({t},{i})"),
                Obs::SearchStopped(s) => format!("SearchStopped({s})"),
                Obs::AddrFound(n, _) => format!("AddrFound({n})"),
                Obs::AddrRemoved(n, _) => format!("AddrRemoved({n})"),
                Obs::HTimeout(n) => format!("HTimeout({n})"),
                Obs::HStopped(n) => format!("HStopped({n})"),
                Obs::Announce(a, _) => format!("Announce({a})"),
                Obs::IpAdd(ip) => format!("IpAdd({ip})"),
                Obs::IpDel(ip) => format!("IpDel({ip})"),
                Obs::NameChange { new_name, .. } => format!("NameChange({new_name})"),
                Obs::Closed => "Closed".to_string(),
                _ => return None,
            };
            Some(format!("ev h{} #{chan} {k}", e.host))
        }
        _ => None,
    }
}

fn actions(trace: &Trace) -> HashMap<String, Vec<u64>> {
    let mut m: HashMap<String, Vec<u64>> = HashMap::new();
    for e in trace.entries.iter() {
        if let Some(k) = action_key(e) {
            m.entry(k).or_default().push(e.t);
        }
    }
    m
}

pub fn w1(name: &str, f: ScenarioFn, seed: u64, l: &mut Local) {
    let g = 10;
    // one constant jitter per pair: the order in which the daemon visits its interfaces (a
    // HashMap) differs between the two runs and must not change who gets which jitter
    let jitter = Some(util::mix(seed, 7) % 250);
    // one pair in four: the daemons do not hear their own multicast (loop-back switched off), so that nothing
    // but their own timers wakes them
    let no_loop = util::mix(seed, 10) % 4 == 0;
    set_overrides(Some(Overrides { stepping: Some(Stepping::Lazy), record_gates: true, snapshot_level: 2, jitter_const: jitter, send_cost_ms: None, no_loop }));
    let lazy = f(seed);
    set_overrides(Some(Overrides { stepping: Some(Stepping::Eager(g)), record_gates: false, snapshot_level: 0, jitter_const: jitter, send_cost_ms: None, no_loop }));
    let eager = f(seed);
    // a third run in which every datagram sent costs 1-3 ms: timers fall due while the daemon is busy
    let cost = 1 + util::mix(seed, 8) % 3;
    let busy = if util::mix(seed, 9) % 4 != 0 {
        set_overrides(Some(Overrides { stepping: Some(Stepping::Lazy), record_gates: true, snapshot_level: 0, jitter_const: jitter, send_cost_ms: Some(cost), no_loop }));
        Some(f(seed))
    } else {
        None
    };
    set_overrides(None);
    l.evaluations += 1;
    l.count("daemon_iterations", lazy.world.total_iterations + eager.world.total_iterations);
    l.count("virtual_s", 2 * (lazy.horizon - lazy.world.trace.entries.first().map(|e| e.t).unwrap_or(lazy.horizon)) / 1000);
    l.distinct.insert(util::fnv_str(&format!("{name}|{}", lazy.desc)));
    if l.samples.len() < 3 {
        l.samples.push(json!({"scenario": name, "desc": lazy.desc, "api": scen::api_log(&lazy.world.trace)}));
    }
    if lazy.world.trace.deaths().any(|d| matches!(d.ev, Ev::Death { panicked: true, .. }))
        || eager.world.trace.deaths().any(|d| matches!(d.ev, Ev::Death { panicked: true, .. }))
    {
        l.inconclusive.push(format!("daemon died in a C12 scenario ({name}, seed {seed})"));
        return;
    }
    // W2, W3 on the lazy run
    w2_w3(name, &lazy, l);
    // W4 on the lazy run and on the busy run
    w4(name, &lazy, "", l);
    if let Some(b) = &busy {
        if b.world.trace.deaths().any(|d| matches!(d.ev, Ev::Death { panicked: true, .. })) {
            l.inconclusive.push(format!("daemon died in a C12 scenario with costly sends ({name}, seed {seed})"));
            return;
        }
        l.count("daemon_iterations", b.world.total_iterations);
        w4(name, b, "/busy", l);
    }

    // W1
    let t_first = lazy.world.trace.entries.first().map(|e| e.t).unwrap_or(0);
    let t_first_e = eager.world.trace.entries.first().map(|e| e.t).unwrap_or(0);
    if t_first != t_first_e {
        l.inconclusive.push("lazy and eager runs did not start at the same virtual time".into());
        return;
    }
    let la = actions(&lazy.world.trace);
    let ea = actions(&eager.world.trace);
    // allow for drift at the very end of the run
    let common = lazy.horizon.min(eager.horizon).saturating_sub(2000);
    for (key, etimes) in ea.iter() {
        let ltimes = la.get(key).map(|v| v.as_slice()).unwrap_or(&[]);
        for (k, te) in etimes.iter().enumerate() {
            if *te > common {
                break;
            }
            l.act("W1");
            match ltimes.get(k) {
                Some(tl) if *tl <= *te => {}
                Some(tl) => {
                    l.violate(
                        Violation::new(
                            "W1",
                            format!("W1/late-without-help/{name}/{}", key_class(key)),
                            format!(
                                "woken only on request, the daemon did this {} ms later than when woken every {g} ms: {}",
                                tl - te,
                                util::prefix(key, 200)
                            ),
                        )
                        .with(json!({"scenario": name, "desc": lazy.desc, "seed": seed, "occurrence": k,
                                     "t_eager_ms": te - t_first, "t_lazy_ms": tl - t_first, "api": scen::api_log(&lazy.world.trace),
                                     "lazy_trace": scen::witness_window(&lazy.world.trace, te.saturating_sub(1500), *tl + 10, 40),
                                     "eager_trace": scen::witness_window(&eager.world.trace, te.saturating_sub(1500), *te + 10, 30)})),
                    );
                    return;
                }
                None => {
                    l.violate(
                        Violation::new(
                            "W1",
                            format!("W1/never-without-help/{name}/{}", key_class(key)),
                            format!("woken only on request, the daemon never did this (woken every {g} ms it did at +{} ms): {}", te - t_first, util::prefix(key, 200)),
                        )
                        .with(json!({"scenario": name, "desc": lazy.desc, "seed": seed, "occurrence": k, "t_eager_ms": te - t_first,
                                     "api": scen::api_log(&lazy.world.trace),
                                     "lazy_trace": scen::witness_window(&lazy.world.trace, te.saturating_sub(1500), *te + 3000, 40),
                                     "eager_trace": scen::witness_window(&eager.world.trace, te.saturating_sub(1500), *te + 10, 30)})),
                    );
                    return;
                }
            }
        }
    }
}

fn key_class(key: &str) -> String {
    if let Some(rest) = key.strip_prefix("ev ") {
        let k = rest.split(' ').nth(2).unwrap_or("");
        format!("event-{}", k.split('(').next().unwrap_or(""))
    } else if key.contains(" Q q[") {
        if key.contains("/255") {
            "probe".into()
        } else {
            "query".into()
        }
    } else if key.contains("/bye") {
        "goodbye".into()
    } else {
        "response".into()
    }
}

// ---------------------------------------------------------------------------
// W4: the time-out the run loop computes for its poll, against its earliest timer

fn w4(name: &str, run: &Run, mode: &str, l: &mut Local) {
    let trace = &run.world.trace;
    for e in trace.entries.iter() {
        let Ev::Gate(g) = &e.ev else { continue };
        let Some(timer) = g.wakeup else { continue };
        let now = g.gate_now;
        l.act("W4");
        if timer < now {
            l.act("W4-overdue");
            if mode.is_empty() {
                l.act("W4-overdue-plain");
            }
        }
        let bound = timer.max(now + 1);
        let asked = g.poll_timeout_ms.map(|t| now + t);
        if asked.is_some_and(|a| a <= bound) {
            continue;
        }
        let when = if timer < now { "overdue" } else if timer == now { "due-now" } else { "future" };
        l.violate(
            Violation::new(
                "W4",
                format!("W4/poll-timeout-after-earliest-timer/{}/{when}", if asked.is_none() { "no-timeout" } else { "late" }),
                format!(
                    "at +{} ms the run loop is about to poll with {} while its earliest timer is {} ms {}",
                    now.saturating_sub(trace.entries[0].t),
                    g.poll_timeout_ms.map(|t| format!("a time-out of {t} ms")).unwrap_or_else(|| "no time-out".into()),
                    timer.abs_diff(now),
                    if timer < now { "overdue" } else { "away" }
                ),
            )
            .with(json!({"scenario": format!("{name}{mode}"), "desc": run.desc, "api": scen::api_log(trace),
                         "trace": scen::witness_window(trace, e.t.saturating_sub(2000), e.t, 40)})),
        );
        return;
    }
}

// ---------------------------------------------------------------------------
// W2 / W3

fn w2_w3(name: &str, run: &Run, l: &mut Local) {
    let trace = &run.world.trace;
    let mut idle_streak = 0u32;
    let mut prev_sizes: Option<(usize, usize, usize)> = None;
    for (idx, e) in trace.entries.iter().enumerate() {
        let Ev::Gate(g) = &e.ev else { continue };
        let now = e.t;
        if let Some(s) = &g.snapshot {
            // W2
            let mut dues: Vec<(u64, String)> = Vec::new();
            for (t, kind, key) in s.retransmissions.iter() {
                dues.push((*t, format!("retransmission {kind} {key}")));
            }
            for p in s.probes.iter() {
                dues.push((p.next_send, format!("probe {}", p.name)));
            }
            for (host, deadline) in s.resolvers.iter() {
                if let Some(d) = deadline {
                    dues.push((*d, format!("resolver timeout {host}")));
                }
            }
            // cached records whose expiry produces work: PTRs, addresses, SRV/TXT reachable from a PTR
            let ptr_targets: Vec<&str> = s
                .cache_records
                .iter()
                .filter(|r| r.map == "ptr")
                .map(|r| r.rdata.as_str())
                .collect();
            for r in s.cache_records.iter() {
                let matters = match r.map {
                    "ptr" | "addr" => true,
                    "srv" | "txt" => ptr_targets.iter().any(|t| *t == r.key),
                    _ => false,
                };
                if matters {
                    dues.push((r.expires, format!("expiry of cached {} {}", r.map, r.name)));
                }
            }
            for (due, what) in dues.iter().filter(|(d, _)| *d > now) {
                l.act("W2");
                let ok = g.wakeup.is_some_and(|w| w <= *due);
                if !ok {
                    // "probe", "retransmission <command kind>", "resolver timeout", "expiry of cached <map>"
                    let words: Vec<&str> = what.split(' ').collect();
                    let class = match words[0] {
                        "probe" => "probe".to_string(),
                        "retransmission" => words[..words.len().min(3)].join("-"),
                        "resolver" => "resolver-timeout".to_string(),
                        _ => words[..words.len().min(4)].join("-"),
                    };
                    l.violate(
                        Violation::new(
                            "W2",
                            format!("W2/wakeup-after-due/{class}"),
                            format!(
                                "at +{} ms the daemon asks to be woken {} but {} is due in {} ms",
                                now - trace.entries[0].t,
                                g.wakeup.map(|w| format!("in {} ms", w as i64 - now as i64)).unwrap_or_else(|| "never".into()),
                                what,
                                due - now
                            ),
                        )
                        .with(json!({"scenario": name, "desc": run.desc, "api": scen::api_log(trace),
                                     "trace": scen::witness_window(trace, now.saturating_sub(2000), now, 40)})),
                    );
                    return;
                }
            }
        }
        // W3
        let sizes = g.snapshot.as_ref().map(|s| (s.timers_len, s.retransmissions.len(), s.cache_records.len()));
        let idle = g.egress == 0 && g.events == 0 && g.consumed == 0 && g.cmds_before == 0 && (prev_sizes.is_none() || sizes == prev_sizes || sizes.is_none());
        // timers may legitimately shrink when passed ones are popped: compare everything but timers
        let idle = idle
            || (g.egress == 0
                && g.events == 0
                && g.consumed == 0
                && g.cmds_before == 0
                && match (sizes, prev_sizes) {
                    (Some(a), Some(b)) => a.1 == b.1 && a.2 == b.2,
                    _ => true,
                });
        prev_sizes = sizes;
        l.act("W3");
        let asks_now = g.wakeup.is_some_and(|w| w <= now);
        if idle && asks_now {
            idle_streak += 1;
        } else {
            idle_streak = 0;
        }
        if idle_streak >= 3 {
            let interval = trace.entries[..idx]
                .iter()
                .rev()
                .find_map(|e| match &e.ev {
                    Ev::Api { call: ApiCall::SetIpCheckInterval(v), .. } => Some(*v),
                    _ => None,
                });
            l.violate(
                Violation::new(
                    "W3",
                    format!("W3/spin/{}", if interval == Some(0) { "ip-check-interval-0" } else { "other" }),
                    format!(
                        "three consecutive idle iterations each asking to be woken at or before their own time (at +{} ms)",
                        now - trace.entries[0].t
                    ),
                )
                .with(json!({"scenario": name, "desc": run.desc, "api": scen::api_log(trace)})),
            );
            return;
        }
    }
    if run.world.livelocks > 0 {
        l.violate(
            Violation::new("W3", "W3/livelock-at-one-instant", "the daemon kept itself busy at one virtual instant (more than 20000 iterations)")
                .with(json!({"scenario": name, "desc": run.desc, "api": scen::api_log(trace)})),
        );
    }
}

pub fn run(report: &Report, tier: &Tier) {
    report.set_rule(
        "paired runs (lazy vs eager 10 ms stepping, same seed and forced jitters) of: registration scenarios (C07), search histories (C13), \
         a lost probe tiebreak and a conflicting response (rename) on a silent link, interface-check interval settings {0, 1, 2, 5, 3600, u32::MAX, changed at run time} with \
         an interface appearing, record expiry / goodbye / cache-flush update / verify / stop, PTR-only delivery (follow-up queries); \
         W2/W3 evaluated at every gate of the lazy run with full state snapshots; distinct by (scenario, shape)",
    );
    report.assume("W2 covers retransmissions, probes, resolver deadlines and expiry of PTR/address records and of SRV/TXT reachable from a PTR; the interface check (a local of the run loop) is covered by W1 only");
    for r in ["W1", "W2", "W3", "W4"] {
        report.floor(r, 200);
    }
    report.floor("W4-overdue", 60);
    let seed = report.seed;
    let n: u64 = if tier.thorough { 60_000 } else { 1_200 };
    run_parallel(report, n, threads(), tier.budget_s, |i, l| {
        let (name, f) = SCENARIOS[(i % SCENARIOS.len() as u64) as usize];
        w1(name, f, util::mix(seed, 0xC12_0000 + i), l);
    });
}
