//! The "browser" workload shared by C03, C04, C05, C11 (world part) and C17: one
//! browsing daemon, scripted responders that announce, update, withdraw, vanish and
//! (per policy) answer the daemon's own queries; deliveries with loss, duplication
//! and delay; virtual horizons of several TTLs.

use crate::scen::{self, Svc};
use crate::util::Rng;
use crate::wire::{self, Message, Record};
use crate::world::*;

pub const TY: &str = "_t._udp.local.";

#[derive(Clone, Copy, Debug, PartialEq, Eq)]
pub enum Policy {
    /// Responders never answer the daemon's queries.
    Never,
    /// Every query is answered at once.
    Always,
    /// Each query is answered with probability 1/2.
    Sometimes,
}

#[derive(Clone, Debug)]
pub struct Opts {
    pub stepping: Option<Stepping>,
    /// TTL menu for the records of the scripted services.
    pub ttls: &'static [u32],
    pub faults: bool,
    pub verify: bool,
    pub hostnames: bool,
    /// Longest horizon in ms (the run ends at min(this, 3 x largest TTL + 5 s)).
    pub max_horizon: u64,
    /// Cache-only browses of other types opened next to the search (they send nothing and are owed nothing).
    pub cache_only_others: u8,
}

impl Default for Opts {
    fn default() -> Self {
        Self {
            stepping: None,
            ttls: &[1, 2, 3, 10, 120, 4500],
            faults: true,
            verify: true,
            hostnames: false,
            max_horizon: 3 * 4500 * 1000 + 5000,
            cache_only_others: 0,
        }
    }
}

pub struct Made {
    pub world: World,
    pub horizon: u64,
    pub desc: String,
    pub svcs: Vec<Svc>,
    pub policy: Policy,
    pub browse_chan: Option<usize>,
    pub host_chans: Vec<(String, usize)>,
    /// (time, instance full name, timeout ms)
    pub verifies: Vec<(u64, String, u64)>,
}

/// Answers the daemon's queries out of `svcs` according to `policy`.
pub struct Responder {
    pub svcs: Vec<Svc>,
    pub policy: Policy,
    pub seen: usize,
    pub rng: Rng,
    pub link: usize,
    pub faulty: bool,
    /// Services that have "left the network" no longer answer.
    pub gone: Vec<bool>,
    pub answered: u64,
}

impl Responder {
    pub fn react(&mut self, w: &mut World, h: usize) -> bool {
        let mut out: Vec<(u32, bool, Message)> = Vec::new();
        let n = w.trace.entries.len();
        for e in w.trace.entries[self.seen..n].iter() {
            if e.host != h {
                continue;
            }
            let Ev::Tx(tx) = &e.ev else { continue };
            let Ok(m) = &tx.msg else { continue };
            if !m.is_query() || !tx.multicast {
                continue;
            }
            let Some(out_if) = tx.out_if else { continue };
            if self.policy == Policy::Never {
                continue;
            }
            let mut r = Message::response();
            for q in m.questions.iter() {
                for (i, s) in self.svcs.iter().enumerate() {
                    if self.gone[i] {
                        continue;
                    }
                    let mut recs: Vec<Record> = Vec::new();
                    if q.qtype == wire::T_PTR && wire::names_eq_nocase(&q.name, &s.ty) {
                        recs.extend(s.records());
                    } else if wire::names_eq_nocase(&q.name, &s.inst) {
                        if q.qtype == wire::T_SRV || q.qtype == wire::T_ANY {
                            recs.push(s.srv());
                            recs.extend(s.addrs());
                        }
                        if q.qtype == wire::T_TXT || q.qtype == wire::T_ANY {
                            recs.push(s.txt());
                        }
                    } else if wire::names_eq_nocase(&q.name, &s.host) {
                        for a in s.addrs() {
                            if q.qtype == wire::T_ANY || q.qtype == a.rtype {
                                recs.push(a);
                            }
                        }
                    }
                    for rec in recs {
                        if !r.answers.contains(&rec) {
                            // known-answer suppression is the responder's business; a scripted peer just answers
                            r.answers.push(rec);
                        }
                    }
                }
            }
            if r.answers.is_empty() {
                continue;
            }
            if self.policy == Policy::Sometimes && self.rng.chance(1, 2) {
                continue;
            }
            out.push((out_if, tx.v4, r));
        }
        self.seen = n;
        let any = !out.is_empty();
        for (i, v4, r) in out {
            self.answered += 1;
            let src = if v4 { scen::peer4(30) } else { scen::peer6(0x30, i) };
            let data = wire::encode(&r, wire::Compression::Max);
            if self.faulty {
                w.inject_faulty(self.link, h, i, src, data);
            } else {
                w.inject(h, i, src, data);
            }
        }
        any
    }
}

fn pick_ttl(rng: &mut Rng, menu: &[u32]) -> u32 {
    *rng.pick(menu)
}

pub fn scenario(seed: u64, opts: &Opts) -> Made {
    let mut rng = Rng::new(seed);
    let mut w = World::new(seed);
    let s = opts.stepping.unwrap_or_else(|| match rng.below(6) {
        0 => Stepping::Eager(10),
        1 => Stepping::Eager(50),
        2 => Stepping::Oversleep(300),
        3 => Stepping::Oversleep(3000),
        _ => Stepping::Lazy,
    });
    w.set_stepping(s);
    let dual = rng.chance(1, 3);
    let h = w.add_host(if dual { scen::single_dual() } else { scen::single_v4() });
    let t0 = w.now();
    w.set_ip_check_interval(h, 3600);
    let faulty = opts.faults && rng.chance(1, 2);
    if faulty {
        w.faults[0] = LinkFaults { loss: *rng.pick(&[0u64, 100, 300]), dup: *rng.pick(&[0u64, 100, 300]), delay: *rng.pick(&[0u64, 20, 400]) };
    }
    let policy = *rng.pick(&[Policy::Never, Policy::Never, Policy::Always, Policy::Sometimes]);
    // services
    let n_svcs = 1 + rng.usize(3);
    let share_host = rng.chance(1, 3);
    let mut svcs: Vec<Svc> = Vec::new();
    for i in 0..n_svcs {
        let host = if share_host { "shared.local".to_string() } else { format!("host{i}.local") };
        // (instance names in the letter case their owners chose)
        let label = if rng.chance(1, 3) { format!("Inst{i} Office") } else { format!("inst{i}") };
        let mut s = Svc::new(TY, &label, &host, [10, 0, 0, 30 + if share_host { 0 } else { i as u8 }]);
        s.port = 8000 + i as u16;
        s.ttl_ptr = pick_ttl(&mut rng, opts.ttls);
        s.ttl_srv = pick_ttl(&mut rng, opts.ttls);
        s.ttl_txt = pick_ttl(&mut rng, opts.ttls);
        s.ttl_addr = pick_ttl(&mut rng, opts.ttls);
        if rng.chance(1, 3) {
            s.v4.push([10, 0, 0, 130 + i as u8]);
        }
        if dual && rng.chance(1, 2) {
            s.v6.push([0xfe, 0x80, 0, 0, 0, 0, 0, 0, 0, 0, 0, 0, 0, 0, 0, 0x30 + i as u8]);
        }
        s.txt = wire::txt_encode(&[(b"id".to_vec(), Some(vec![b'0' + i as u8])), (b"flag".to_vec(), None)]);
        if share_host && i > 0 {
            // one host, one set of address records: the same addresses with the same TTL whoever
            // announces them (anything else makes "the" TTL of a record depend on packet order)
            s.v4 = svcs[0].v4.clone();
            s.v6 = svcs[0].v6.clone();
            s.ttl_addr = svcs[0].ttl_addr;
        }
        svcs.push(s);
    }
    let max_ttl = svcs.iter().map(|s| s.ttl_ptr.max(s.ttl_srv).max(s.ttl_addr).max(s.ttl_txt)).max().unwrap_or(10) as u64;
    let min_ttl = svcs.iter().map(|s| s.ttl_ptr.min(s.ttl_srv).min(s.ttl_addr).min(s.ttl_txt)).min().unwrap_or(1) as u64;
    let mut horizon = t0 + (3 * max_ttl * 1000 + 5000).min(opts.max_horizon);
    if policy != Policy::Never {
        // answered refresh queries repeat for ever: a few hundred rounds of the shortest TTL are enough
        horizon = horizon.min(t0 + 150 * min_ttl * 1000 + 30_000);
    }
    if horizon - t0 > 150_000 {
        if let Stepping::Eager(_) = w.stepping {
            // waking every 10 ms for hours costs millions of idle iterations
            w.stepping = Stepping::Lazy;
        }
    }
    for k in 0..opts.cache_only_others {
        w.browse_cache(h, &format!("_quiet{k}._udp.local."));
    }
    let browse_chan = w.browse(h, TY);
    let mut host_chans = Vec::new();
    if opts.hostnames {
        for s in svcs.iter().take(2) {
            let name = s.host_str();
            if !host_chans.iter().any(|(n, _)| *n == name) {
                if let Some(c) = w.resolve_hostname(h, &name, None) {
                    host_chans.push((name, c));
                }
            }
        }
    }
    let mut resp = Responder { svcs: svcs.clone(), policy, seen: 0, rng: Rng::new(seed ^ 0x5555), link: 0, faulty, gone: vec![false; n_svcs], answered: 0 };
    let mut desc = format!("{:?} dual={dual} faulty={faulty} policy={policy:?} svcs={n_svcs} share_host={share_host} ttls=[", w.stepping);
    for s in svcs.iter() {
        desc.push_str(&format!("{}/{}/{}/{} ", s.ttl_ptr, s.ttl_srv, s.ttl_txt, s.ttl_addr));
    }
    desc.push_str("] events:");
    // event script: times are spread over the first ~1.5 x largest TTL (at least 8 s)
    let span = (max_ttl * 1500).max(8000).min(horizon - t0 - 1000);
    let n_events = 2 + rng.usize(8);
    let mut times: Vec<u64> = (0..n_events)
        .map(|_| match rng.below(4) {
            0 => rng.below(3000),
            _ => rng.below(span),
        })
        .collect();
    times.sort_unstable();
    let mut verifies = Vec::new();
    let src = scen::peer4(30);
    let send = |w: &mut World, m: &Message, rng: &mut Rng| {
        // now and then a record of a type the daemon does not know (HTTPS, KEY ...) sits among the others: it is
        // to be stepped over, the records behind it count as always
        let mut with_unknown;
        let m = if rng.chance(1, 6) {
            with_unknown = m.clone();
            let at = rng.usize(with_unknown.answers.len() + 1);
            let rdata: Vec<u8> = (0..1 + rng.usize(24)).map(|k| (k * 37 + 3) as u8).collect();
            let rec = if rng.chance(1, 3) {
                // (or one it knows and has no use for: HINFO, two character-strings)
                wire::rec(&wire::name("svc-binding.local"), 13, 1, 120, wire::RData::Raw(vec![3, b'x', b'8', b'6', 5, b'L', b'i', b'n', b'u', b'x']))
            } else {
                wire::rec(&wire::name("svc-binding.local"), *rng.pick(&[65u16, 25, 99]), 1, 120, wire::RData::Raw(rdata))
            };
            with_unknown.answers.insert(at, rec);
            &with_unknown
        } else {
            m
        };
        let data = wire::encode(m, if rng.chance(1, 2) { wire::Compression::Max } else { wire::Compression::None });
        if faulty {
            w.inject_faulty(0, h, 2, src, data);
        } else {
            w.inject(h, 2, src, data);
        }
    };
    let mut first = true;
    let originals = resp.svcs.clone();
    for t in times {
        let mut cb = |w: &mut World| resp.react(w, h);
        w.run_until_cb(t0 + t, &mut cb);
        let i = rng.usize(n_svcs);
        let s = resp.svcs[i].clone();
        let ev = if first { 0 } else { rng.below(12) };
        first = false;
        match ev {
            0..=2 => {
                resp.gone[i] = false;
                send(&mut w, &s.announce(), &mut rng);
                desc.push_str(&format!(" @{t}:announce{i}"));
            }
            3 => {
                // records split over two packets in random order (each still "for us": PTR of the type or no PTR)
                let mut recs = s.records();
                rng.shuffle(&mut recs);
                let cut = 1 + rng.usize(recs.len() - 1);
                for part in [&recs[..cut], &recs[cut..]] {
                    let mut m = Message::response();
                    m.answers = part.to_vec();
                    send(&mut w, &m, &mut rng);
                }
                resp.gone[i] = false;
                desc.push_str(&format!(" @{t}:split{i}"));
            }
            4 => {
                // update: new port / TXT / address, flush bit set on the unique records
                let mut s2 = s.clone();
                let toggled_back = (s.port != originals[i].port || s.txt != originals[i].txt) && rng.chance(1, 2);
                if toggled_back {
                    // back to the values it had before (a device toggling a state): the displaced record may still be in the cache
                    s2.port = originals[i].port;
                    s2.txt = originals[i].txt.clone();
                }
                match rng.below(3) {
                    _ if toggled_back => {}
                    0 => s2.port = s.port + 100,
                    1 => s2.txt = wire::txt_encode(&[(b"id".to_vec(), Some(b"new".to_vec()))]),
                    _ => s2.v4 = vec![[10, 0, 0, 200 + i as u8]],
                }
                // sometimes the old port / properties come back within a second of the update (a device toggling a
                // state twice, or a stale copy overtaken on the way): both records stay live, the one received last
                // counts. The address changes as well, so that its displacement a second later makes the daemon
                // report the instance again.
                let echo = !toggled_back && (s2.port != s.port || s2.txt != s.txt) && rng.chance(1, 3);
                if echo {
                    s2.v4 = vec![[10, 0, 0, 200 + i as u8]];
                }
                resp.svcs[i] = s2.clone();
                if share_host {
                    // hosts are shared: keep the address sets of the other services in line
                    for k in 0..n_svcs {
                        resp.svcs[k].v4 = s2.v4.clone();
                        resp.svcs[k].v6 = s2.v6.clone();
                    }
                }
                // sometimes right on the heels of a (re-)announcement of the old values: younger than a second, the old
                // records are not flushed and stay live next to the new ones
                let quick = !faulty && rng.chance(1, 3);
                if quick {
                    send(&mut w, &s.announce(), &mut rng);
                    let d = 50 + rng.below(850);
                    let mut cb = |w: &mut World| resp.react(w, h);
                    let until = w.now() + d;
                    w.run_until_cb(until, &mut cb);
                }
                send(&mut w, &s2.announce(), &mut rng);
                // sometimes the service that moved to another port also withdraws its old SRV record (a goodbye for
                // that one record, at once or within the second): the last thing heard about the instance's SRV
                // records is then the end of the old one, and the new one is what counts
                let bye_old = !echo && !toggled_back && s2.port != s.port && rng.chance(1, 2);
                if bye_old {
                    let d = *rng.pick(&[0u64, 0, 30, 400, 900]);
                    if d > 0 {
                        let mut cb = |w: &mut World| resp.react(w, h);
                        let until = w.now() + d;
                        w.run_until_cb(until, &mut cb);
                    }
                    let mut m = Message::response();
                    m.answers = s.goodbye().answers.into_iter().filter(|r| r.rtype == wire::T_SRV).collect();
                    send(&mut w, &m, &mut rng);
                }
                if echo {
                    let mut e = s2.clone();
                    e.port = s.port;
                    e.txt = s.txt.clone();
                    let d = 20 + rng.below(900);
                    let mut cb = |w: &mut World| resp.react(w, h);
                    let until = w.now() + d;
                    w.run_until_cb(until, &mut cb);
                    send(&mut w, &e.announce(), &mut rng);
                    resp.svcs[i] = e;
                }
                desc.push_str(&format!(
                    " @{t}:{}update{}{}{i}",
                    if quick { "quick-" } else { "" },
                    if toggled_back { "-back" } else { "" },
                    if echo { "-and-back-within-a-second" } else if bye_old { "-old-srv-withdrawn" } else { "" }
                ));
            }
            5 | 6 => {
                resp.gone[i] = true;
                send(&mut w, &s.goodbye(), &mut rng);
                desc.push_str(&format!(" @{t}:goodbye{i}"));
            }
            7 => {
                // partial goodbye
                let mut m = Message::response();
                let all = s.goodbye().answers;
                let which = rng.below(3);
                m.answers = all
                    .into_iter()
                    .filter(|r| match which {
                        0 => r.rtype == wire::T_PTR,
                        1 => r.rtype == wire::T_SRV,
                        _ => r.rtype == wire::T_A || r.rtype == wire::T_AAAA,
                    })
                    .collect();
                if !m.answers.is_empty() {
                    send(&mut w, &m, &mut rng);
                }
                desc.push_str(&format!(" @{t}:partial-goodbye{i}/{which}"));
            }
            8 => {
                resp.gone[i] = true; // vanishes without a word
                desc.push_str(&format!(" @{t}:vanish{i}"));
            }
            9 if opts.verify => {
                let timeout = *rng.pick(&[0u64, 1, 400, 999, 1000, 1001, 1500, 2750, 10_000, 3_600_000]);
                w.verify(h, &s.fullname(), timeout);
                verifies.push((w.now(), s.fullname(), timeout));
                desc.push_str(&format!(" @{t}:verify{i}({timeout})"));
            }
            _ => {
                // a record of some other name in the same packet as a re-announcement
                let mut m = s.announce();
                m.additionals.push(wire::a(&wire::name("stranger.local"), 120, [10, 0, 0, 99]));
                resp.gone[i] = false;
                send(&mut w, &m, &mut rng);
                desc.push_str(&format!(" @{t}:announce+foreign{i}"));
            }
        }
    }
    let mut cb = |w: &mut World| resp.react(w, h);
    w.run_until_cb(horizon, &mut cb);
    let svcs_final = resp.svcs.clone();
    Made { world: w, horizon, desc, svcs: svcs_final, policy, browse_chan, host_chans, verifies }
}
