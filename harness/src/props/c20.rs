//! C20 — state stays bounded: expired data is forgotten, unrequested data not kept.
//!
//! G1 quiescence: all searches stopped and every delivered TTL (+2 s) passed ⇒ the
//!    daemon's own metrics report no cached record and at most the interface-check
//!    timer; the state snapshot agrees (no records, no leftover map keys, no queued
//!    retransmission).
//! G2 under foreign traffic the cache holds no more than what the open searches relate
//!    to (plus a small constant), at every checkpoint.
//! G3 scaling: 4× the foreign traffic (and 4× the time) ends with the same counts.

use crate::model::Hist;
use crate::report::{run_parallel, threads, Local, Report, Violation};
use crate::scen::{self, Svc};
use crate::util::{self, Rng};
use crate::wire::{self, Message, Name, RData};
use crate::world::*;
use crate::Tier;
use mdns_sd::verif::Snapshot;
use serde_json::json;
use std::collections::HashMap;

const BROWSED: &str = "_t._udp.local.";

#[derive(Clone, Copy, Debug, PartialEq, Eq)]
pub enum Kind {
    /// Answers for a type nobody browses (PTR in the answer section).
    ForeignType,
    /// SRV/TXT/address records without any PTR.
    Orphans,
    Nsec,
    /// Instances of the browsed type that come and go.
    BrowsedChurn,
    /// Re-announcements of one browsed instance, again and again.
    Reannounce,
    /// PTR answers of the browsed type whose instances never show any other record (ghosts): the daemon's
    /// follow-up questions go unanswered and have to stop by themselves.
    GhostPtrs,
    /// Instances of the browsed type that share one subtype: one stays, the others are announced and withdrawn.
    SubtypeChurn,
    Mixed,
}

fn foreign_packet(rng: &mut Rng, kind: Kind, n: u64, ttl: u32, max_ttl: u32) -> Message {
    let mut m = Message::response();
    let k = if kind == Kind::Mixed { *rng.pick(&[Kind::ForeignType, Kind::Orphans, Kind::Nsec, Kind::BrowsedChurn, Kind::Reannounce, Kind::GhostPtrs]) } else { kind };
    match k {
        Kind::ForeignType => {
            let mut s = Svc::new("_other._tcp.local.", &format!("f{n}"), &format!("fh{n}.local"), [10, 0, 1, (n % 250) as u8]);
            s.ttl_ptr = ttl;
            s.ttl_srv = ttl;
            s.ttl_txt = ttl;
            s.ttl_addr = ttl;
            if rng.chance(1, 3) {
                s.subtype = Some(wire::name("_x._sub._other._tcp.local"));
            }
            m.answers = s.records();
        }
        Kind::Orphans => {
            let inst = wire::name(&format!("o{n}._ghost._udp.local"));
            let host = wire::name(&format!("oh{n}.local"));
            m.answers.push(wire::srv(&inst, ttl, 1, &host));
            m.answers.push(wire::txt(&inst, ttl, vec![0]));
            m.answers.push(wire::a(&host, ttl, [10, 0, 2, (n % 250) as u8]));
        }
        Kind::Nsec => {
            let host = wire::name(&format!("nh{n}.local"));
            m.answers.push(wire::rec(&host, wire::T_NSEC, 1 | wire::FLUSH, ttl, RData::NSec { next: host.clone(), rest: vec![0, 1, 0x40] }));
            if rng.chance(1, 2) {
                m.answers.push(wire::rec(&wire::name(&format!("ni{n}._t._udp.local")), wire::T_NSEC, 1 | wire::FLUSH, ttl, RData::NSec { next: host.clone(), rest: vec![0, 4, 0, 0, 0x80, 0x40] }));
            }
        }
        Kind::BrowsedChurn => {
            let mut s = Svc::new(BROWSED, &format!("c{n}"), &format!("ch{n}.local"), [10, 0, 3, (n % 250) as u8]);
            s.ttl_ptr = ttl;
            s.ttl_srv = ttl;
            s.ttl_txt = ttl;
            s.ttl_addr = ttl;
            if rng.chance(1, 3) {
                s.subtype = Some(wire::name("_y._sub._t._udp.local"));
            }
            m = if rng.chance(1, 4) { s.goodbye() } else { s.announce() };
        }
        Kind::Reannounce => {
            let mut s = Svc::new(BROWSED, "steady", "steady.local", [10, 0, 0, 44]);
            s.ttl_ptr = ttl;
            s.ttl_srv = ttl;
            s.ttl_txt = ttl;
            s.ttl_addr = ttl;
            m = s.announce();
        }
        Kind::GhostPtrs => {
            let inst = wire::name(&format!("g{n}._t._udp.local"));
            m.answers.push(wire::ptr(&wire::name(BROWSED), ttl, &inst));
        }
        Kind::SubtypeChurn => {
            let keeper = n % 10 == 0;
            let guest = n / 2;
            let mut s = if keeper { Svc::new(BROWSED, "keeper", "keeper.local", [10, 0, 4, 1]) } else { Svc::new(BROWSED, &format!("c{guest}"), &format!("ch{guest}.local"), [10, 0, 3, (guest % 250) as u8]) };
            // (the one that stays is announced with the scenario's largest TTL again and again)
            let ttl = if keeper { max_ttl } else { ttl };
            s.ttl_ptr = ttl;
            s.ttl_srv = ttl;
            s.ttl_txt = ttl;
            s.ttl_addr = ttl;
            s.subtype = Some(wire::name("_y._sub._t._udp.local"));
            m = if !keeper && n % 2 == 1 { s.goodbye() } else { s.announce() };
        }
        Kind::Mixed => unreachable!(),
    }
    m
}

pub struct Made {
    pub world: World,
    pub desc: String,
    pub max_ttl: u32,
    pub t_traffic_end: u64,
    pub checkpoints: Vec<(u64, Snapshot)>,
    pub final_snapshot: Option<Snapshot>,
    pub final_metrics: Option<HashMap<String, i64>>,
    pub searches_open_at_end: bool,
}

/// `volume`: multiplier of the number of foreign packets (and of the time they take).
pub fn scenario(seed: u64, kind: Kind, volume: u64, quiesce: bool) -> Made {
    let mut rng = Rng::new(seed);
    let mut w = World::new(seed);
    w.set_stepping(Stepping::Lazy);
    w.snapshot_level = 2;
    let h = w.add_host(scen::single_v4());
    let t0 = w.now();
    let unsolicited = rng.chance(1, 4);
    if unsolicited {
        w.accept_unsolicited(h, true);
    }
    // (with accept_unsolicited the daemon legitimately caches its own announcements, whose TTLs are 75 min)
    let with_service = !unsolicited && rng.chance(1, 2);
    if with_service {
        let addrs: Vec<std::net::IpAddr> = vec!["10.0.0.5".parse().unwrap()];
        w.register(h, World::reg_info("_mine._tcp.local.", "mine", "minehost.local.", &addrs, 81, &[("a", Some(b"1"))]));
    }
    let with_browse = rng.chance(3, 4);
    let with_resolver = rng.chance(1, 3);
    if with_browse {
        w.browse(h, BROWSED);
    }
    // host names as applications spell them (letter case is theirs), sometimes searched twice, stopped in another spelling
    let wanted = *rng.pick(&["wanted.local.", "Wanted-Host.local.", "WANTED.local.", "B\u{dc}RO-Wanted.local."]);
    if with_resolver {
        w.resolve_hostname(h, wanted, None);
        if rng.chance(1, 3) {
            w.run_for(300 + rng.below(2500));
            w.resolve_hostname(h, &wanted.to_lowercase(), None);
        }
    }
    let max_ttl = *rng.pick(&[2u32, 10, 60, 120]);
    let base_packets = 40 + rng.below(60);
    let packets = base_packets * volume;
    let gap = 20 + rng.below(200);
    let mut checkpoints = Vec::new();
    let desc = format!("{kind:?} volume={volume} packets={packets} gap={gap}ms max_ttl={max_ttl} browse={with_browse} resolver={with_resolver}({wanted}) service={with_service} unsolicited={unsolicited} quiesce={quiesce}");
    for n in 0..packets {
        let ttl = if rng.chance(1, 3) { max_ttl } else { 1 + rng.below(max_ttl as u64) as u32 };
        let m = foreign_packet(&mut rng, kind, n, ttl, max_ttl);
        w.inject_msg(h, 2, scen::peer4(70), &m);
        // now and then the application asks for an instance it has seen to be verified (a request with a timeout,
        // short or very long, that nobody answers): it may bring the end of the records forward, never push it back
        if quiesce && with_browse && rng.chance(1, 12) {
            let name = match kind {
                Kind::Reannounce => "steady".to_string(),
                _ => format!("c{}", n.saturating_sub(rng.below(3))),
            };
            w.verify(h, &format!("{name}.{BROWSED}"), *rng.pick(&[500u64, 10_000, 3_600_000]));
        }
        w.run_for(gap);
        if n % 25 == 24 {
            if let Some(s) = w.hosts[h].last_snapshot.clone() {
                checkpoints.push((w.now(), s));
            }
        }
    }
    let t_traffic_end = w.now();
    let mut searches_open_at_end = with_browse || with_resolver;
    if quiesce {
        if with_browse {
            w.stop_browse(h, BROWSED);
        }
        if with_resolver {
            w.stop_resolve_hostname(h, &if rng.chance(1, 2) { wanted.to_string() } else { wanted.to_ascii_uppercase().replace(".LOCAL.", ".local.") });
        }
        searches_open_at_end = false;
    }
    w.run_for(max_ttl as u64 * 1000 + 3000);
    let mc = w.get_metrics(h);
    w.run_for(10);
    let final_metrics = mc.and_then(|c| {
        w.trace.obs(c).find_map(|(_, o)| match o {
            Obs::Metrics(m) => Some(m.clone()),
            _ => None,
        })
    });
    let final_snapshot = w.hosts[h].last_snapshot.clone();
    let _ = t0;
    Made { world: w, desc, max_ttl, t_traffic_end, checkpoints, final_snapshot, final_metrics, searches_open_at_end }
}

fn counts(s: &Snapshot) -> (usize, usize, usize) {
    let records: usize = s.cache.iter().map(|c| c.records).sum();
    let keys: usize = s.cache.iter().map(|c| c.keys).sum();
    (records, keys, s.cache_subtypes)
}

pub fn g1(made: &Made, l: &mut Local) {
    let (Some(snap), Some(metrics)) = (&made.final_snapshot, &made.final_metrics) else {
        l.inconclusive.push("no final snapshot / metrics".into());
        return;
    };
    if made.searches_open_at_end {
        return;
    }
    let wit = |s: &Snapshot| {
        json!({"scenario": made.desc,
               "cache_summary": s.cache.iter().map(|c| format!("{}: keys={} empty_keys={} records={}", c.map, c.keys, c.empty_keys, c.records)).collect::<Vec<_>>(),
               "subtype_entries": s.cache_subtypes, "timers": s.timers_len, "retransmissions": s.retransmissions.len(),
               "leftover_records": s.cache_records.iter().take(12).map(|r| format!("{} {} ttl={} expires_in={}ms", r.map, r.name, r.ttl, r.expires as i64 - made.world.now() as i64)).collect::<Vec<_>>()})
    };
    // metrics as the daemon reports them
    for (key, what) in [("cached-ptr", "ptr"), ("cached-srv", "srv"), ("cached-txt", "txt"), ("cached-addr", "addr"), ("cached-nsec", "nsec"), ("cached-subtype", "subtype")] {
        l.act("G1");
        let v = metrics.get(key).copied().unwrap_or(0);
        if v != 0 {
            // which kind of leftover?
            let detail = match what {
                "srv" | "txt" => "record-without-ptr",
                "nsec" => "nsec-never-expires",
                "subtype" => "subtype-map-never-shrinks",
                _ => "record-not-evicted",
            };
            l.violate(
                Violation::new("G1", format!("G1/metrics-not-zero/{key}/{detail}"), format!("all searches stopped and every TTL passed, but the daemon's metrics still report {key} = {v}"))
                    .with(wit(snap)),
            );
        }
    }
    l.act("G1-timers");
    let timers = metrics.get("timer").copied().unwrap_or(0);
    if timers > 2 {
        l.violate(Violation::new("G1", "G1/timers-left", format!("{timers} timers left after quiescence (expected at most the interface check)")).with(wit(snap)));
    }
    // snapshot: leftover keys with empty lists are state too
    for c in snap.cache.iter() {
        l.act("G1-keys");
        if c.keys > 0 && c.records == 0 {
            l.violate(
                Violation::new("G1", format!("G1/empty-map-keys-left/{}", c.map), format!("{} key(s) with empty record lists left in the {} map", c.keys, c.map))
                    .with(wit(snap)),
            );
        }
    }
    if !snap.retransmissions.is_empty() {
        l.violate(Violation::new("G1", "G1/retransmissions-left", format!("{} queued retransmission(s) after quiescence", snap.retransmissions.len())).with(wit(snap)));
    }
}

pub fn g2(made: &Made, l: &mut Local) {
    // what the open searches relate to: records of the browsed type's instances (and their hosts), the resolved host
    let trace = &made.world.trace;
    let hist = Hist::build(trace, 0, &[]);
    let browsed: Name = wire::name(BROWSED);
    for (t, snap) in made.checkpoints.iter() {
        l.act("G2");
        let (records, keys, subs) = counts(snap);
        // related live records by the model (lenient: possibly live)
        let insts: Vec<Name> = hist
            .possibly_live(*t, 1500, |id| id.rtype == wire::T_PTR && (wire::names_eq_nocase(&id.name, &browsed) || id.name.len() > browsed.len() && wire::names_eq_nocase(&id.name[id.name.len() - browsed.len()..], &browsed)))
            .filter_map(|(id, _)| match &id.rdata {
                RData::Ptr(t) => Some(t.clone()),
                _ => None,
            })
            .collect();
        let related = hist
            .possibly_live(*t, 1500, |id| match id.rtype {
                wire::T_PTR => wire::names_eq_nocase(&id.name, &browsed) || id.name.len() > browsed.len(),
                wire::T_SRV | wire::T_TXT | wire::T_NSEC => insts.iter().any(|i| wire::names_eq_nocase(i, &id.name)),
                _ => true, // addresses: hosts of related instances, or the resolved host; counted generously
            })
            .filter(|(id, _)| {
                if id.rtype == wire::T_A || id.rtype == wire::T_AAAA {
                    let n = wire::dotted(&id.name);
                    n.starts_with("ch") || n.starts_with("steady") || n.starts_with("wanted")
                } else {
                    true
                }
            })
            .count();
        let allowance = 2 * related + 8;
        // accept_unsolicited(true) asks for everything to be cached
        if made.desc.contains("unsolicited=true") {
            continue;
        }
        if records > allowance || keys > allowance + 4 {
            // which map holds the excess?
            let of = |m: &str| snap.cache.iter().find(|c| c.map == m).map(|c| c.records.max(c.keys)).unwrap_or(0);
            let worst = if of("nsec") >= of("srv").max(of("txt")).max(of("addr")).max(of("ptr")) {
                "nsec-records"
            } else if of("ptr") > of("srv").max(of("addr")) {
                "ptr-records"
            } else {
                "srv-txt-address-records-without-ptr"
            };
            l.violate(
                Violation::new(
                    "G2",
                    format!("G2/unrelated-state-cached/{worst}"),
                    format!("at +{} ms the cache holds {records} records in {keys} keys; the open searches relate to {related}", t - EPOCH),
                )
                .with(json!({"scenario": made.desc,
                             "cache_summary": snap.cache.iter().map(|c| format!("{}: keys={} empty_keys={} records={}", c.map, c.keys, c.empty_keys, c.records)).collect::<Vec<_>>(),
                             "examples": snap.cache_records.iter().take(10).map(|r| format!("{} {}", r.map, r.name)).collect::<Vec<_>>()})),
            );
            return;
        }
        // the instance -> subtype map: one entry for each instance whose subtype PTR may still be alive
        l.act("G2-subtypes");
        let sub_related = hist
            .possibly_live(*t, 1500, |id| id.rtype == wire::T_PTR && id.name.len() > browsed.len() && wire::names_eq_nocase(&id.name[id.name.len() - browsed.len()..], &browsed))
            .count();
        if subs > 2 * sub_related + 8 {
            l.violate(
                Violation::new("G2", "G2/unrelated-state-cached/subtype-entries-of-departed-instances", format!("at +{} ms the subtype map holds {subs} entries; {sub_related} instances with a subtype may still be alive", t - EPOCH))
                    .with(json!({"scenario": made.desc})),
            );
            return;
        }
        l.act("G2-timers");
        let t_allow = 12 * (related + made.world.chans.len() + 2) + 40;
        if snap.timers_len > t_allow || snap.retransmissions.len() > 4 * (made.world.chans.len() + related + 2) {
            l.violate(
                Violation::new("G2", "G2/timers-grow-with-traffic", format!("at +{} ms there are {} timers and {} retransmissions for {related} related records", t - EPOCH, snap.timers_len, snap.retransmissions.len()))
                    .with(json!({"scenario": made.desc})),
            );
            return;
        }
    }
}

pub fn g3(seed: u64, kind: Kind, l: &mut Local) {
    let a = scenario(seed, kind, 1, false);
    let b = scenario(seed, kind, 4, false);
    l.evaluations += 2;
    l.count("daemon_iterations", a.world.total_iterations + b.world.total_iterations);
    let (Some(sa), Some(sb)) = (&a.final_snapshot, &b.final_snapshot) else { return };
    l.act("G3");
    let (ra, ka, sua) = counts(sa);
    let (rb, kb, sub) = counts(sb);
    let grew = |x: usize, y: usize| y > x + 6 && y > 2 * x;
    let which = if grew(ra, rb) {
        Some("records")
    } else if grew(ka, kb) {
        Some("map-keys")
    } else if grew(sua, sub) {
        Some("subtype-map")
    } else if grew(sa.timers_len, sb.timers_len) {
        Some("timers")
    } else {
        None
    };
    if let Some(which) = which {
        l.violate(
            Violation::new(
                "G3",
                format!("G3/state-grows-with-traffic/{which}/{kind:?}"),
                format!(
                    "4x the traffic leaves more state behind after every TTL has passed: records {ra}->{rb}, keys {ka}->{kb}, subtype entries {sua}->{sub}, timers {}->{}",
                    sa.timers_len, sb.timers_len
                ),
            )
            .with(json!({"scenario_1x": a.desc, "scenario_4x": b.desc,
                         "cache_4x": sb.cache.iter().map(|c| format!("{}: keys={} empty_keys={} records={}", c.map, c.keys, c.empty_keys, c.records)).collect::<Vec<_>>()})),
        );
    }
}

/// G4: state while a registration is probing. Unrelated questions (nothing in them is cached) or
/// polling API calls wake the daemon again and again; the timers and retransmissions it holds at the
/// end of the probing second must be what the registrations need, whatever the number of wake-ups.
pub fn probing_flood(seed: u64, l: &mut Local) {
    let run = |volume: u64| -> Option<(usize, usize, String)> {
        let mut rng = Rng::new(seed);
        let mut w = World::new(seed);
        w.set_stepping(Stepping::Lazy);
        let dual = rng.chance(1, 2);
        let h = w.add_host_with(if dual { scen::single_dual() } else { scen::single_v4() }, |g| g.jitter_const = Some(20));
        w.set_ip_check_interval(h, 3600);
        let services = 1 + rng.usize(3);
        let by_api = rng.chance(1, 3);
        let contested = rng.chance(1, 3);
        let t0 = w.now();
        for i in 0..services {
            let addrs: Vec<std::net::IpAddr> = if dual { vec!["10.0.0.5".parse().unwrap(), "fe80::5".parse().unwrap()] } else { vec!["10.0.0.5".parse().unwrap()] };
            w.register(h, World::reg_info("_mine._tcp.local.", &format!("mine{i}"), &format!("minehost{i}.local."), &addrs, 81 + i as u16, &[("a", Some(b"1"))]));
        }
        // a window in which the names are certainly still being probed: the first 700 ms; with a rival that
        // keeps winning the comparison for one of the names, several seconds
        let window = if contested { 3500 } else { 700 };
        let n = (25 + rng.below(25)) * volume;
        let gap = (window / n).max(1);
        let mut sent = 0;
        while w.now() < t0 + window && sent < n {
            if contested && sent % (n / 4).max(1) == 0 {
                // the rival's probe: later data for the first instance name (it wins, we wait a second and probe again)
                let inst = scen::wire_name("mine0._mine._tcp.local.");
                let mut q = Message::query();
                q.questions.push(wire::question(&inst, wire::T_ANY));
                q.authorities.push(wire::srv(&inst, 120, 65000, &scen::wire_name("zz-rival.local.")));
                w.inject_msg(h, 2, scen::peer4(71), &q);
            }
            if by_api {
                w.get_metrics(h);
            } else {
                let mut q = Message::query();
                q.questions.push(wire::question(&scen::wire_name(&format!("nobody{sent}._else._udp.local.")), wire::T_PTR));
                w.inject_msg(h, 2, scen::peer4(70), &q);
            }
            sent += 1;
            w.run_for(gap);
        }
        w.run_until(t0 + window);
        let snap = w.snapshot(h)?;
        if w.trace.deaths().next().is_some() {
            return None;
        }
        let still_probing = !snap.probes.is_empty();
        if !still_probing {
            return None;
        }
        Some((snap.timers_len, snap.retransmissions.len(), format!("services={services} dual={dual} wake-ups={} by {} over {window} ms contested={contested}", sent, if by_api { "get_metrics calls" } else { "unrelated questions" })))
    };
    let (Some(a), Some(b)) = (run(1), run(4)) else { return };
    l.evaluations += 2;
    l.act("G4");
    l.distinct.insert(util::fnv_str(&a.2));
    let grew = |x: usize, y: usize| y > x + 6 && y > 2 * x;
    let which = if grew(a.0, b.0) {
        Some("timers")
    } else if grew(a.1, b.1) {
        Some("retransmissions")
    } else {
        None
    };
    if let Some(which) = which {
        l.violate(
            Violation::new(
                "G3",
                format!("G3/state-grows-with-traffic/{which}/while-probing"),
                format!("while the registrations were still probing, 4x the wake-ups left timers {} -> {}, retransmissions {} -> {}", a.0, b.0, a.1, b.1),
            )
            .with(json!({"scenario_1x": a.2, "scenario_4x": b.2})),
        );
    }
}

const KINDS: [Kind; 8] = [Kind::ForeignType, Kind::Orphans, Kind::Nsec, Kind::BrowsedChurn, Kind::Reannounce, Kind::GhostPtrs, Kind::SubtypeChurn, Kind::Mixed];

pub fn run_one(seed: u64, i: u64, l: &mut Local) {
    let kind = KINDS[(i % 8) as usize];
    match (i / 8) % 3 {
        0 => {
            let made = scenario(seed, kind, 1, true);
            l.evaluations += 1;
            l.count("daemon_iterations", made.world.total_iterations);
            l.count("packets_injected", made.world.trace.entries.iter().filter(|e| matches!(e.ev, Ev::Rx(_))).count() as u64);
            l.distinct.insert(util::fnv_str(&made.desc));
            if l.samples.len() < 2 {
                l.samples.push(json!({"scenario": made.desc}));
            }
            if made.world.trace.deaths().next().is_some() {
                l.inconclusive.push("daemon died in a C20 scenario".into());
                return;
            }
            g1(&made, l);
            g2(&made, l);
        }
        1 => {
            let made = scenario(seed, kind, 1 + (i % 3), false);
            l.evaluations += 1;
            l.count("daemon_iterations", made.world.total_iterations);
            l.distinct.insert(util::fnv_str(&made.desc));
            g2(&made, l);
        }
        _ => g3(seed, kind, l),
    }
}

pub fn run(report: &Report, tier: &Tier) {
    report.set_rule(
        "traffic scenarios: 40..100 (x1..x4) packets, 20..220 ms apart, of one kind or mixed: announcements of a type nobody browses, SRV/TXT/ \
         address records without PTR, NSEC records, instances of the browsed type that come and go (with subtypes, goodbyes), PTR-only instances that never resolve, endless \
         re-announcements of one instance; TTLs up to {2,10,60,120} s; with/without browse, hostname search, own registration, accept_unsolicited; \
         G1 after stopping every search and waiting max TTL + 3 s, G2 at a checkpoint every 25 packets, G3 pairs 1x/4x; G4: 1..3 registrations still probing (sometimes kept probing by a rival that wins the comparison) while 25..50 (x1 / x4) unrelated questions or get_metrics calls wake the daemon: timers and retransmissions compared 1x/4x; distinct by scenario description",
    );
    report.assume("G2 allowance: 2 x (records the model relates to the open searches) + 8; G3 flags growth by more than 2x and more than 6");
    for r in ["G1", "G1-keys", "G1-timers", "G2", "G3", "G4"] {
        report.floor(r, 20);
    }
    let seed = report.seed;
    let n: u64 = if tier.thorough { 40_000 } else { 900 };
    run_parallel(report, n, threads(), tier.budget_s * 0.9, |i, l| {
        run_one(util::mix(seed, 0xC20_0000 + i), i, l);
    });
    let n4: u64 = if tier.thorough { 20_000 } else { 400 };
    run_parallel(report, n4, threads(), tier.budget_s * 0.1, |i, l| {
        probing_flood(util::mix(seed, 0xC20_9000 + i), l);
    });
}
