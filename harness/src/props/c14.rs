//! C14 — shutdown is clean, final and safe under concurrent use.
//!
//! Part A (simulated, enumerated schedules): the gate lets the harness queue an exact
//! sequence of commands before releasing one iteration. `shutdown` is placed at every
//! position of every sequence of N other commands (exhaustive for small N) and the
//! sequence is split over up to three iterations.
//! Part B (real threads, real sockets, real clock): client threads issue random calls
//! while another thread shuts the daemon down.

use crate::report::{run_parallel, threads, Local, Report, Violation};
use crate::scen;
use crate::util::{self, Rng};
use crate::wire;
use crate::world::*;
use crate::Tier;
use mdns_sd::{DaemonStatus, ServiceDaemon, ServiceInfo};
use serde_json::json;
use std::net::IpAddr;
use std::time::{Duration, Instant};

pub const N_CMDS: usize = 20;

const T1: &str = "_t._udp.local.";
const T2: &str = "_http._tcp.local.";
const HOSTNAME: &str = "somehost.local.";

fn new_reg(i: usize) -> RegInfo {
    let addrs: Vec<IpAddr> = vec!["10.0.0.5".parse().unwrap()];
    World::reg_info(T1, &format!("late{i}"), "latehost.local.", &addrs, 4000 + i as u16, &[("k", Some(b"v"))])
}

fn setup_reg(i: usize) -> RegInfo {
    let addrs: Vec<IpAddr> = vec!["10.0.0.5".parse().unwrap(), "fe80::5".parse().unwrap()];
    World::reg_info(if i == 1 { "_print._sub._t._udp.local." } else { T1 }, &format!("svc{i}"), "myhost.local.", &addrs, 3000 + i as u16, &[("k", Some(b"v"))])
}

/// Issues command number `c` (0..N_CMDS). Returns a short name.
fn issue(w: &mut World, h: usize, c: usize) -> &'static str {
    match c {
        0 => {
            w.browse(h, T1);
            "browse(T1)"
        }
        1 => {
            w.browse(h, T2);
            "browse(T2)"
        }
        2 => {
            w.browse_cache(h, T1);
            "browse_cache(T1)"
        }
        3 => {
            w.stop_browse(h, T1);
            "stop_browse(T1)"
        }
        4 => {
            w.resolve_hostname(h, HOSTNAME, None);
            "resolve_hostname"
        }
        5 => {
            w.resolve_hostname(h, HOSTNAME, Some(100));
            "resolve_hostname(100ms)"
        }
        6 => {
            w.stop_resolve_hostname(h, HOSTNAME);
            "stop_resolve_hostname"
        }
        7 => {
            w.register(h, new_reg(7));
            "register(new)"
        }
        8 => {
            let mut r = setup_reg(0);
            r.port = 3999;
            w.register(h, r);
            "register(update svc0)"
        }
        9 => {
            w.unregister(h, "svc0._t._udp.local.");
            "unregister(svc0)"
        }
        10 => {
            w.unregister(h, "nobody._t._udp.local.");
            "unregister(unknown)"
        }
        11 => {
            w.monitor(h);
            "monitor"
        }
        12 => {
            w.status(h);
            "status"
        }
        13 => {
            w.get_metrics(h);
            "get_metrics"
        }
        14 => {
            w.verify(h, "svc0._t._udp.local.", 1000);
            "verify"
        }
        15 => {
            w.set_ip_check_interval(h, 1);
            "set_ip_check_interval"
        }
        16 => {
            w.disable_interface(h, vec![mdns_sd::IfKind::IPv6]);
            "disable_interface(IPv6)"
        }
        17 => {
            w.enable_interface(h, vec![mdns_sd::IfKind::All]);
            "enable_interface(All)"
        }
        18 => {
            w.accept_unsolicited(h, true);
            "accept_unsolicited"
        }
        _ => {
            w.set_multicast_loop_v4(h, false);
            "set_multicast_loop_v4(false)"
        }
    }
}

pub struct CaseA {
    /// Commands other than shutdown, in order.
    pub cmds: Vec<usize>,
    /// Position of shutdown among them (0..=len).
    pub pos: usize,
    /// Iteration boundaries: indices into the full sequence (with shutdown) after which an iteration is released.
    pub cuts: Vec<usize>,
    pub services: usize,
    pub searches: usize,
    /// Searches whose receiver the client dropped without stopping them (they stay in the daemon's tables),
    /// next to four more open browses of other types.
    pub abandoned: usize,
    pub second_shutdown: bool,
}

pub fn run_case_a(case: &CaseA, seed: u64, l: &mut Local) {
    l.evaluations += 1;
    let mut w = World::new(seed);
    // (a third of the daemons live on a port of their own, as `new_with_port` allows: their peers listen there)
    if seed % 3 == 0 {
        w.port = 5454;
    }
    w.set_stepping(Stepping::Lazy);
    let h = w.add_host(scen::single_dual());
    let t0 = w.now();
    let mon = w.monitor(h);
    for i in 0..case.services {
        w.register(h, setup_reg(i));
    }
    let mut open_chans: Vec<(usize, &'static str)> = Vec::new();
    if case.searches >= 1 {
        if let Some(c) = w.browse(h, T1) {
            open_chans.push((c, "browse(T1)"));
        }
    }
    if case.searches >= 2 {
        if let Some(c) = w.resolve_hostname(h, HOSTNAME, None) {
            open_chans.push((c, "resolve_hostname"));
        }
    }
    if case.searches >= 3 {
        if let Some(c) = w.browse(h, T2) {
            open_chans.push((c, "browse(T2)"));
        }
    }
    if case.abandoned > 0 {
        const MORE: [&str; 4] = ["_c14m0._udp.local.", "_c14m1._udp.local.", "_c14m2._udp.local.", "_c14m3._udp.local."];
        const MORE_NAMES: [&str; 4] = ["browse(more0)", "browse(more1)", "browse(more2)", "browse(more3)"];
        for (ty, name) in MORE.iter().zip(MORE_NAMES.iter()) {
            if let Some(c) = w.browse(h, ty) {
                open_chans.push((c, name));
            }
        }
        for j in 0..case.abandoned {
            if let Some(c) = w.browse(h, &format!("_c14gone{j}._udp.local.")) {
                w.settle();
                w.drop_chan(c);
            }
        }
        if let Some(c) = w.resolve_hostname(h, "gone-host.local.", None) {
            w.settle();
            w.drop_chan(c);
        }
    }
    w.run_until(t0 + 3000); // services are announced twice by now
    let t_seq = w.now();
    // the sequence
    let mut seq: Vec<Option<usize>> = case.cmds.iter().map(|c| Some(*c)).collect();
    seq.insert(case.pos, None);
    let mut names: Vec<&'static str> = Vec::new();
    let mut shutdown_chan = None;
    let first_entry = w.trace.entries.len();
    for (i, c) in seq.iter().enumerate() {
        match c {
            Some(c) => names.push(issue(&mut w, h, *c)),
            None => {
                shutdown_chan = w.shutdown(h);
                names.push("SHUTDOWN");
            }
        }
        if case.cuts.contains(&(i + 1)) {
            w.run_one(h);
            names.push("|");
        }
    }
    w.run_one(h);
    w.run_for(50);
    let second = if case.second_shutdown { w.shutdown(h) } else { None };
    let second_result = if case.second_shutdown { w.last_api_result() } else { None };
    w.run_for(1000);
    // the daemon must be gone by now
    let desc = format!("services={} searches={} abandoned={} seq=[{}]", case.services, case.searches, case.abandoned, names.join(" "));
    let key = format!("{}|{}|{}|{:?}|{:?}|{}", case.services, case.searches, case.abandoned, seq, case.cuts, case.second_shutdown);
    l.distinct.insert(util::fnv_str(&key));
    if l.samples.len() < 2 {
        l.samples.push(json!({"case": desc}));
    }
    let wit = |w: &World| json!({"case": desc, "trace": w.trace.render(first_entry, 70)});

    // X5
    l.act("X5");
    if let Some(d) = w.trace.deaths().find(|d| matches!(d.ev, Ev::Death { panicked: true, .. })) {
        let Ev::Death { msg, file, .. } = &d.ev else { unreachable!() };
        l.violate(
            Violation::new("X5", format!("X5/daemon-panic/{}/{}", util::strip_numbers(msg), file), format!("the daemon thread panicked during shutdown: {msg}"))
                .with(wit(&w)),
        );
        return;
    }
    for (_, call, result, _) in w.trace.apis(h) {
        if let ApiResult::Panic(p) = result {
            l.violate(
                Violation::new("X5", format!("X5/caller-panic/{}", util::strip_numbers(p)), format!("{call:?} panicked in the caller: {p}"))
                    .with(wit(&w)),
            );
            return;
        }
    }
    let ended = w.hosts[h].ctx.lock().ended.is_some();
    l.act("X3-ended");
    if !ended {
        l.violate(
            Violation::new("X3", "X3/daemon-still-running", "the daemon thread is still running one virtual second after shutdown was processed")
                .with(wit(&w)),
        );
        return;
    }
    // X3: shutdown reports Shutdown
    let Some(sc) = shutdown_chan else {
        l.inconclusive.push("shutdown call was refused".into());
        return;
    };
    l.act("X3");
    let got: Vec<&Obs> = w.trace.obs(sc).map(|(_, o)| o).collect();
    if !got.iter().any(|o| matches!(o, Obs::Status(false))) {
        l.violate(
            Violation::new("X3", "X3/no-Shutdown-status", format!("the shutdown receiver yielded {got:?}"))
                .with(wit(&w)),
        );
        return;
    }
    // X3: everything fails with DaemonShutdown afterwards, status() reports Shutdown
    let mark = w.trace.entries.len();
    w.browse(h, T1);
    w.register(h, new_reg(9));
    w.unregister(h, "svc0._t._udp.local.");
    w.resolve_hostname(h, HOSTNAME, None);
    w.get_metrics(h);
    w.monitor(h);
    w.set_ip_check_interval(h, 3);
    w.stop_browse(h, T1);
    w.browse_cache(h, T2);
    w.stop_resolve_hostname(h, HOSTNAME);
    w.verify(h, "svc0._t._udp.local.", 1000);
    w.set_service_name_len_max(h, 30);
    w.enable_interface(h, vec![mdns_sd::IfKind::All]);
    w.disable_interface(h, vec![mdns_sd::IfKind::IPv6]);
    w.accept_unsolicited(h, true);
    w.set_multicast_loop_v4(h, true);
    w.set_multicast_loop_v6(h, false);
    // (another shutdown is a call like any other)
    w.shutdown(h);
    for e in w.trace.entries[mark..].iter() {
        if let Ev::Api { call, result, .. } = &e.ev {
            l.act("X3-after");
            let ok = matches!(result, ApiResult::Err(m) if m.contains("shut down"));
            if !ok {
                l.violate(
                    Violation::new("X3", "X3/call-after-shutdown-not-refused", format!("{call:?} after Shutdown was reported returned {result:?}"))
                        .with(wit(&w)),
                );
                return;
            }
        }
    }
    if let Some(st) = w.status(h) {
        w.drain(h);
        l.act("X3-status");
        let got: Vec<&Obs> = w.trace.obs(st).map(|(_, o)| o).collect();
        if !got.iter().any(|o| matches!(o, Obs::Status(false))) {
            l.violate(
                Violation::new("X3", "X3/status-after-shutdown", format!("status() after shutdown yielded {got:?}"))
                    .with(wit(&w)),
            );
            return;
        }
    } else {
        l.violate(Violation::new("X3", "X3/status-after-shutdown-refused", "status() after shutdown returned an error").with(wit(&w)));
        return;
    }
    // X6
    if case.second_shutdown && second.is_none() {
        l.act("X6");
        if !matches!(second_result, Some(ApiResult::Err(_))) {
            l.violate(Violation::new("X6", "X6/second-shutdown-result", format!("a second shutdown() returned {second_result:?}")).with(wit(&w)));
            return;
        }
    }
    if let Some(c2) = second {
        l.act("X6");
        w.drain(h);
        let resolved = w.chans[c2].closed || w.chans[c2].received > 0;
        if !resolved {
            l.violate(
                Violation::new("X6", "X6/second-shutdown-unresolved", "a second shutdown() returned a receiver that stays open and empty")
                    .with(wit(&w)),
            );
            return;
        }
    }
    // X4: every reply receiver handed out is resolved (value or closed), none open and empty
    w.drain(h);
    for c in w.chans.iter().filter(|c| c.host == h && !matches!(c.rx, ChanRx::Dropped)) {
        l.act("X4");
        if !c.closed {
            // which call handed it out, and was it queued behind Exit?
            let behind = w.trace.entries.iter().any(|e| matches!(&e.ev, Ev::Api { chan: Some(ch), .. } if *ch == c.id) && e.t >= t_seq);
            let after_shutdown_call = w
                .trace
                .entries
                .iter()
                .skip_while(|e| !matches!(&e.ev, Ev::Api { call: ApiCall::Shutdown, .. }))
                .any(|e| matches!(&e.ev, Ev::Api { chan: Some(ch), .. } if *ch == c.id));
            let class = if after_shutdown_call {
                "queued-behind-shutdown"
            } else if behind {
                "queued-before-shutdown"
            } else {
                "opened-earlier"
            };
            l.violate(
                Violation::new(
                    "X4",
                    format!("X4/receiver-open-and-empty/{class}"),
                    format!("after the daemon ended, the receiver of {} is neither answered nor closed: a recv() on it blocks for ever", c.label),
                )
                .with(wit(&w)),
            );
            return;
        }
    }
    // X2: SearchStopped once, last, on every search channel that was open when shutdown was processed
    let shutdown_idx = w.trace.entries.iter().position(|e| matches!(&e.ev, Ev::Api { call: ApiCall::Shutdown, .. })).unwrap_or(0);
    let infos = crate::props::c13::channels(&w.trace);
    for ci in infos.iter() {
        if ci.idx > shutdown_idx {
            continue; // opened behind the shutdown command: never executed
        }
        let ended_before = crate::props::c13::ended_by_api_idx(&w.trace, ci).is_some_and(|(_, cause, i)| i < shutdown_idx && cause != "shutdown");
        let obs: Vec<&Obs> = w.trace.obs(ci.chan).map(|(_, o)| o).filter(|o| !matches!(o, Obs::Closed)).collect();
        let timed_out = obs.iter().any(|o| matches!(o, Obs::HTimeout(_)));
        // a receiver the client dropped cannot be told anything
        let dropped = w.trace.entries.iter().any(|e| matches!(&e.ev, Ev::Api { call: ApiCall::DropChannel(c), .. } if *c == ci.chan));
        if ended_before || timed_out || dropped || matches!(ci.kind, crate::props::c13::Kind::BrowseCache(_)) {
            continue;
        }
        l.act("X2");
        let stops = obs.iter().filter(|o| matches!(o, Obs::SearchStopped(_) | Obs::HStopped(_))).count();
        let last_is_stop = matches!(obs.last(), Some(Obs::SearchStopped(_) | Obs::HStopped(_)));
        if stops != 1 || !last_is_stop {
            l.violate(
                Violation::new(
                    "X2",
                    format!("X2/search-not-stopped-once/{}", if stops == 0 { "none" } else if stops > 1 { "several" } else { "not-last" }),
                    format!("an open search channel saw {stops} SearchStopped at shutdown (last event {:?})", obs.last()),
                )
                .with(wit(&w)),
            );
            return;
        }
    }
    // X1: one goodbye per announced service x interface x family that was still registered
    let txs = scen::tx_msgs(&w.trace, h);
    let shutdown_t = w.trace.entries[shutdown_idx].t;
    for i in 0..case.services {
        let reg = setup_reg(i);
        let inst = scen::wire_name(&format!("svc{i}.{}", reg.ty_only));
        let ty = scen::wire_name(&reg.ty_only);
        // unregistered by the sequence before shutdown?
        let unregistered = i == 0 && seq.iter().take(case.pos).any(|c| *c == Some(9));
        // disabling IPv6 before shutdown removes that family
        let v6_disabled = seq
            .iter()
            .take(case.pos)
            .filter(|c| matches!(c, Some(16) | Some(17)))
            .last()
            .is_some_and(|c| *c == Some(16));
        for v4 in [true, false] {
            if !v4 && v6_disabled {
                continue;
            }
            let byes = txs
                .iter()
                .filter(|tx| {
                    tx.t >= shutdown_t
                        && tx.v4 == v4
                        && tx.msg.is_response()
                        && tx.msg.answers.iter().any(|r| {
                            r.ttl == 0 && r.rtype == wire::T_PTR && wire::names_eq_nocase(&r.name, &ty) && matches!(&r.rdata, wire::RData::Ptr(t) if wire::names_eq_nocase(t, &inst))
                        })
                })
                .count();
            l.act("X1");
            let want = if unregistered { 0 } else { 1 };
            // an unregister in the same instant sends its own goodbye: count those too
            let own = if unregistered { byes } else { want };
            if !unregistered && byes != want {
                l.violate(
                    Violation::new(
                        "X1",
                        format!("X1/goodbye-count/{}", if byes == 0 { "none" } else { "several" }),
                        format!("shutdown sent {byes} goodbye(s) for announced service svc{i} over {}", if v4 { "IPv4" } else { "IPv6" }),
                    )
                    .with(wit(&w)),
                );
                return;
            }
            let _ = own;
        }
    }
    let _ = mon;
}

/// Enumerates Part A cases: every sequence of `n` commands, shutdown at every position.
fn enumerate(n: usize) -> Vec<(Vec<usize>, usize)> {
    let mut out = Vec::new();
    let total = N_CMDS.pow(n as u32);
    for idx in 0..total {
        let mut cmds = Vec::with_capacity(n);
        let mut x = idx;
        for _ in 0..n {
            cmds.push(x % N_CMDS);
            x /= N_CMDS;
        }
        for pos in 0..=n {
            out.push((cmds.clone(), pos));
        }
    }
    out
}

// ---------------------------------------------------------------------------
// Part B

fn real_info(i: usize, port: u16) -> ServiceInfo {
    ServiceInfo::new("_c14._udp.local.", &format!("real{i}-{port}"), &format!("c14host{port}.local."), "127.0.0.1", 5000 + i as u16, &[("k", "v")][..]).unwrap()
}

enum Reply {
    Service(mdns_sd::Receiver<mdns_sd::ServiceEvent>),
    Host(mdns_sd::Receiver<mdns_sd::HostnameResolutionEvent>),
    Daemon(mdns_sd::Receiver<mdns_sd::DaemonEvent>),
    Unreg(mdns_sd::Receiver<mdns_sd::UnregisterStatus>),
    Status(mdns_sd::Receiver<DaemonStatus>),
    Metrics(mdns_sd::Receiver<mdns_sd::Metrics>),
}

impl Reply {
    /// Drains; true if the channel is resolved (got something, or closed).
    fn resolved(&self, got: &mut bool) -> bool {
        macro_rules! chk {
            ($rx:expr) => {{
                loop {
                    match $rx.try_recv() {
                        Ok(_) => *got = true,
                        Err(flume::TryRecvError::Disconnected) => return true,
                        Err(flume::TryRecvError::Empty) => return *got,
                    }
                }
            }};
        }
        match self {
            Reply::Service(r) => chk!(r),
            Reply::Host(r) => chk!(r),
            Reply::Daemon(r) => chk!(r),
            Reply::Unreg(r) => chk!(r),
            Reply::Status(r) => chk!(r),
            Reply::Metrics(r) => chk!(r),
        }
    }
}

struct Issued {
    what: &'static str,
    after_shutdown_seen: bool,
    result_ok: bool,
    err: String,
    reply: Option<Reply>,
    /// The client has taken something out of `reply` already (clients keep reading their channels: a daemon
    /// blocks on an event channel that is full and never read, by design of the crate).
    got: bool,
}

fn drain_replies(issued: &mut [Issued]) {
    for i in issued.iter_mut() {
        if let Some(r) = &i.reply {
            let mut got = i.got;
            let _ = r.resolved(&mut got);
            i.got = got;
        }
    }
}

pub fn run_case_b(seed: u64, l: &mut Local) {
    l.evaluations += 1;
    let mut rng = Rng::new(seed);
    let port = 20000 + (seed % 20000) as u16;
    let daemon = match ServiceDaemon::new_with_port(port) {
        Ok(d) => d,
        Err(e) => {
            l.inconclusive.push(format!("cannot create a real daemon: {e}"));
            return;
        }
    };
    let clients = 2 + rng.usize(7);
    let calls_per_client = 5 + rng.usize(30);
    let shutdown_after_us = rng.below(6000);
    let shutdown_seen = std::sync::Arc::new(std::sync::atomic::AtomicBool::new(false));
    let over = std::sync::Arc::new(std::sync::atomic::AtomicBool::new(false));
    l.distinct
        .insert(util::fnv_str(&format!("B|{clients}|{}|{}", calls_per_client / 5, shutdown_after_us / 500)));
    let mut handles = Vec::new();
    for c in 0..clients {
        let d = daemon.clone();
        let seen = shutdown_seen.clone();
        let over = over.clone();
        let mut r = Rng::new(util::mix(seed, c as u64 + 1));
        handles.push(std::thread::spawn(move || {
            let mut issued: Vec<Issued> = Vec::new();
            for k in 0..calls_per_client {
                let after = seen.load(std::sync::atomic::Ordering::SeqCst);
                let pick = r.below(12);
                let res = std::panic::catch_unwind(std::panic::AssertUnwindSafe(|| -> (&'static str, Result<Option<Reply>, String>) {
                    match pick {
                        0 => ("browse", d.browse("_c14._udp.local.").map(|x| Some(Reply::Service(x))).map_err(|e| e.to_string())),
                        1 => ("browse_cache", d.browse_cache("_c14b._udp.local.").map(|x| Some(Reply::Service(x))).map_err(|e| e.to_string())),
                        2 => ("stop_browse", d.stop_browse("_c14._udp.local.").map(|_| None).map_err(|e| e.to_string())),
                        3 => ("resolve_hostname", d.resolve_hostname("c14x.local.", Some(50)).map(|x| Some(Reply::Host(x))).map_err(|e| e.to_string())),
                        4 => ("stop_resolve_hostname", d.stop_resolve_hostname("c14x.local.").map(|_| None).map_err(|e| e.to_string())),
                        5 => ("register", d.register(real_info(c * 100 + k, port)).map(|_| None).map_err(|e| e.to_string())),
                        6 => ("unregister", d.unregister(&format!("real{}-{port}._c14._udp.local.", c * 100)).map(|x| Some(Reply::Unreg(x))).map_err(|e| e.to_string())),
                        7 => ("monitor", d.monitor().map(|x| Some(Reply::Daemon(x))).map_err(|e| e.to_string())),
                        8 => ("status", d.status().map(|x| Some(Reply::Status(x))).map_err(|e| e.to_string())),
                        9 => ("get_metrics", d.get_metrics().map(|x| Some(Reply::Metrics(x))).map_err(|e| e.to_string())),
                        10 => ("set_ip_check_interval", d.set_ip_check_interval(7).map(|_| None).map_err(|e| e.to_string())),
                        _ => ("verify", d.verify("nobody._c14._udp.local.".to_string(), Duration::from_millis(10)).map(|_| None).map_err(|e| e.to_string())),
                    }
                }));
                match res {
                    Ok((what, Ok(reply))) => issued.push(Issued { what, after_shutdown_seen: after, result_ok: true, err: String::new(), reply, got: false }),
                    Ok((what, Err(e))) => issued.push(Issued { what, after_shutdown_seen: after, result_ok: false, err: e, reply: None, got: false }),
                    Err(_) => issued.push(Issued { what: "PANIC", after_shutdown_seen: after, result_ok: false, err: util::take_thread_panic().map(|p| p.msg).unwrap_or_default(), reply: None, got: false }),
                }
                drain_replies(&mut issued);
                if r.chance(1, 3) {
                    std::thread::sleep(Duration::from_micros(r.below(300)));
                }
            }
            // keep reading until the main thread has its answer from shutdown
            while !over.load(std::sync::atomic::Ordering::SeqCst) {
                drain_replies(&mut issued);
                std::thread::sleep(Duration::from_micros(500));
            }
            issued
        }));
    }
    std::thread::sleep(Duration::from_micros(shutdown_after_us));
    // one run in eight: shutdown comes when services are announced and events have been flowing
    if util::mix(seed, 0xB8) % 8 == 0 {
        std::thread::sleep(Duration::from_millis(900 + util::mix(seed, 0xB9) % 1600));
        l.act("X3b-late-shutdown");
    }
    // the command queue may be full (Error::Again): try again, as a client would
    let mut sd = daemon.shutdown();
    let t_try = Instant::now();
    while matches!(&sd, Err(mdns_sd::Error::Again)) && t_try.elapsed() < Duration::from_secs(10) {
        std::thread::sleep(Duration::from_micros(200));
        sd = daemon.shutdown();
    }
    let mut shutdown_ok = false;
    match &sd {
        Ok(rx) => match rx.recv_timeout(Duration::from_secs(20)) {
            Ok(DaemonStatus::Shutdown) => {
                shutdown_ok = true;
                shutdown_seen.store(true, std::sync::atomic::Ordering::SeqCst);
            }
            other => {
                l.violate(Violation::new("X3", "X3/real/no-Shutdown-status", format!("shutdown receiver yielded {other:?} within 20 s")).with(json!({"seed": seed})));
            }
        },
        Err(e) => l.inconclusive.push(format!("shutdown refused: {e}")),
    }
    over.store(true, std::sync::atomic::Ordering::SeqCst);
    let mut all: Vec<Issued> = Vec::new();
    for hd in handles {
        match hd.join() {
            Ok(v) => all.extend(v),
            Err(_) => l.inconclusive.push("client thread died".into()),
        }
    }
    if !shutdown_ok {
        return;
    }
    l.count("real_calls", all.len() as u64);
    // X5
    l.act("X5b");
    if let Some(p) = all.iter().find(|i| i.what == "PANIC") {
        l.violate(Violation::new("X5", format!("X5/real/caller-panic/{}", util::strip_numbers(&p.err)), format!("an API call panicked: {}", p.err)).with(json!({"seed": seed})));
    }
    // X3: calls started after Shutdown was seen must fail with DaemonShutdown (status() answers Shutdown)
    for i in all.iter().filter(|i| i.after_shutdown_seen) {
        l.act("X3b");
        if i.what == "status" {
            continue;
        }
        if i.result_ok || !i.err.contains("shut down") {
            l.violate(
                Violation::new("X3", "X3/real/call-after-shutdown-not-refused", format!("{} issued after Shutdown was received returned ok={} err={}", i.what, i.result_ok, i.err))
                    .with(json!({"seed": seed})),
            );
        }
    }
    // X4: every receiver handed out gets resolved once the daemon is gone
    let deadline = Instant::now() + Duration::from_secs(5);
    let mut pending: Vec<(&'static str, bool, &Reply, bool)> = all
        .iter()
        .filter_map(|i| i.reply.as_ref().map(|r| (i.what, i.after_shutdown_seen, r, i.got)))
        .collect();
    loop {
        pending.retain_mut(|(_, _, r, got)| !r.resolved(got));
        if pending.is_empty() || Instant::now() > deadline {
            break;
        }
        std::thread::sleep(Duration::from_millis(2));
    }
    l.act_n("X4b", all.iter().filter(|i| i.reply.is_some()).count() as u64);
    if !pending.is_empty() {
        let kinds: Vec<&str> = pending.iter().map(|(w, _, _, _)| *w).collect();
        l.count("real_receivers_left_open", pending.len() as u64);
        l.violate(
            Violation::new(
                "X4",
                "X4/real/receiver-open-and-empty",
                format!("{} reply receiver(s) still open and empty 5 s after the daemon ended (calls that raced with shutdown): {:?}", pending.len(), &kinds[..kinds.len().min(8)]),
            )
            .with(json!({"seed": seed, "clients": clients, "calls_per_client": calls_per_client, "shutdown_after_us": shutdown_after_us})),
        );
    }
    // X6 + X3 status
    l.act("X6b");
    match daemon.shutdown() {
        Err(_) => {}
        Ok(rx) => {
            // the status Shutdown was received above: this call, like every other, has to be refused
            l.violate(Violation::new("X3", "X3/real/call-after-shutdown-not-refused/shutdown", "shutdown() issued after Shutdown was received returned Ok").with(json!({"seed": seed})));
            let mut got = false;
            let r = Reply::Status(rx);
            let start = Instant::now();
            while !r.resolved(&mut got) && start.elapsed() < Duration::from_secs(3) {
                std::thread::sleep(Duration::from_millis(1));
            }
            if !r.resolved(&mut got) && !got {
                l.violate(Violation::new("X6", "X6/real/second-shutdown-unresolved", "second shutdown() receiver stays open and empty").with(json!({"seed": seed})));
            }
        }
    }
    match daemon.status() {
        Ok(rx) => match rx.recv_timeout(Duration::from_secs(3)) {
            Ok(DaemonStatus::Shutdown) => {}
            other => l.violate(Violation::new("X3", "X3/real/status-after-shutdown", format!("status() after shutdown: {other:?}")).with(json!({"seed": seed}))),
        },
        Err(e) => l.violate(Violation::new("X3", "X3/real/status-after-shutdown-refused", format!("status() after shutdown: {e}")).with(json!({"seed": seed}))),
    }
}

pub fn run(report: &Report, tier: &Tier) {
    report.set_rule(
        "Part A: shutdown at every position of every sequence of N commands out of 20 kinds (exhaustive N<=1 quick, N<=2 thorough; sampled to N=8), \
         the sequence released in one iteration or split over up to three, with 0..3 announced services and 0..3 open searches beforehand (in a third of the cases also four more open browses and 1..2 browses plus a hostname search whose receivers were dropped without a stop), \
         optionally a second shutdown; Part A2: 1..4 calls issued on the daemon thread at the moment the k-th goodbye datagram of a shutdown goes out (hook on the simulated send); Part B: real daemon threads on private ports, 2..8 client threads x 5..34 random calls, shutdown after \
         0..6 ms; distinct by full case description (A) / (clients, calls, delay bucket) (B)",
    );
    report.assume("Part B samples OS schedules; the daemon itself is single-threaded, so queue position and iteration boundary are the schedule dimensions that reach its state");
    for r in ["X1", "X2", "X3", "X3-after", "X4", "X5", "X6", "X3b", "X4b", "X4-during-cleanup", "X2-slow-consumer"] {
        report.floor(r, 10);
    }
    let seed = report.seed;
    // Part A exhaustive
    let n_max = if tier.thorough { 2 } else { 1 };
    let mut cases: Vec<CaseA> = Vec::new();
    for n in 0..=n_max {
        for (cmds, pos) in enumerate(n) {
            let len = n + 1;
            // all splits over <= 3 iterations for short sequences
            let mut cut_sets: Vec<Vec<usize>> = vec![vec![]];
            for a in 1..len {
                cut_sets.push(vec![a]);
                for b in a + 1..len {
                    cut_sets.push(vec![a, b]);
                }
            }
            for cuts in cut_sets {
                for (services, searches) in [(0usize, 0usize), (2, 2), (3, 3)] {
                    cases.push(CaseA { cmds: cmds.clone(), pos, cuts: cuts.clone(), services, searches, abandoned: if searches == 3 { 2 } else { 0 }, second_shutdown: false });
                }
            }
        }
    }
    let exhaustive_cases = cases.len() as u64;
    let done = run_parallel(report, exhaustive_cases, threads(), tier.budget_s * 0.45, |i, l| {
        run_case_a(&cases[i as usize], util::mix(seed, i), l);
    });
    report.extra("part_a_exhaustive", json!({"n_max": n_max, "cases": exhaustive_cases, "done": done, "exhaustive": done == exhaustive_cases}));
    // Part A sampled, longer sequences
    let sampled: u64 = if tier.thorough { 300_000 } else { 600 };
    run_parallel(report, sampled, threads(), tier.budget_s * 0.3, |i, l| {
        let mut rng = Rng::new(util::mix(seed, 0xC14_A000 + i));
        let n = 2 + rng.usize(7);
        let cmds: Vec<usize> = (0..n).map(|_| rng.usize(N_CMDS)).collect();
        let pos = rng.usize(n + 1);
        let mut cuts: Vec<usize> = (0..rng.usize(3)).map(|_| 1 + rng.usize(n)).collect();
        cuts.sort_unstable();
        cuts.dedup();
        let case = CaseA { cmds, pos, cuts, services: rng.usize(4), searches: rng.usize(4), abandoned: rng.usize(3), second_shutdown: rng.chance(1, 3) };
        run_case_a(&case, util::mix(seed, 0xC14_B000 + i), l);
    });
    // Part A2: calls accepted in the middle of the clean-up
    let n2: u64 = if tier.thorough { 120_000 } else { 800 };
    run_parallel(report, n2, threads(), tier.budget_s * 0.1, |i, l| {
        cleanup_race_case(util::mix(seed, 0xC14_E000 + i), l);
    });
    // Part A3: unread events in the channel when shutdown comes
    let n3: u64 = if tier.thorough { 10_000 } else { 200 };
    run_parallel(report, n3, threads(), tier.budget_s * 0.05, |i, l| {
        slow_consumer_case(util::mix(seed, 0xC14_F000 + i), l);
    });
    // Part A4: shutdown in the middle of an update of a renamed service
    let n4: u64 = if tier.thorough { 10_000 } else { 200 };
    run_parallel(report, n4, threads(), tier.budget_s * 0.05, |i, l| {
        renamed_update_case(util::mix(seed, 0xC14_D000 + i), l);
    });
    // Part B
    let real: u64 = if tier.thorough { 40_000 } else { 300 };
    run_parallel(report, real, threads().min(8), tier.budget_s * 0.25, |i, l| {
        run_case_b(util::mix(seed, 0xC14_C000 + i), l);
    });
    if tier.thorough || std::env::var("VERIF_C14_TSAN").is_ok() {
        tsan_part(report, seed);
        memcheck_part(report, seed);
    }
}

// ---------------------------------------------------------------------------
// Part A2: calls that arrive while the clean-up of a shutdown is under way
//
// A hook on the simulated send lets the harness issue API calls on the daemon thread at the very
// moment the k-th goodbye datagram goes out, i.e. between the daemon taking `shutdown` off its
// queue and its thread ending: the one window the gate (which works between iterations) cannot
// reach. Such a call was accepted (Ok), so its reply channel must yield or close (X4), and an
// accepted browse / resolve_hostname must not be left without any event for ever.

pub fn cleanup_race_case(seed: u64, l: &mut Local) {
    use std::sync::atomic::{AtomicBool, AtomicU64, Ordering};
    use std::sync::{Arc, Mutex};
    l.evaluations += 1;
    let mut rng = Rng::new(seed);
    let mut w = World::new(seed);
    w.set_stepping(Stepping::Lazy);
    let h = w.add_host(if rng.chance(1, 2) { scen::single_dual() } else { scen::single_v4() });
    let t0 = w.now();
    let services = 1 + rng.usize(3);
    for i in 0..services {
        w.register(h, setup_reg(i));
    }
    let searches = rng.usize(3);
    if searches >= 1 {
        w.browse(h, T1);
    }
    if searches >= 2 {
        w.resolve_hostname(h, HOSTNAME, None);
    }
    w.run_until(t0 + 3000);
    let Some(daemon) = w.hosts[h].daemon.clone() else { return };
    // the calls, issued when the k-th datagram after arming goes out
    let k = 1 + rng.below(2 * services as u64 + 1);
    let picks: Vec<u64> = (0..1 + rng.usize(4)).map(|_| rng.below(8)).collect();
    let armed = Arc::new(AtomicBool::new(false));
    let count = Arc::new(AtomicU64::new(0));
    let late: Arc<Mutex<Vec<(&'static str, Result<Option<Reply>, String>)>>> = Arc::new(Mutex::new(Vec::new()));
    {
        let (armed, count, late, picks) = (armed.clone(), count.clone(), late.clone(), picks.clone());
        let ctx = w.hosts[h].ctx.clone();
        ctx.lock().on_egress = Some(Box::new(move |_sent| {
            if !armed.load(Ordering::SeqCst) {
                return;
            }
            if count.fetch_add(1, Ordering::SeqCst) + 1 != k {
                return;
            }
            let mut out = late.lock().unwrap();
            for p in picks.iter() {
                let r: (&'static str, Result<Option<Reply>, String>) = match p {
                    0 => ("status", daemon.status().map(|x| Some(Reply::Status(x))).map_err(|e| e.to_string())),
                    1 => ("get_metrics", daemon.get_metrics().map(|x| Some(Reply::Metrics(x))).map_err(|e| e.to_string())),
                    2 => ("browse", daemon.browse("_late._udp.local.").map(|x| Some(Reply::Service(x))).map_err(|e| e.to_string())),
                    3 => ("resolve_hostname", daemon.resolve_hostname("late-host.local.", None).map(|x| Some(Reply::Host(x))).map_err(|e| e.to_string())),
                    4 => ("unregister", daemon.unregister("svc0._t._udp.local.").map(|x| Some(Reply::Unreg(x))).map_err(|e| e.to_string())),
                    5 => ("monitor", daemon.monitor().map(|x| Some(Reply::Daemon(x))).map_err(|e| e.to_string())),
                    6 => ("shutdown", daemon.shutdown().map(|x| Some(Reply::Status(x))).map_err(|e| e.to_string())),
                    _ => ("browse_cache", daemon.browse_cache("_late2._udp.local.").map(|x| Some(Reply::Service(x))).map_err(|e| e.to_string())),
                };
                out.push(r);
            }
        }));
    }
    armed.store(true, Ordering::SeqCst);
    let sd = w.shutdown(h);
    w.settle();
    w.run_for(500);
    w.hosts[h].ctx.lock().on_egress = None;
    l.distinct.insert(util::fnv_str(&format!("A2|{services}|{searches}|{k}|{picks:?}")));
    if w.trace.deaths().any(|d| matches!(d.ev, Ev::Death { panicked: true, .. })) {
        let p = w.trace.deaths().next().map(|d| format!("{:?}", d.ev)).unwrap_or_default();
        l.violate(Violation::new("X5", "X5/daemon-panicked/calls-during-clean-up", format!("the daemon thread panicked during shutdown: {}", util::strip_numbers(&p))).with(json!({"seed": seed})));
        return;
    }
    if sd.is_none() || !w.hosts[h].dead {
        l.inconclusive.push(format!("shutdown did not end the daemon thread in a clean-up scenario (seed {seed})"));
        return;
    }
    let late = late.lock().unwrap();
    if late.is_empty() {
        // fewer datagrams than k went out: nothing was issued
        return;
    }
    l.act("X4-during-cleanup");
    let names: Vec<&str> = late.iter().map(|(n, _)| *n).collect();
    let mut open: Vec<&str> = Vec::new();
    for (name, r) in late.iter() {
        if let Ok(Some(reply)) = r {
            let mut got = false;
            if !reply.resolved(&mut got) {
                open.push(name);
            }
        }
    }
    if !open.is_empty() {
        l.violate(
            Violation::new(
                "X4",
                "X4/receiver-open-and-empty/accepted-while-goodbyes-went-out",
                format!("calls accepted while the goodbyes of shutdown were being sent ({names:?}) were never answered: the reply receivers of {open:?} are still open and empty after the daemon thread ended"),
            )
            .with(json!({"seed": seed, "services": services, "searches": searches, "issued_at_datagram": k, "calls": names, "trace": scen::witness(&w.trace, 30)})),
        );
    }
}

// ---------------------------------------------------------------------------
// Part A4: shutdown while a renamed service is being updated
//
// A service that lost a name conflict is announced under its new name; the application registers it again with
// other data (the update is probed for three quarters of a second) and shuts the daemon down in the middle of
// that: what was announced - the new name - is withdrawn on every family.

pub fn renamed_update_case(seed: u64, l: &mut Local) {
    let mut rng = Rng::new(seed);
    let mut w = World::new(seed);
    w.set_stepping(Stepping::Lazy);
    let h = w.add_host_with(scen::single_dual(), |g| g.jitter_const = Some(0));
    w.set_ip_check_interval(h, 3600);
    let t0 = w.now();
    let addrs: Vec<IpAddr> = vec!["10.0.0.5".parse().unwrap(), "fe80::5".parse().unwrap()];
    let label = *rng.pick(&["contested", "Front Desk"]);
    w.register(h, World::reg_info(T1, label, "myhost.local.", &addrs, 3000, &[("k", Some(b"v"))]));
    let inst = scen::wire_name(&format!("{label}.{T1}"));
    w.run_until(t0 + 20 + rng.below(600));
    let mut m = wire::Message::response();
    m.answers.push(wire::srv(&inst, 120, 9, &scen::wire_name("somebody-else.local.")));
    m.answers[0].class |= wire::FLUSH;
    w.inject_msg(h, 2, scen::peer4(77), &m);
    w.run_until(t0 + 4000);
    let mut new_inst = inst.clone();
    new_inst[0] = crate::props::c08::next_instance_label(label.as_bytes());
    let txs = scen::tx_msgs(&w.trace, h);
    let announced_new = |v4: bool| txs.iter().any(|tx| tx.v4 == v4 && tx.msg.is_response() && tx.multicast && tx.msg.answers.iter().any(|r| r.ttl > 0 && r.rtype == wire::T_PTR && matches!(&r.rdata, wire::RData::Ptr(n) if wire::names_eq_nocase(n, &new_inst))));
    let (ann4, ann6) = (announced_new(true), announced_new(false));
    drop(txs);
    // the update, and shutdown while it is being probed
    w.register(h, World::reg_info(T1, label, "myhost.local.", &addrs, 3000, &[("k", Some(b"changed"))]));
    let d = 5 + rng.below(700);
    w.run_for(d);
    let idx = w.trace.entries.len();
    let sd = w.shutdown(h);
    w.settle();
    w.run_for(1000);
    l.evaluations += 1;
    l.distinct.insert(util::fnv_str(&format!("A4|{label}|{}", d / 50)));
    if w.trace.deaths().any(|d| matches!(d.ev, Ev::Death { panicked: true, .. })) {
        let p = w.trace.deaths().next().map(|d| format!("{:?}", d.ev)).unwrap_or_default();
        l.violate(Violation::new("X5", "X5/daemon-panicked/renamed-service-being-updated", format!("the daemon thread panicked during shutdown: {}", util::strip_numbers(&p))).with(json!({"seed": seed})));
        return;
    }
    if sd.is_none() || !w.hosts[h].dead || !(ann4 || ann6) {
        l.count("renamed_update_precondition_not_met", 1);
        return;
    }
    let txs = scen::tx_msgs(&w.trace, h);
    for (v4, announced) in [(true, ann4), (false, ann6)] {
        if !announced {
            continue;
        }
        l.act("X1");
        l.act("X1-renamed-update");
        let byes = txs.iter().filter(|tx| tx.idx > idx && tx.v4 == v4 && tx.msg.is_response() && tx.msg.answers.iter().any(|r| r.ttl == 0 && r.rtype == wire::T_PTR && matches!(&r.rdata, wire::RData::Ptr(n) if wire::names_eq_nocase(n, &new_inst)))).count();
        if byes == 0 {
            l.violate(
                Violation::new("X1", "X1/goodbye-count/none/renamed-service-being-updated", format!("the service was announced as {} over {}; shut down {d} ms into an update of it, the daemon sent no goodbye for that name", wire::escaped(&new_inst), if v4 { "IPv4" } else { "IPv6" }))
                    .with(json!({"seed": seed, "trace": scen::witness_window(&w.trace, w.trace.entries[idx.saturating_sub(1)].t.saturating_sub(800), w.now(), 60)})),
            );
            return;
        }
    }
}

// ---------------------------------------------------------------------------
// Part A3: a slow consumer. The browse channel holds ten events; an application that has not read them yet
// when shutdown comes still gets its SearchStopped once it reads on (the daemon waits for room, as it does for
// every other event).

pub fn slow_consumer_case(seed: u64, l: &mut Local) {
    l.evaluations += 1;
    let mut rng = Rng::new(seed);
    let mut w = World::new(seed);
    w.set_stepping(Stepping::Lazy);
    let h = w.add_host(scen::single_v4());
    w.set_ip_check_interval(h, 3600);
    let Some(chan) = w.browse(h, T1) else { return };
    w.settle();
    w.chans[chan].paused = true;
    // SearchStarted may or may not have been read; every instance brings Found + Resolved
    let instances = 4 + rng.usize(2);
    for k in 0..instances {
        let s = scen::Svc::new(T1, &format!("slow{k}"), &format!("slow{k}-host.local"), [10, 0, 0, 80 + k as u8]);
        w.inject_msg(h, 2, scen::peer4(80 + k as u8), &s.announce());
        w.run_for(20 + rng.below(100));
    }
    let second = if rng.chance(1, 2) { w.resolve_hostname(h, HOSTNAME, None) } else { None };
    if let Some(c) = second {
        w.chans[c].paused = true;
    }
    let unread_before = w.chans[chan].received;
    let sd = w.shutdown(h);
    w.settle();
    w.run_for(300);
    for c in w.chans.iter_mut() {
        c.paused = false;
    }
    w.drain(h);
    l.distinct.insert(util::fnv_str(&format!("A3|{instances}|{}", second.is_some())));
    if w.trace.deaths().any(|d| matches!(d.ev, Ev::Death { panicked: true, .. })) {
        l.violate(Violation::new("X5", "X5/daemon-panicked/slow-consumer", "the daemon thread panicked during shutdown with a slow consumer").with(json!({"seed": seed})));
        return;
    }
    if sd.is_none() || !w.hosts[h].dead {
        l.inconclusive.push(format!("shutdown did not end the daemon thread in a slow-consumer scenario (seed {seed})"));
        return;
    }
    l.act("X2-slow-consumer");
    for (c, what) in [(Some(chan), "browse"), (second, "resolve_hostname")] {
        let Some(c) = c else { continue };
        let events: Vec<&Obs> = w.trace.obs(c).map(|(_, o)| o).collect();
        let stopped = events.iter().filter(|o| matches!(o, Obs::SearchStopped(_) | Obs::HStopped(_))).count();
        if stopped != 1 {
            l.violate(
                Violation::new("X2", format!("X2/search-not-stopped-once/slow-consumer/{what}"), format!("the {what} channel held {} unread events when shutdown came; after reading on it saw SearchStopped {stopped} times ({} events in all)", w.chans[c].received - unread_before.min(w.chans[c].received), events.len()))
                    .with(json!({"seed": seed, "instances": instances, "events": events.iter().map(|o| format!("{o:?}").chars().take(60).collect::<String>()).collect::<Vec<_>>()})),
            );
            return;
        }
    }
}

// ---------------------------------------------------------------------------
// Part B under ThreadSanitizer (thorough tier)
//
// The same real-thread workload, built a second time with `-Zsanitizer=thread` and an
// instrumented standard library, run in short sharded processes. Every report block the
// sanitizer writes is a violation of X5 ("safe under concurrent use"); the behavioural rules
// of Part B are judged in the shards as well (the sanitizer changes the timing, which adds
// schedules). If the instrumented build cannot be produced the part is recorded as not run:
// it never decides anything then.

/// `check C14-partB <cases> <seed> <summary.json>`: what a shard runs.
pub fn run_part_b_only(cases: u64, seed: u64, out: &str) -> i32 {
    let report = Report::new("C14", "tsan-shard", seed);
    run_parallel(&report, cases, 4, 1.0e9, |i, l| {
        run_case_b(util::mix(seed, 0xC14_D000 + i), l);
    });
    match std::fs::write(out, serde_json::to_string(&report.summary()).unwrap()) {
        Ok(()) => 0,
        Err(_) => 2,
    }
}

/// One report block of the sanitizer, reduced to (kind, first frame inside this repository or harness).
pub fn parse_tsan_log(text: &str) -> Vec<(String, String, String)> {
    let mut out = Vec::new();
    for block in text.split("WARNING: ThreadSanitizer: ").skip(1) {
        let kind = block.split(" (pid=").next().unwrap_or("").lines().next().unwrap_or("").trim().to_string();
        let mut frame = String::new();
        for line in block.lines() {
            let t = line.trim_start();
            if !t.starts_with('#') {
                continue;
            }
            if t.contains("mdns_sd::") || t.contains("mdnsverif::") || t.contains("flume::") {
                // "#3 mdns_sd::service_daemon::Zeroconf::run::h0123 /repo/src/..:12" -> function without hash
                let f = t.split_whitespace().nth(1).unwrap_or("");
                let f = match f.rfind("::h") {
                    Some(p) if f.len() - p == 19 => &f[..p],
                    _ => f,
                };
                frame = f.to_string();
                break;
            }
        }
        if frame.is_empty() {
            frame = "no-frame-of-the-crate".into();
        }
        let head: String = block.lines().take(40).collect::<Vec<_>>().join("\n");
        out.push((kind.replace(' ', "-"), frame, head));
    }
    out
}

fn wait_with_limit(child: &mut std::process::Child, limit_s: f64) -> Option<std::process::ExitStatus> {
    let start = Instant::now();
    loop {
        match child.try_wait() {
            Ok(Some(st)) => return Some(st),
            Ok(None) => {}
            Err(_) => return None,
        }
        if start.elapsed().as_secs_f64() > limit_s {
            let _ = child.kill();
            let _ = child.wait();
            return None;
        }
        std::thread::sleep(Duration::from_millis(100));
    }
}

pub fn tsan_part(report: &Report, seed: u64) {
    use std::process::{Command, Stdio};
    let verif_dir = crate::report::VERIF_DIR;
    let harness = env!("CARGO_MANIFEST_DIR");
    let target = format!("{verif_dir}/target/tsan");
    let logs = format!("{target}/logs");
    let _ = std::fs::remove_dir_all(&logs);
    let _ = std::fs::create_dir_all(&logs);
    let not_run = |why: String| {
        println!("NOTE property=C14 the ThreadSanitizer part was not run: {why}");
        report.extra("thread_sanitizer", json!({"status": "not run", "reason": why}));
    };
    let t0 = Instant::now();
    let build_log = format!("{target}/build.log");
    let Ok(log_file) = std::fs::File::create(&build_log) else {
        return not_run(format!("cannot write {build_log}"));
    };
    let Ok(log_file2) = log_file.try_clone() else {
        return not_run("cannot clone the build log handle".into());
    };
    let child = Command::new("cargo")
        .args(["+nightly", "build", "-Zbuild-std", "--target", "x86_64-unknown-linux-gnu", "--offline", "--profile", "checked", "--bin", "check"])
        .current_dir(harness)
        .env("RUSTFLAGS", "-Zsanitizer=thread")
        .env("CARGO_TARGET_DIR", &target)
        .env("CARGO_NET_OFFLINE", "true")
        .stdin(Stdio::null())
        .stdout(Stdio::from(log_file))
        .stderr(Stdio::from(log_file2))
        .spawn();
    let mut child = match child {
        Ok(c) => c,
        Err(e) => return not_run(format!("cargo could not be started: {e}")),
    };
    match wait_with_limit(&mut child, 1200.0) {
        Some(st) if st.success() => {}
        Some(st) => return not_run(format!("the instrumented build failed ({st}); see {build_log}")),
        None => return not_run("the instrumented build did not finish within 20 minutes".into()),
    }
    let build_s = t0.elapsed().as_secs_f64();
    let bin = format!("{target}/x86_64-unknown-linux-gnu/checked/check");
    if !std::path::Path::new(&bin).exists() {
        return not_run(format!("{bin} is missing after the build"));
    }
    let symbolizer = ["/usr/bin/llvm-symbolizer", "/usr/bin/llvm-symbolizer-14", "/usr/lib/llvm-14/bin/llvm-symbolizer"]
        .iter()
        .find(|p| std::path::Path::new(p).exists())
        .map(|p| format!(" external_symbolizer_path={p}"))
        .unwrap_or_default();
    let shards: u64 = 16;
    let cases_per_shard: u64 = 120;
    let mut children = Vec::new();
    for k in 0..shards {
        let out = format!("{logs}/summary{k}.json");
        let opts = format!("halt_on_error=0 exitcode=0 log_path={logs}/shard{k}{symbolizer}");
        let c = Command::new(&bin)
            .args(["C14-partB", &cases_per_shard.to_string(), &util::mix(seed, 0x75A0 + k).to_string(), &out])
            .env("TSAN_OPTIONS", opts)
            .env("VERIF_THREADS", "4")
            .stdin(Stdio::null())
            .stdout(Stdio::null())
            .stderr(Stdio::null())
            .spawn();
        if let Ok(c) = c {
            children.push((k, c, out));
        }
    }
    let mut l = Local::default();
    let mut finished = 0u64;
    let mut calls = 0u64;
    let mut cases = 0u64;
    for (k, mut c, out) in children {
        match wait_with_limit(&mut c, 900.0) {
            Some(_) => {}
            None => {
                l.count("tsan_shards_timed_out", 1);
                continue;
            }
        }
        let Ok(text) = std::fs::read_to_string(&out) else {
            l.count("tsan_shards_without_summary", 1);
            continue;
        };
        let Ok(v) = serde_json::from_str::<serde_json::Value>(&text) else { continue };
        finished += 1;
        cases += v["evaluations"].as_u64().unwrap_or(0);
        calls += v["counters"]["real_calls"].as_u64().unwrap_or(0);
        for viol in v["violations"].as_array().cloned().unwrap_or_default() {
            l.violate(
                Violation::new(viol["rule"].as_str().unwrap_or("X5"), viol["signature"].as_str().unwrap_or("X5/tsan/unknown"), viol["message"].as_str().unwrap_or(""))
                    .with(json!({"under": "ThreadSanitizer", "shard": k, "witness": viol["witness"]})),
            );
        }
    }
    // the sanitizer's own reports
    let mut blocks = 0u64;
    let mut distinct = std::collections::BTreeSet::new();
    if let Ok(rd) = std::fs::read_dir(&logs) {
        for e in rd.flatten() {
            let name = e.file_name().to_string_lossy().to_string();
            if !name.starts_with("shard") {
                continue;
            }
            let Ok(text) = std::fs::read_to_string(e.path()) else { continue };
            for (kind, frame, head) in parse_tsan_log(&text) {
                blocks += 1;
                distinct.insert(format!("{kind}/{frame}"));
                l.violate(
                    Violation::new("X5", format!("X5/tsan/{kind}/{frame}"), format!("ThreadSanitizer reported a {kind} while client threads raced with shutdown (first frame of the crate: {frame})"))
                        .with(json!({"report_head": head, "log": e.path().to_string_lossy()})),
                );
            }
        }
    }
    l.act_n("X5-tsan", calls);
    let status = if finished == 0 { "not run" } else { "run" };
    if finished == 0 {
        println!("NOTE property=C14 the ThreadSanitizer part was not run: no shard finished");
    }
    report.extra(
        "thread_sanitizer",
        json!({
            "status": status, "build_s": (build_s * 10.0).round() / 10.0, "shards_started": shards, "shards_finished": finished,
            "real_daemons": cases, "api_calls_observed": calls, "report_blocks": blocks, "distinct_reports": distinct.into_iter().collect::<Vec<_>>(),
            "options": "RUSTFLAGS=-Zsanitizer=thread, cargo +nightly -Zbuild-std, TSAN_OPTIONS halt_on_error=0 log_path=<per shard>",
        }),
    );
    report.merge(l);
}

/// Error contexts of a memcheck log, reduced to (kind, first frame inside the crate, its
/// dependencies' socket code or the harness).
pub fn parse_memcheck_log(text: &str) -> (u64, Vec<(String, String, String)>) {
    let strip = |l: &str| -> String {
        // "==123== text" -> "text"
        match l.find("== ") {
            Some(p) if l.starts_with("==") => l[p + 3..].to_string(),
            _ => l.trim_start_matches('=').to_string(),
        }
    };
    let lines: Vec<String> = text.lines().map(strip).collect();
    let mut total = 0u64;
    for l in &lines {
        if let Some(rest) = l.strip_prefix("ERROR SUMMARY: ") {
            total = rest.split_whitespace().next().and_then(|n| n.replace(',', "").parse().ok()).unwrap_or(0);
        }
    }
    let mut out = Vec::new();
    let mut i = 0;
    while i < lines.len() {
        let l = &lines[i];
        let is_head = !l.is_empty() && !l.starts_with(' ') && i + 1 < lines.len() && lines[i + 1].trim_start().starts_with("at 0x");
        if is_head {
            let kind = util::strip_numbers(l).replace(' ', "-");
            let mut frame = String::new();
            let mut j = i + 1;
            let mut head = vec![l.clone()];
            while j < lines.len() && (lines[j].trim_start().starts_with("at 0x") || lines[j].trim_start().starts_with("by 0x")) {
                if head.len() < 30 {
                    head.push(lines[j].clone());
                }
                if frame.is_empty() {
                    let t = lines[j].trim_start();
                    if ["mdns_sd::", "mdnsverif::", "flume::", "socket2::", "socket_pktinfo::", "mio::", "if_addrs::"].iter().any(|p| t.contains(p)) {
                        let f = t.splitn(3, ' ').nth(2).unwrap_or("");
                        let f = f.split(" (").next().unwrap_or(f);
                        frame = match f.rfind("::h") {
                            Some(p) if f.len() - p == 19 => f[..p].to_string(),
                            _ => f.to_string(),
                        };
                    }
                }
                j += 1;
            }
            if frame.is_empty() {
                frame = "no-frame-of-the-crate".into();
            }
            out.push((kind, frame, head.join("\n")));
            i = j;
        } else {
            i += 1;
        }
    }
    (total, out)
}

/// Part B once more under valgrind memcheck (the uninstrumented binary of this very run):
/// the real-socket paths through the dependencies' `unsafe` code (recvmsg control messages,
/// socket options, interface enumeration) are only reached here.
pub fn memcheck_part(report: &Report, seed: u64) {
    use std::process::{Command, Stdio};
    let verif_dir = crate::report::VERIF_DIR;
    let logs = format!("{verif_dir}/target/memcheck");
    let _ = std::fs::remove_dir_all(&logs);
    let _ = std::fs::create_dir_all(&logs);
    let not_run = |why: String| {
        println!("NOTE property=C14 the memcheck part was not run: {why}");
        report.extra("memcheck", json!({"status": "not run", "reason": why}));
    };
    let Ok(exe) = std::env::current_exe() else {
        return not_run("own executable unknown".into());
    };
    let shards: u64 = 8;
    let cases_per_shard: u64 = 25;
    let mut children = Vec::new();
    for k in 0..shards {
        let out = format!("{logs}/summary{k}.json");
        let c = Command::new("valgrind")
            .args(["--tool=memcheck", "--error-exitcode=0", "--leak-check=full", "--show-leak-kinds=definite", "--errors-for-leak-kinds=definite", "--num-callers=30"])
            .arg(format!("--log-file={logs}/shard{k}.log"))
            .arg(&exe)
            .args(["C14-partB", &cases_per_shard.to_string(), &util::mix(seed, 0x3E3C + k).to_string(), &out])
            .env("VERIF_THREADS", "4")
            .stdin(Stdio::null())
            .stdout(Stdio::null())
            .stderr(Stdio::null())
            .spawn();
        match c {
            Ok(c) => children.push((k, c, out)),
            Err(e) => return not_run(format!("valgrind could not be started: {e}")),
        }
    }
    let mut l = Local::default();
    let (mut finished, mut cases, mut calls, mut errors) = (0u64, 0u64, 0u64, 0u64);
    let mut distinct = std::collections::BTreeSet::new();
    for (k, mut c, out) in children {
        if wait_with_limit(&mut c, 900.0).is_none() {
            l.count("memcheck_shards_timed_out", 1);
            continue;
        }
        let Ok(v) = std::fs::read_to_string(&out).map_err(|_| ()).and_then(|t| serde_json::from_str::<serde_json::Value>(&t).map_err(|_| ())) else {
            l.count("memcheck_shards_without_summary", 1);
            continue;
        };
        finished += 1;
        cases += v["evaluations"].as_u64().unwrap_or(0);
        calls += v["counters"]["real_calls"].as_u64().unwrap_or(0);
        let log = format!("{logs}/shard{k}.log");
        let Ok(text) = std::fs::read_to_string(&log) else { continue };
        let (total, blocks) = parse_memcheck_log(&text);
        errors += total;
        if total == 0 {
            // loss records that are not errors (possibly lost / still reachable: thread stacks and
            // thread-local storage of threads alive at exit) may still be listed
            continue;
        }
        for (kind, frame, head) in blocks {
            if kind.contains("possibly-lost") || kind.contains("still-reachable") || kind.contains("indirectly-lost") {
                continue;
            }
            distinct.insert(format!("{kind}/{frame}"));
            l.violate(
                Violation::new("X5", format!("X5/memcheck/{kind}/{frame}"), format!("valgrind memcheck reported '{kind}' while client threads raced with shutdown (first frame of the crate or its socket dependencies: {frame})"))
                    .with(json!({"report_head": head, "log": log})),
            );
        }
    }
    l.act_n("X5-memcheck", calls);
    if finished == 0 {
        println!("NOTE property=C14 the memcheck part was not run: no shard finished");
    }
    report.extra(
        "memcheck",
        json!({
            "status": if finished == 0 { "not run" } else { "run" }, "shards_started": shards, "shards_finished": finished, "real_daemons": cases,
            "api_calls_observed": calls, "errors_reported": errors, "distinct_reports": distinct.into_iter().collect::<Vec<_>>(),
            "options": "valgrind --tool=memcheck --leak-check=full --errors-for-leak-kinds=definite over the checked-profile binary",
        }),
    );
    report.merge(l);
}
