//! C13 — stopping a search really stops it, and each channel follows its protocol.
//! Also hosts the "searches" workload shared with C19 (query back-off).

use crate::report::{run_parallel, threads, Local, Report, Violation};
use crate::scen::{self, Svc};
use crate::util::{self, Rng};
use crate::wire::{self, Message};
use crate::world::*;
use crate::Tier;
use serde_json::json;

#[derive(Clone, Debug, PartialEq, Eq)]
pub enum Kind {
    Browse(String),
    BrowseCache(String),
    Resolve(String, Option<u64>),
}

#[derive(Clone, Debug)]
pub struct ChanInfo {
    pub chan: usize,
    pub host: usize,
    pub kind: Kind,
    pub t_start: u64,
    /// Index of the API entry that opened the channel.
    pub idx: usize,
    pub dropped_at: Option<u64>,
}

pub fn channels(trace: &Trace) -> Vec<ChanInfo> {
    let mut v: Vec<ChanInfo> = Vec::new();
    for (idx, e) in trace.entries.iter().enumerate() {
        if let Ev::Api { call, result: ApiResult::Ok, chan } = &e.ev {
            match (call, chan) {
                (ApiCall::Browse(ty), Some(c)) => v.push(ChanInfo { chan: *c, host: e.host, kind: Kind::Browse(ty.clone()), t_start: e.t, idx, dropped_at: None }),
                (ApiCall::BrowseCache(ty), Some(c)) => v.push(ChanInfo { chan: *c, host: e.host, kind: Kind::BrowseCache(ty.clone()), t_start: e.t, idx, dropped_at: None }),
                (ApiCall::ResolveHostname(h, to), Some(c)) => v.push(ChanInfo { chan: *c, host: e.host, kind: Kind::Resolve(h.clone(), *to), t_start: e.t, idx, dropped_at: None }),
                (ApiCall::DropChannel(c), _) => {
                    if let Some(ci) = v.iter_mut().find(|ci| ci.chan == *c) {
                        ci.dropped_at = Some(e.t);
                    }
                }
                _ => {}
            }
        }
    }
    v
}

/// Time at which the search of `ci` was ended by the API (stop / replaced / shutdown), with the cause.
pub fn ended_by_api(trace: &Trace, ci: &ChanInfo) -> Option<(u64, &'static str)> {
    ended_by_api_idx(trace, ci).map(|(t, c, _)| (t, c))
}

/// As [`ended_by_api`], with the index of the trace entry of the ending call.
pub fn ended_by_api_idx(trace: &Trace, ci: &ChanInfo) -> Option<(u64, &'static str, usize)> {
    for (idx, e) in trace.entries.iter().enumerate().skip(ci.idx + 1) {
        if e.host != ci.host {
            continue;
        }
        if let Ev::Api { call, result: ApiResult::Ok, chan } = &e.ev {
            match (&ci.kind, call) {
                (Kind::Browse(ty), ApiCall::StopBrowse(s)) | (Kind::BrowseCache(ty), ApiCall::StopBrowse(s)) if s == ty => return Some((e.t, "stop", idx)),
                (Kind::Browse(ty), ApiCall::Browse(s)) | (Kind::Browse(ty), ApiCall::BrowseCache(s)) | (Kind::BrowseCache(ty), ApiCall::Browse(s)) | (Kind::BrowseCache(ty), ApiCall::BrowseCache(s))
                    if s == ty && *chan != Some(ci.chan) =>
                {
                    return Some((e.t, "replaced", idx))
                }
                (Kind::Resolve(h, _), ApiCall::StopResolveHostname(s)) if s.eq_ignore_ascii_case(h) => return Some((e.t, "stop", idx)),
                (Kind::Resolve(h, _), ApiCall::ResolveHostname(s, _)) if s.eq_ignore_ascii_case(h) && *chan != Some(ci.chan) => return Some((e.t, "replaced", idx)),
                (_, ApiCall::Shutdown) => return Some((e.t, "shutdown", idx)),
                _ => {}
            }
        }
    }
    None
}

pub fn monitor(trace: &Trace, horizon: u64, l: &mut Local) {
    let chans = channels(trace);
    let wit = |from: u64, to: u64| json!({"api": scen::api_log(trace), "trace": scen::witness_window(trace, from, to, 50)});
    for ci in chans.iter() {
        let obs: Vec<(u64, &Obs)> = trace.obs(ci.chan).map(|(e, o)| (e.t, o)).collect();
        let what = match &ci.kind {
            Kind::Browse(_) => "browse",
            Kind::BrowseCache(_) => "browse_cache",
            Kind::Resolve(..) => "resolve_hostname",
        };
        // T1
        if let Some((t, first)) = obs.first() {
            l.act("T1");
            if !matches!(first, Obs::SearchStarted(_) | Obs::HStarted(_)) {
                l.violate(
                    Violation::new("T1", format!("T1/first-event-not-SearchStarted/{what}"), format!("first event on a {what} channel is {first:?}"))
                        .with(wit(ci.t_start, *t + 1)),
                );
            }
        }
        // T2
        let mut found: Vec<&str> = Vec::new();
        for (t, o) in obs.iter() {
            match o {
                Obs::Found(_, inst) => found.push(inst),
                Obs::Resolved(r) => {
                    l.act("T2");
                    if !found.iter().any(|f| *f == r.fullname) {
                        l.violate(
                            Violation::new("T2", "T2/resolved-before-found", format!("ServiceResolved({}) without an earlier ServiceFound on the channel", r.fullname))
                                .with(wit(ci.t_start, *t + 1)),
                        );
                        break;
                    }
                }
                _ => {}
            }
        }
        // T3: finality of SearchStopped
        let stops: Vec<usize> = obs
            .iter()
            .enumerate()
            .filter(|(_, (_, o))| matches!(o, Obs::SearchStopped(_) | Obs::HStopped(_)))
            .map(|(i, _)| i)
            .collect();
        let cache_only = matches!(ci.kind, Kind::BrowseCache(_));
        if let Some(first_stop) = stops.first() {
            l.act("T3-final");
            if !cache_only {
                // nothing but the closing of the channel may follow
                if let Some((t, o)) = obs[first_stop + 1..].iter().find(|(_, o)| !matches!(o, Obs::Closed)) {
                    let cls = match o {
                        Obs::SearchStopped(_) | Obs::HStopped(_) => "second-SearchStopped",
                        Obs::SearchStarted(_) | Obs::HStarted(_) => "SearchStarted-after-stop",
                        _ => "event-after-stop",
                    };
                    l.violate(
                        Violation::new("T3", format!("T3/{cls}/{what}"), format!("{o:?} delivered after SearchStopped on a {what} channel"))
                            .with(wit(obs[*first_stop].0.saturating_sub(50), *t + 50)),
                    );
                }
            }
            // a timeout is announced first
            if let Kind::Resolve(_, Some(_)) = ci.kind {
                if ended_by_api(trace, ci).is_none_or(|(t, _)| t > obs[*first_stop].0) {
                    l.act("T3-timeout-order");
                    let before = if *first_stop > 0 { Some(obs[first_stop - 1].1) } else { None };
                    if !matches!(before, Some(Obs::HTimeout(_))) {
                        l.violate(
                            Violation::new("T3", "T3/stopped-without-SearchTimeout", "a hostname search with a timeout stopped without SearchTimeout immediately before SearchStopped")
                                .with(wit(ci.t_start, obs[*first_stop].0 + 1)),
                        );
                    }
                }
            }
        }
        // T3: a stop produces SearchStopped (if somebody is listening and the daemon lived on)
        if let Some((t_end, cause)) = ended_by_api(trace, ci) {
            let listening = ci.dropped_at.is_none_or(|d| d > t_end);
            let daemon_ok = !trace.deaths().any(|d| d.host == ci.host && d.t <= t_end && matches!(d.ev, Ev::Death { panicked: true, .. }));
            let already = stops.first().is_some_and(|i| obs[*i].0 < t_end);
            if listening && daemon_ok && !already && cause != "replaced" && horizon > t_end && !(cache_only && cause == "stop") {
                l.act("T3-stop");
                let got = stops.iter().any(|i| obs[*i].0 >= t_end && obs[*i].0 <= t_end + 60);
                if !got {
                    l.violate(
                        Violation::new("T3", format!("T3/no-SearchStopped-after-{cause}/{what}"), format!("{cause} of a {what} did not deliver SearchStopped"))
                            .with(wit(t_end.saturating_sub(10), t_end + 100)),
                    );
                }
            }
        }
    }

    // T4 / T6: queries after the end of a search
    for host in 0..trace.entries.iter().map(|e| e.host + 1).max().unwrap_or(0) {
        let txs = scen::tx_msgs(trace, host);
        // timeline of "is a regular search for X running" from the API history and observed timeouts
        for ci in chans.iter().filter(|c| c.host == host) {
            let (name, qtypes): (wire::Name, Vec<u16>) = match &ci.kind {
                Kind::Browse(ty) | Kind::BrowseCache(ty) => (scen::wire_name(ty), vec![wire::T_PTR]),
                Kind::Resolve(h, _) => (scen::wire_name(h), vec![wire::T_A, wire::T_AAAA]),
            };
            // end of this search: API stop/shutdown, or the observed SearchStopped (timeout)
            let api_end = ended_by_api(trace, ci);
            let obs_stop = trace
                .obs(ci.chan)
                .find(|(_, o)| matches!(o, Obs::SearchStopped(_) | Obs::HStopped(_)))
                .map(|(e, _)| e.t);
            let cache_only = matches!(ci.kind, Kind::BrowseCache(_));
            let t_end = match (api_end, obs_stop, cache_only) {
                (_, _, true) => Some(ci.t_start), // T6: never any query
                (Some((t, "replaced")), _, _) => {
                    let _ = t;
                    None // the replacing search owns the questions from then on
                }
                (Some((t, _)), Some(s), _) => Some(t.min(s)),
                (Some((t, _)), None, _) => Some(t),
                (None, Some(s), _) => Some(s),
                (None, None, _) => None,
            };
            let Some(t_end) = t_end else { continue };
            let end_idx = if cache_only {
                ci.idx
            } else {
                ended_by_api_idx(trace, ci).map(|(_, _, i)| i).unwrap_or(ci.idx)
            };
            // until a new regular search for the same name starts
            let next_start = chans
                .iter()
                .filter(|c| c.host == host && c.chan != ci.chan && c.t_start >= t_end && c.idx > end_idx && !matches!(c.kind, Kind::BrowseCache(_)))
                .filter(|c| match (&c.kind, &ci.kind) {
                    (Kind::Browse(a), Kind::Browse(b)) | (Kind::Browse(a), Kind::BrowseCache(b)) => a == b,
                    (Kind::Resolve(a, _), Kind::Resolve(b, _)) => a.eq_ignore_ascii_case(b),
                    _ => false,
                })
                .map(|c| c.t_start)
                .min()
                .unwrap_or(u64::MAX);
            if cache_only {
                // T6 applies only while no regular browse of the type is running
                let regular_running = chans.iter().any(|c| {
                    c.host == host
                        && matches!(&c.kind, Kind::Browse(t) if Some(t) == (if let Kind::BrowseCache(x) = &ci.kind { Some(x) } else { None }))
                        && c.t_start <= ci.t_start
                        && ended_by_api(trace, c).is_none_or(|(t, cause)| t > ci.t_start || cause == "replaced")
                });
                if regular_running {
                    continue;
                }
                l.act("T6");
            } else {
                l.act("T4");
            }
            // the command that ends the search is executed in the iteration after the call:
            // queries strictly after t_end are offences; at t_end only if sent after the stop was processed
            let stop_iter = if cache_only {
                Some(trace.entries[ci.idx].iter + 1)
            } else {
                ended_by_api_idx(trace, ci)
                    .filter(|(t, _, _)| *t == t_end)
                    .map(|(_, _, i)| trace.entries[i].iter + 1)
            };
            for tx in txs.iter().filter(|tx| tx.t >= t_end && tx.t < next_start && tx.msg.is_query()) {
                if tx.t == t_end && stop_iter.is_none_or(|si| tx.iter <= si) && !cache_only {
                    continue;
                }
                if cache_only && tx.t == t_end && stop_iter.is_some_and(|si| tx.iter < si) {
                    continue;
                }
                // while a cache-only browse of the same type is open the query is that search's business (judged by T6 there)
                if !cache_only
                    && chans.iter().any(|c| {
                        c.host == host
                            && matches!((&c.kind, &ci.kind), (Kind::BrowseCache(a), Kind::Browse(b)) if a == b)
                            && c.t_start <= tx.t
                            && c.idx > end_idx
                            && ended_by_api(trace, c).is_none_or(|(t, _)| t >= tx.t)
                    })
                {
                    continue;
                }
                if qtypes.iter().any(|qt| scen::has_question(tx.msg, &name, *qt)) {
                    let (rule, sig) = if cache_only {
                        // what made the daemon ask? a refresh mark of a cached PTR of that type, a new
                        // interface, or something else (e.g. the browse itself)
                        let hist = crate::model::Hist::build(trace, host, &[]);
                        let at_mark = hist
                            .lives_of(|id| id.rtype == wire::T_PTR && wire::names_eq_nocase(&id.name, &name))
                            .any(|(_, life)| {
                                life.receptions.iter().any(|(t_rx, ttl)| {
                                    [800u64, 850, 900, 950].iter().any(|p| {
                                        let m = t_rx + crate::model::effective_ttl(*ttl) * p;
                                        tx.t >= m && tx.t <= m + 60
                                    })
                                })
                            });
                        let at_ifadd = trace
                            .entries
                            .iter()
                            .any(|e| e.host == host && e.t == tx.t && matches!(e.ev, Ev::Obs { obs: Obs::IpAdd(_), .. }));
                        let why = if at_mark {
                            "refresh-of-cached-record"
                        } else if at_ifadd {
                            "new-interface"
                        } else {
                            "other"
                        };
                        ("T6", format!("T6/query-for-cache-only-browse/{why}"))
                    } else {
                        let what = match &ci.kind {
                            Kind::Resolve(h, to) => format!(
                                "resolve_hostname/{}/{}",
                                if h.chars().any(|c| c.is_ascii_uppercase()) { "mixed-case" } else { "lower-case" },
                                match (api_end, to) {
                                    (Some((_, c)), _) => c,
                                    (None, Some(_)) => "timeout",
                                    _ => "end",
                                }
                            ),
                            _ => format!("browse/{}", api_end.map(|(_, c)| c).unwrap_or("end")),
                        };
                        ("T4", format!("T4/query-after-end/{what}"))
                    };
                    l.violate(
                        Violation::new(rule, sig, format!("a query for {} was sent {} ms after the search ended", wire::escaped(&name), tx.t - t_end))
                            .with(json!({"api": scen::api_log(trace), "trace": scen::witness_window(trace, t_end.saturating_sub(20), tx.t + 5, 50)})),
                    );
                    break;
                }
            }
        }
    }

    // T5: a re-browse after a stop replays nothing before new packets arrive
    for ci in chans.iter() {
        let Kind::Browse(ty) = &ci.kind else { continue };
        // was there an earlier, stopped search of this type?
        let prev_stop = chans
            .iter()
            .filter(|c| c.host == ci.host && c.chan != ci.chan && c.t_start < ci.t_start && matches!(&c.kind, Kind::Browse(t) | Kind::BrowseCache(t) if t == ty))
            .filter_map(|c| ended_by_api(trace, c).filter(|(_, cause)| *cause == "stop").map(|(t, _)| t))
            .filter(|t| *t <= ci.t_start)
            .max();
        let Some(t_stop) = prev_stop else { continue };
        // first response delivered after the stop
        let first_rx = trace
            .rxs(ci.host)
            .filter(|(e, rx)| e.t >= t_stop && wire::parse_lenient(&rx.data).is_ok_and(|(m, _)| m.is_response()))
            .map(|(e, _)| e.t)
            .next()
            .unwrap_or(u64::MAX);
        l.act("T5");
        if let Some((e, o)) = trace
            .obs(ci.chan)
            .find(|(e, o)| e.t < first_rx && matches!(o, Obs::Found(..) | Obs::Resolved(_)))
        {
            l.violate(
                Violation::new("T5", "T5/replay-after-stop", format!("{o:?} reported on a new browse before any packet arrived after the previous stop"))
                    .with(wit(t_stop, e.t + 1)),
            );
        }
    }
    let _ = horizon;
}

// ---------------------------------------------------------------------------
// The "searches" workload (also used by C19 and C12)

pub struct Made {
    pub world: World,
    pub horizon: u64,
    pub desc: String,
}

pub const TYPES: [&str; 2] = ["_t._udp.local.", "_http._tcp.local."];

fn case_variant(rng: &mut Rng, s: &str) -> String {
    match rng.below(4) {
        0 => s.to_ascii_uppercase().replace(".LOCAL.", ".local."),
        1 => {
            let mut out = String::new();
            for (i, c) in s.chars().enumerate() {
                out.push(if i % 2 == 0 { c.to_ascii_uppercase() } else { c });
            }
            out.replace(".LoCaL.", ".local.").replace(".lOcAl.", ".local.")
        }
        _ => s.to_string(),
    }
}

/// API histories of searches with packet arrivals. `long` = observe for hours after the last call.
pub fn scenario(seed: u64, stepping: Option<Stepping>, long: bool) -> Made {
    let mut rng = Rng::new(seed);
    let mut w = World::new(seed);
    let pick = rng.below(5);
    let s = stepping.unwrap_or(match pick {
        // eager stepping over hours costs hundreds of thousands of idle iterations
        0 if !long => Stepping::Eager(10),
        1 if !long => Stepping::Eager(50),
        _ => Stepping::Lazy,
    });
    w.set_stepping(s);
    let ifs = if rng.chance(1, 3) { scen::single_dual() } else { scen::single_v4() };
    let h = w.add_host(ifs);
    let t0 = w.now();
    // keep the periodic interface check out of long runs (it takes effect after the first check)
    w.set_ip_check_interval(h, 3600);
    // (one of the names has a capital letter outside ASCII: applications pass what users typed)
    let hosts = ["alpha.local.", "beta.local.", "\u{c9}cole-Gamma.local."];
    // services of the browsed types live on hosts that nobody resolves by name
    let svcs: Vec<Svc> = (0..3)
        .map(|i| {
            let mut s = Svc::new(TYPES[i % 2], &format!("inst{i}"), &format!("srvhost{i}.local"), [10, 0, 0, 30 + i as u8]);
            // (a PTR with TTL 1 lives for a second: the crate treats that whole second as "about to expire")
            s.ttl_ptr = *rng.pick(&[1u32, 2, 10, 120, 4500, 10, 120, 4500]);
            s.ttl_srv = *rng.pick(&[10u32, 120]);
            s.ttl_addr = s.ttl_srv;
            s.ttl_txt = s.ttl_ptr;
            s
        })
        .collect();
    let n_ops = 3 + rng.usize(9);
    let mut t = 0u64;
    let mut desc = format!("{:?} ops:", w.stepping);
    let mut open: Vec<usize> = Vec::new();
    for _ in 0..n_ops {
        // times cluster around retransmission instants
        t += match rng.below(6) {
            0 => 0,
            1 => 1000 - (t % 1000) - 1,
            2 => 1000 - (t % 1000),
            3 => 1000 - (t % 1000) + 1,
            4 => rng.below(400),
            _ => rng.below(5000),
        };
        w.run_until(t0 + t);
        match rng.below(14) {
            0..=2 => {
                let ty = *rng.pick(&TYPES);
                if let Some(c) = w.browse(h, ty) {
                    open.push(c);
                }
                desc.push_str(" browse");
            }
            3 => {
                let ty = *rng.pick(&TYPES);
                if let Some(c) = w.browse_cache(h, ty) {
                    open.push(c);
                }
                desc.push_str(" browse_cache");
            }
            4 | 5 => {
                let ty = *rng.pick(&TYPES);
                w.stop_browse(h, ty);
                desc.push_str(" stop_browse");
            }
            6 | 7 => {
                let base = *rng.pick(&hosts);
                let name = case_variant(&mut rng, base);
                let timeout = *rng.pick(&[None, None, None, Some(1u64), Some(1500), Some(3_600_000), Some(7000), Some(1001), Some(1003), Some(3002), Some(0)]);
                if let Some(c) = w.resolve_hostname(h, &name, timeout) {
                    open.push(c);
                }
                desc.push_str(if timeout.is_some() { " resolve(timeout)" } else { " resolve" });
            }
            8 | 9 => {
                let base = *rng.pick(&hosts);
                let name = case_variant(&mut rng, base);
                w.stop_resolve_hostname(h, &name);
                desc.push_str(" stop_resolve");
            }
            10 | 11 => {
                // a responder announces a service of a browsed type
                let s = rng.pick(&svcs).clone();
                w.inject_msg(h, 2, scen::peer4(s.v4[0][3]), &s.announce());
                desc.push_str(" announce");
            }
            12 => {
                // somebody answers for one of the host names (any letter case)
                let base = *rng.pick(&hosts);
                let name = case_variant(&mut rng, base);
                let mut m = Message::response();
                m.answers.push(wire::a(&scen::wire_name(&name), *rng.pick(&[10u32, 120]), [10, 0, 0, 60 + rng.below(3) as u8]));
                w.inject_msg(h, 2, scen::peer4(60), &m);
                desc.push_str(" host-answer");
            }
            _ => {
                if !open.is_empty() && rng.chance(1, 2) {
                    let c = open.swap_remove(rng.usize(open.len()));
                    w.drop_chan(c);
                    desc.push_str(" drop");
                }
            }
        }
    }
    if rng.chance(1, 5) {
        w.run_for(rng.below(3000));
        w.shutdown(h);
        desc.push_str(" shutdown");
    }
    let tail = if long { 2 * 3600 * 1000 + rng.below(3_600_000) } else { 20_000 };
    let horizon = t0 + t + tail;
    w.run_until(horizon);
    Made { world: w, horizon, desc }
}

/// T6 beyond the type's own question: a cache-only browse is told about an instance piece by
/// piece (a lone PTR, later an SRV without address), an interface appears, cached records pass
/// their refresh marks - and still no question about the type, the instance or its host leaves.
pub fn cache_only_case(seed: u64, l: &mut Local) {
    let mut rng = Rng::new(seed);
    let mut w = World::new(seed);
    w.set_stepping(Stepping::Lazy);
    let h = w.add_host(scen::single_v4());
    w.set_ip_check_interval(h, 1);
    let t0 = w.now();
    let ty = "_quiet._udp.local.";
    // sometimes the cache already holds an instance of the type that is found but not resolved (unsolicited
    // records are accepted and a PTR, or PTR and SRV, arrived before): the cache-only browse starts on it
    let precached = rng.chance(1, 3);
    if precached || rng.chance(1, 3) {
        w.accept_unsolicited(h, true);
    }
    let mut s = scen::Svc::new(ty, "told", "told-host.local", [10, 0, 0, 35]);
    s.ttl_ptr = *rng.pick(&[4u32, 10, 4500]);
    s.ttl_srv = *rng.pick(&[4u32, 10, 120]);
    s.ttl_addr = s.ttl_srv;
    let mut desc = String::from("cache-only:");
    if precached {
        s.ttl_ptr = 4500;
        s.ttl_srv = 120;
        w.run_until(t0 + 100 + rng.below(300));
        let mut m = wire::Message::response();
        m.answers.push(s.ptr());
        if rng.chance(1, 2) {
            m.answers.push(s.srv());
            m.answers.push(s.txt());
            desc.push_str(" cached-before:ptr+srv+txt");
        } else {
            desc.push_str(" cached-before:ptr");
        }
        w.inject_msg(h, 2, scen::peer4(35), &m);
        w.run_until(t0 + 600 + rng.below(300));
    }
    let Some(_chan) = w.browse_cache(h, ty) else { return };
    w.run_until(t0 + 5500);
    let mut events: Vec<(u64, u8)> = vec![(5600 + rng.below(500), 0)];
    if rng.chance(2, 3) {
        events.push((6200 + rng.below(1500), 1));
    }
    if rng.chance(1, 2) {
        events.push((6500 + rng.below(3000), 2));
    }
    if rng.chance(1, 3) {
        events.push((8000 + rng.below(2000), 3));
    }
    events.sort();
    for (t, k) in events {
        w.run_until(t0 + t);
        let mut m = wire::Message::response();
        match k {
            0 => {
                m.answers.push(s.ptr());
                desc.push_str(" ptr");
            }
            1 => {
                m.answers.push(s.srv());
                m.answers.push(s.txt());
                desc.push_str(" srv+txt");
            }
            3 => {
                m.answers = s.records();
                desc.push_str(" complete");
            }
            _ => {
                let ifs = vec![IfSpec::new("eth0", 2, 0, &[("10.0.0.5", 24)]), IfSpec::new("eth1", 3, 1, &[("192.168.1.5", 24)])];
                w.set_ifs(h, ifs, "interface-added");
                desc.push_str(" interface-added");
                continue;
            }
        }
        w.inject_msg(h, 2, scen::peer4(35), &m);
    }
    let horizon = t0 + 22_000;
    w.run_until(horizon);
    l.evaluations += 1;
    l.distinct.insert(util::fnv_str(&format!("{desc}|{}|{}", s.ttl_ptr, s.ttl_srv)));
    if w.trace.deaths().any(|d| matches!(d.ev, Ev::Death { panicked: true, .. })) {
        l.inconclusive.push(format!("daemon died in a C13 cache-only scenario (seed {seed})"));
        return;
    }
    l.act("T6");
    let txs = scen::tx_msgs(&w.trace, 0);
    let ty_name = scen::wire_name(ty);
    for tx in txs.iter().filter(|tx| tx.msg.is_query()) {
        let concerned = tx.msg.questions.iter().find(|q| wire::names_eq_nocase(&q.name, &ty_name) || wire::names_eq_nocase(&q.name, &s.inst) || wire::names_eq_nocase(&q.name, &s.host));
        if let Some(q) = concerned {
            let at_ifadd = w.trace.entries.iter().any(|e| e.t == tx.t && matches!(e.ev, Ev::Obs { obs: Obs::IpAdd(_), .. })) || w.trace.entries.iter().any(|e| e.t + 1100 >= tx.t && e.t <= tx.t && matches!(e.ev, Ev::IfEdit { .. }) && e.t > t0);
            let why = if wire::names_eq_nocase(&q.name, &ty_name) {
                if at_ifadd { "new-interface" } else { "refresh-of-cached-record" }
            } else if wire::names_eq_nocase(&q.name, &s.inst) {
                "question-about-an-instance"
            } else {
                "question-about-a-host"
            };
            l.violate(
                Violation::new("T6", format!("T6/query-for-cache-only-browse/{why}"), format!("only a cache-only browse of {ty} is open, yet a question for {} (type {}) was sent at +{} ms", wire::escaped(&q.name), q.qtype, tx.t - t0))
                    .with(json!({"scenario": desc, "trace": scen::witness_window(&w.trace, tx.t.saturating_sub(3000), tx.t + 5, 40)})),
            );
            return;
        }
    }
}

/// T7: "and forgets the records it cached for the stopped browse", read off the hooked cache right after
/// `stop_browse`: no PTR of the type, no SRV/TXT of its instances, no address of their hosts is left
/// (nothing else is searching for them).
pub fn forget_case(seed: u64, l: &mut Local) {
    let mut rng = Rng::new(seed);
    let mut w = World::new(seed);
    w.set_stepping(Stepping::Lazy);
    let dual = rng.chance(1, 3);
    let h = w.add_host(if dual { scen::single_dual() } else { scen::single_v4() });
    w.set_ip_check_interval(h, 3600);
    let ty = "_forget._udp.local.";
    let other = "_keep._udp.local.";
    if w.browse(h, ty).is_none() {
        return;
    }
    let with_other = rng.chance(1, 2);
    if with_other {
        w.browse(h, other);
    }
    w.run_for(200 + rng.below(700));
    // (half of the runs with a second search: its instance lives on a host of its own, or on one of the hosts of
    // the type that will be stopped - that host's addresses are still needed then, the other hosts' are not)
    let shared_host = with_other && util::mix(seed, 0x5A) % 2 == 0;
    let n = if shared_host { 2 + rng.usize(3) } else { 1 + rng.usize(3) };
    let capitals = rng.chance(1, 2);
    let mut svcs = Vec::new();
    for i in 0..n {
        // (names as their owners spell them)
        let label = if rng.chance(1, 2) { format!("Inst{i} Lobby") } else { format!("inst{i}") };
        let host = if capitals { format!("Forget-HOST{i}.local") } else { format!("forget-host{i}.local") };
        let mut s = scen::Svc::new(ty, &label, &host, [10, 0, 0, 40 + i as u8]);
        if dual && rng.chance(1, 2) {
            s.v6.push([0xfe, 0x80, 0, 0, 0, 0, 0, 0, 0, 0, 0, 0, 0, 0, 0, 0x40 + i as u8]);
        }
        s.ttl_ptr = *rng.pick(&[120u32, 4500]);
        s.ttl_srv = 120;
        s.ttl_addr = 120;
        w.inject_msg(h, 2, scen::peer4(40 + i as u8), &s.announce());
        w.run_for(50 + rng.below(350));
        svcs.push(s);
    }
    let shared_idx = (util::mix(seed, 0x5B) % n as u64) as usize;
    if with_other {
        let s = if shared_host {
            let mut k = scen::Svc::new(other, "kept", &svcs[shared_idx].host_str(), svcs[shared_idx].v4[0]);
            k.v6 = svcs[shared_idx].v6.clone();
            k
        } else {
            scen::Svc::new(other, "kept", "Keep-Host.local", [10, 0, 0, 60])
        };
        w.inject_msg(h, 2, scen::peer4(60), &s.announce());
    }
    w.run_for(1000 + rng.below(2000));
    w.stop_browse(h, ty);
    w.settle();
    w.run_for(20 + rng.below(200));
    let snap = w.snapshot(h);
    l.evaluations += 1;
    l.distinct.insert(util::fnv_str(&format!("forget|{n}|{capitals}|{dual}|{with_other}|{shared_host}")));
    if w.trace.deaths().any(|d| matches!(d.ev, Ev::Death { panicked: true, .. })) {
        l.inconclusive.push(format!("daemon died in a C13 stop-and-forget scenario (seed {seed})"));
        return;
    }
    let Some(snap) = snap else { return };
    l.act("T7");
    let left = snap.cache_records.iter().find_map(|r| {
        let name = r.name.trim_end_matches('.').to_lowercase();
        let is = |x: &str| x.trim_end_matches('.').to_lowercase() == name;
        match r.map {
            "ptr" if is(ty) => Some(("ptr", r)),
            "srv" | "txt" if svcs.iter().any(|s| is(&s.fullname())) => Some((if r.map == "srv" { "srv" } else { "txt" }, r)),
            "addr" if svcs.iter().enumerate().any(|(k, s)| is(&s.host_str()) && !(shared_host && k == shared_idx)) => Some(("address", r)),
            _ => None,
        }
    });
    if let Some((what, r)) = left {
        l.violate(
            Violation::new(
                "T7",
                format!("T7/record-of-stopped-browse-still-cached/{what}/{}{}", if capitals { "host-name-with-capitals" } else { "lower-case-host-name" }, if shared_host { "/another-host-shared-with-an-open-search" } else { "" }),
                format!("after stop_browse({ty}) the cache still holds {} (type {}, {})", r.name, r.ty, r.rdata),
            )
            .with(json!({"instances": svcs.iter().map(|s| format!("{} on {}", s.fullname(), s.host_str())).collect::<Vec<_>>(), "other_browse_open": with_other,
                         "cache": snap.cache_records.iter().map(|r| format!("{} {} t{} {}", r.map, r.name, r.ty, r.rdata)).collect::<Vec<_>>(), "trace": scen::witness(&w.trace, 30)})),
        );
    }
}

pub fn run_one(seed: u64, long: bool, l: &mut Local) {
    // a fifth of the short histories are run by a daemon that is woken late (by up to 2, 40 or 400 ms), as a
    // loaded machine does: none of the rules below speaks of exact times
    let late = if !long && seed % 5 == 4 { Some(Stepping::Oversleep([2u64, 40, 400][(seed / 5 % 3) as usize])) } else { None };
    let made = scenario(seed, late, long);
    l.evaluations += 1;
    let w = &made.world;
    l.count("daemon_iterations", w.total_iterations);
    l.count("virtual_s", (made.horizon - w.trace.entries.first().map(|e| e.t).unwrap_or(made.horizon)) / 1000);
    l.count("events_observed", w.trace.entries.iter().filter(|e| matches!(e.ev, Ev::Obs { .. })).count() as u64);
    if w.trace.deaths().any(|d| matches!(d.ev, Ev::Death { panicked: true, .. })) {
        l.inconclusive.push(format!("daemon died in a C13 scenario (seed {seed})"));
        return;
    }
    l.distinct.insert(util::fnv_str(&made.desc));
    if l.samples.len() < 2 {
        l.samples.push(json!({"scenario": made.desc, "api": scen::api_log(&w.trace)}));
    }
    monitor(&w.trace, made.horizon, l);
}

pub fn run(report: &Report, tier: &Tier) {
    report.set_rule(
        "API histories of 3..11 calls among browse / browse_cache / stop_browse / resolve_hostname (no timeout, 0, 1 ms, 1001 ms, 1003 ms, 1.5 s, 3002 ms, 7 s, 1 h; \
         lower, upper and mixed case) / stop_resolve_hostname / dropped receivers / shutdown, interleaved with announcements and host answers, \
         call times clustered around the retransmission instants (±1 ms); observed for 20 s or for 2-3 virtual hours after the last call; \
         lazy and eager stepping; plus stop_browse after 1..3 resolved instances (names and host names with capitals in half of the cases, a second browse of another type open or not): the hooked cache holds nothing of the stopped type afterwards (T7); distinct by (stepping, sequence of operation kinds)",
    );
    report.assume("services of browsed types live on hosts nobody resolves by name, so an A/AAAA question identifies the hostname search");
    for r in ["T1", "T2", "T3-final", "T3-stop", "T4", "T5", "T6", "T7"] {
        report.floor(r, 10);
    }
    report.floor("T3-timeout-order", 3);
    let seed = report.seed;
    let n: u64 = if tier.thorough { 300_000 } else { 3_000 };
    run_parallel(report, n, threads(), tier.budget_s * 0.9, |i, l| {
        run_one(util::mix(seed, 0xC13_0000 + i), i % 4 == 0, l);
    });
    // a cache-only browse told about an instance piece by piece, an interface appearing, refresh marks passing
    let n2: u64 = if tier.thorough { 60_000 } else { 500 };
    run_parallel(report, n2, threads(), tier.budget_s * 0.1, |i, l| {
        cache_only_case(util::mix(seed, 0xC13_6000 + i), l);
    });
    // what a stopped browse leaves in the cache
    let n3: u64 = if tier.thorough { 60_000 } else { 500 };
    run_parallel(report, n3, threads(), tier.budget_s * 0.1, |i, l| {
        forget_case(util::mix(seed, 0xC13_7000 + i), l);
    });
}
