//! C10 — known answers suppress exactly what they should, on both sides.
//!
//! Responder side (K1/K2): the responder model of C06 with queries that carry known
//! answers on both sides of the half-TTL boundary, near misses included.
//! Querier side (K3–K5): every query a browsing daemon sends is parsed; its known answers
//! must be shared records the delivered-record history says are held with at least half
//! of their life left, written with the remaining TTL, on every interface and family.

use crate::model::Hist;
use crate::props::browser;
use crate::props::c06;
use crate::report::{run_parallel, threads, Local, Report, Violation};
use crate::scen::{self, Svc};
use crate::util::{self, Rng};
use crate::wire::{self, RData};
use crate::world::*;
use crate::Tier;
use serde_json::json;

pub struct Made {
    pub world: World,
    pub desc: String,
    pub horizon: u64,
}

/// A PTR of TTL `ttl` is cached, then the type is browsed again when the record is `age_ms` old.
pub fn querier_scenario(seed: u64, ttl: u32, age_ms: u64) -> Made {
    let mut rng = Rng::new(seed);
    let mut w = World::new(seed);
    w.set_stepping(Stepping::Lazy);
    let ifs = match rng.below(3) {
        0 => scen::single_v4(),
        1 => scen::single_dual(),
        _ => scen::two_v4(),
    };
    let h = w.add_host(ifs.clone());
    w.set_ip_check_interval(h, 3600);
    w.browse(h, browser::TY);
    w.run_for(rng.below(400));
    let n = 1 + rng.usize(3);
    let mut desc = format!("ifs={} ttl={ttl} age={age_ms}ms instances={n}", ifs.len());
    let t_rx = w.now();
    for i in 0..n {
        let mut s = Svc::new(browser::TY, &format!("ka{i}"), &format!("kahost{i}.local"), [10, 0, 0, 80 + i as u8]);
        s.ttl_ptr = if i == 0 { ttl } else { *rng.pick(&[ttl, ttl * 2, 4500]) };
        // some responders (wrongly) set the cache-flush bit on a PTR: such a record must never be listed
        let mut m = s.announce();
        if i == 2 {
            m.answers[0].class |= wire::FLUSH;
            desc.push_str(" (instance 2 has a cache-flush PTR)");
        }
        w.inject_msg(h, 2, scen::peer4(80 + i as u8), &m);
    }
    w.run_until(t_rx + age_ms);
    // browse again: the initial query of the new search lists what is known
    w.browse(h, browser::TY);
    let horizon = w.now() + (ttl as u64 * 1000).min(40_000) + 2000;
    w.run_until(horizon);
    Made { world: w, desc, horizon }
}

pub fn querier_monitor(made: &Made, l: &mut Local) {
    let trace = &made.world.trace;
    let host = 0;
    let hist = Hist::build(trace, host, &[]);
    let txs = scen::tx_msgs(trace, host);
    let ifs = trace.ifs_at(host, made.horizon);
    let mut active: Vec<(u32, bool)> = Vec::new();
    for i in ifs.iter() {
        for v4 in [true, false] {
            if i.has_family(v4) {
                active.push((i.index, v4));
            }
        }
    }
    let mut query_instants: Vec<(u64, String)> = Vec::new();
    for tx in txs.iter().filter(|tx| tx.msg.is_query() && tx.msg.authorities.is_empty()) {
        let qkey = tx.msg.questions.iter().map(|q| format!("{}/{}", wire::escaped(&wire::lower(&q.name)), q.qtype)).collect::<Vec<_>>().join(",");
        if !query_instants.contains(&(tx.t, qkey.clone())) {
            query_instants.push((tx.t, qkey));
        }
        for k in tx.msg.answers.iter() {
            l.act("K3");
            let wit = || json!({"scenario": made.desc, "query": render_msg(tx.msg), "at_ms": tx.t - EPOCH, "trace": scen::witness_window(trace, tx.t.saturating_sub(3000), tx.t, 30)});
            if k.flush() {
                l.violate(Violation::new("K3", "K3/known-answer-with-cache-flush-bit", format!("a cache-flush (unique) record is listed as a known answer: {}", wire::escaped(&k.name))).with(wit()));
                continue;
            }
            // must be held: same owner/type/rdata, shared (no flush bit when received)
            let held: Vec<_> = hist
                .lives_of(|id| id.rtype == k.rtype && wire::names_eq_nocase(&id.name, &k.name) && id.rdata == k.rdata && (id.class & wire::FLUSH) == 0)
                .filter(|(_, life)| life.from <= tx.t && tx.t < life.until + 1)
                .collect();
            if held.is_empty() {
                let unique_held = hist.lives_of(|id| id.rtype == k.rtype && wire::names_eq_nocase(&id.name, &k.name) && id.rdata == k.rdata).any(|(_, life)| life.from <= tx.t && tx.t < life.until + 1);
                l.violate(
                    Violation::new(
                        "K3",
                        if unique_held { "K3/unique-record-listed-as-known-answer" } else { "K3/known-answer-not-held" },
                        format!("the query lists {} -> {} which the daemon {}", wire::escaped(&k.name), render_rdata(&k.rdata), if unique_held { "holds only as a cache-flush record" } else { "does not hold" }),
                    )
                    .with(wit()),
                );
                continue;
            }
            // at least half of the life left (lenient for one second around the half)
            let life = held.iter().map(|(_, l)| *l).max_by_key(|l| l.expiry_at(tx.t)).unwrap();
            let (t_rx, ttl) = life.receptions.iter().filter(|(t, _)| *t <= tx.t).next_back().copied().unwrap_or((life.from, life.ttl));
            let full = 1000 * crate::model::effective_ttl(ttl);
            let age = tx.t - t_rx;
            if age > full / 2 + 1000 {
                l.violate(
                    Violation::new("K3", "K3/known-answer-past-half-life", format!("a record {} ms old with TTL {} s (more than half gone) is listed as a known answer", age, ttl))
                        .with(wit()),
                );
                continue;
            }
            // K4: written TTL = remaining life, within a second
            l.act("K4");
            let remaining = (full - age.min(full)) as i64;
            let written = k.ttl as i64 * 1000;
            if (written - remaining).abs() > 1000 {
                l.violate(
                    Violation::new("K4", "K4/written-ttl-not-remaining-life", format!("known answer written with TTL {} s, remaining life {} ms", k.ttl, remaining))
                        .with(wit()),
                );
            }
        }
    }
    // K5: each query instant went out on every active interface and family
    for (t, qkey) in query_instants.iter() {
        l.act("K5");
        for (ifi, v4) in active.iter() {
            let sent = txs.iter().any(|tx| {
                tx.t == *t && tx.out_if == Some(*ifi) && tx.v4 == *v4 && tx.msg.is_query()
                    && tx.msg.questions.iter().map(|q| format!("{}/{}", wire::escaped(&wire::lower(&q.name)), q.qtype)).collect::<Vec<_>>().join(",") == *qkey
            });
            if !sent {
                l.violate(
                    Violation::new("K5", "K5/query-not-sent-on-every-interface", format!("the query [{qkey}] at +{} ms did not leave on interface {ifi} over {}", t - EPOCH, if *v4 { "IPv4" } else { "IPv6" }))
                        .with(json!({"scenario": made.desc, "trace": scen::witness_window(trace, t.saturating_sub(10), *t, 30)})),
                );
                break;
            }
        }
    }
    // K3 positive control: a shared record well inside the first half of its life is normally listed
    // (not required by the statement; counted for the evidence only)
    let listed = txs.iter().filter(|tx| tx.msg.is_query()).map(|tx| tx.msg.answers.len()).sum::<usize>();
    l.count("known_answers_seen", listed as u64);
    let _ = RData::Raw(vec![]);
}

pub fn run(report: &Report, tier: &Tier) {
    report.set_rule(
        "responder side: the C06 scenarios with 1..4 known answers per query drawn from the responder's own records (PTR, subtype PTR, meta PTR, \
         SRV, TXT, addresses) with TTL in {0, 1, half-1, half, half+1, full, 2^32-1}, near misses (other RDATA, class, letter case), with and \
         without the cache-flush bit; querier side: a PTR of TTL {4, 10, 20, 120} s cached, the type browsed again at every age 0..100 % in 1 % \
         steps and every 20 ms within +-1.2 s of the half life, 1..3 instances (one with a cache-flush PTR), 1..2 interfaces, v4/v6; every query \
         afterwards (initial, retransmitted, refresh) parsed; distinct by query shape / (ttl, age bucket)",
    );
    report.assume("a known answer that equals the responder's record only up to letter case may or may not suppress (DESIGN §12)");
    report.assume("ages within one second of the half life may or may not be listed");
    for r in ["K1", "K2", "K3", "K4", "K5"] {
        report.floor(r, 50);
    }
    c06::run_c10_responder(report, tier, 0.5);
    // querier side
    let seed = report.seed;
    let mut cases: Vec<(u32, u64)> = Vec::new();
    for ttl in [4u32, 10, 20, 120] {
        let full = ttl as u64 * 1000;
        for pct in 0..=100 {
            cases.push((ttl, full * pct / 100));
        }
        let mut d = full / 2 - 1200;
        while d <= full / 2 + 1200 {
            cases.push((ttl, d));
            d += 20;
        }
    }
    let reps: u64 = if tier.thorough { 40 } else { 1 };
    let n = cases.len() as u64 * reps;
    run_parallel(report, n, threads(), tier.budget_s * 0.5, |i, l| {
        let (ttl, age) = cases[(i % cases.len() as u64) as usize];
        let made = querier_scenario(util::mix(seed, 0xC10_8000 + i), ttl, age);
        l.evaluations += 1;
        l.distinct.insert(util::fnv_str(&format!("querier|{ttl}|{}", age * 50 / (ttl as u64 * 1000))));
        if l.samples.len() < 1 {
            l.samples.push(json!({"querier_scenario": made.desc}));
        }
        if made.world.trace.deaths().next().is_some() {
            l.inconclusive.push("daemon died in a C10 scenario".into());
            return;
        }
        querier_monitor(&made, l);
    });
    let _ = Rng::new(0);
}
