//! Glue between the independent wire types (`wire`) and the crate's codec facade.

use crate::wire::{self, Message, RData, Record};
use mdns_sd::verif::codec;
use std::net::{Ipv4Addr, Ipv6Addr};

/// Record types the crate's decoder turns into records (others are skipped by it).
pub fn crate_knows_type(t: u16) -> bool {
    matches!(t, 1 | 5 | 12 | 13 | 16 | 28 | 33 | 47)
}

/// The name as the crate's decoder spells it: labels joined by '.', trailing dot, no escaping.
pub fn crate_spelling(n: &wire::Name) -> String {
    wire::dotted(n)
}

/// None if equal; otherwise (difference class, detail).
pub fn compare_record(g: &codec::RecView, w: &Record, is_response: bool) -> Option<(String, String)> {
    let diff = |class: &str, detail: String| Some((class.to_string(), detail));
    if g.name != wire::dotted(&w.name) {
        return diff("owner", format!("owner {:?} vs {:?}", g.name, wire::dotted(&w.name)));
    }
    if g.ty != w.rtype {
        return diff("type", format!("type {} vs {}", g.ty, w.rtype));
    }
    if g.class != w.class_only() || g.flush != w.flush() {
        return diff("class", format!("class {}/{} vs {:#x}", g.class, g.flush, w.class));
    }
    let want_ttl = if w.ttl == 0 && is_response { 1 } else { w.ttl };
    if g.ttl != want_ttl {
        return diff("ttl", format!("ttl {} vs {}", g.ttl, want_ttl));
    }
    let same = match (&g.rdata, &w.rdata) {
        (codec::RData::A(a), RData::A(b)) => a.octets() == *b,
        (codec::RData::AAAA(a), RData::Aaaa(b)) => a.octets() == *b,
        (codec::RData::Ptr(a), RData::Ptr(b)) => *a == wire::dotted(b),
        (
            codec::RData::Srv {
                priority,
                weight,
                port,
                host,
            },
            RData::Srv {
                priority: p2,
                weight: w2,
                port: port2,
                target,
            },
        ) => priority == p2 && weight == w2 && port == port2 && *host == wire::dotted(target),
        (codec::RData::Txt(a), RData::Txt(b)) => a == b,
        (codec::RData::HInfo { cpu, os }, RData::HInfo { cpu: c2, os: o2 }) => {
            cpu.as_bytes() == &c2[..] && os.as_bytes() == &o2[..]
        }
        (codec::RData::NSec { next, bitmap }, RData::NSec { next: n2, rest }) => {
            *next == wire::dotted(n2)
                && rest.len() >= 2
                && rest[0] == 0
                && rest[1] as usize == bitmap.len()
                && rest[2..] == bitmap[..]
        }
        _ => false,
    };
    if !same {
        return diff("rdata", format!("rdata {:?} vs {:?}", g.rdata, w.rdata));
    }
    None
}

/// The name as the crate's encoder expects it: RFC 6763 escaping of '.' and '\' inside labels.
/// None if a label is not valid UTF-8.
pub fn crate_input_name(n: &wire::Name) -> Option<String> {
    for l in n {
        std::str::from_utf8(l).ok()?;
    }
    // Names the daemon learned from the network are kept as plain dotted text, backslashes and all: a backslash
    // that escapes nothing ("CORP\alice") stands for itself. Half of the names that can be written that way
    // without ambiguity (no dot inside a label, no backslash before a backslash or at the end) are.
    let lone = |l: &Vec<u8>| l.contains(&b'\\') && !l.contains(&b'.') && l.last() != Some(&b'\\') && !l.windows(2).any(|w| w[0] == b'\\' && (w[1] == b'\\' || w[1] == b'.'));
    let plain_ok = n.iter().all(|l| !l.contains(&b'\\') && !l.contains(&b'.') || lone(l));
    if plain_ok && n.iter().any(lone) && crate::util::fnv_str(&wire::escaped(n)) % 2 == 0 {
        let mut s = String::new();
        for l in n {
            s.push_str(std::str::from_utf8(l).ok()?);
            s.push('.');
        }
        return Some(s);
    }
    Some(wire::escaped(n))
}

pub fn to_spec(r: &Record) -> Option<codec::RecSpec> {
    let rdata = match &r.rdata {
        RData::A(a) => codec::RData::A(Ipv4Addr::from(*a)),
        RData::Aaaa(a) => codec::RData::AAAA(Ipv6Addr::from(*a)),
        RData::Ptr(n) => codec::RData::Ptr(crate_input_name(n)?),
        RData::Srv {
            priority,
            weight,
            port,
            target,
        } => codec::RData::Srv {
            priority: *priority,
            weight: *weight,
            port: *port,
            host: crate_input_name(target)?,
        },
        RData::Txt(t) => codec::RData::Txt(t.clone()),
        _ => return None,
    };
    if matches!(r.rdata, RData::Ptr(_)) && r.rtype != wire::T_PTR {
        return None;
    }
    Some(codec::RecSpec {
        name: crate_input_name(&r.name)?,
        class: r.class,
        ttl: r.ttl,
        rdata,
    })
}

/// Builds `m` with the crate's encoder (records of A/AAAA/PTR/SRV/TXT only).
pub fn encode_with_crate(m: &Message) -> Option<Vec<Vec<u8>>> {
    let mut out = codec::OutBuilder::new(m.flags);
    out.set_id(m.id);
    for q in &m.questions {
        if !out.add_question(&crate_input_name(&q.name)?, q.qtype) {
            return None;
        }
    }
    for r in &m.answers {
        out.add_answer_at_time(&to_spec(r)?, 0);
    }
    for r in &m.authorities {
        out.add_authority(&to_spec(r)?);
    }
    for r in &m.additionals {
        out.add_additional(&to_spec(r)?);
    }
    let r = std::panic::catch_unwind(std::panic::AssertUnwindSafe(|| out.to_packets()));
    match r {
        Ok(p) => Some(p),
        Err(_) => {
            let _ = crate::util::take_thread_panic();
            None
        }
    }
}
