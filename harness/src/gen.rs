//! Shared workload generators: labels, names, messages.

use crate::util::Rng;
use crate::wire::{self, Message, Name, RData, Record};

/// Pieces used to build UTF-8 labels: separators, escapes, multi-byte text, both cases.
const PIECES: &[&str] = &[
    "a", "b", "c", "A", "B", "Z", "x", "y", "0", "9", "-", "_", ".", "\\", " ", "é", "ß", "日", "本",
    "😀", "(", ")", "2", "ab", "Host", "inst", "_sub", "..", "\\.", "\\\\",
];

/// A valid UTF-8 label of 1..=max bytes from the hostile alphabet.
pub fn utf8_label(rng: &mut Rng, max: usize) -> String {
    let target = match rng.below(10) {
        0 => 1,
        1 => max,
        2 => max.saturating_sub(1).max(1),
        3..=5 => 1 + rng.usize(8.min(max)),
        _ => 1 + rng.usize(max),
    };
    let mut s = String::new();
    let mut guard = 0;
    while s.len() < target && guard < 400 {
        guard += 1;
        let p = *rng.pick(PIECES);
        if s.len() + p.len() <= target {
            s.push_str(p);
        } else if target - s.len() < 4 {
            // fill the rest with single-byte pieces
            s.push(if rng.chance(1, 2) { 'q' } else { 'Q' });
        }
    }
    if s.is_empty() {
        s.push('z');
    }
    s
}

/// A plain label: letters, digits, hyphen, some upper case.
pub fn plain_label(rng: &mut Rng, max: usize) -> String {
    let n = 1 + rng.usize(max.min(12));
    (0..n)
        .map(|_| *rng.pick(&['a', 'b', 'c', 'd', 'e', 'X', 'Y', '1', '2', '-']))
        .collect::<String>()
        .trim_matches('-')
        .to_string()
        .chars()
        .chain(std::iter::once('k'))
        .collect()
}

/// Arbitrary bytes label (may be invalid UTF-8) of 1..=63 bytes.
pub fn raw_label(rng: &mut Rng) -> Vec<u8> {
    let max = if rng.chance(1, 8) { 63 } else { 10 };
    let n = 1 + rng.usize(max);
    let mut v = rng.bytes(n);
    if rng.chance(3, 4) {
        for b in v.iter_mut() {
            *b = b'a' + (*b % 26);
        }
    }
    v
}

/// A pool of names with deliberately shared suffixes and look-alike pairs.
pub fn name_pool(rng: &mut Rng, n: usize, max_label: usize) -> Vec<Name> {
    let mut pool: Vec<Name> = Vec::new();
    let suffixes: Vec<Name> = vec![
        wire::name("local"),
        wire::name("_tcp.local"),
        wire::name("_udp.local"),
        wire::name("_t._udp.local"),
        wire::name("_http._tcp.local"),
    ];
    while pool.len() < n {
        let mut name: Name = Vec::new();
        let k = rng.usize(4);
        for _ in 0..k {
            name.push(utf8_label(rng, max_label).into_bytes());
        }
        match rng.below(4) {
            0 if !pool.is_empty() => {
                // extend an existing name (shared suffix)
                let base = rng.pick(&pool).clone();
                name.extend(base);
            }
            1 if !pool.is_empty() => {
                // suffix of an existing name
                let base = rng.pick(&pool).clone();
                let cut = rng.usize(base.len().max(1));
                name.extend(base[cut..].iter().cloned());
            }
            _ => name.extend(rng.pick(&suffixes).clone()),
        }
        if name.is_empty() {
            name.push(b"x".to_vec());
        }
        if name.len() > 8 {
            name.truncate(8);
        }
        // look-alike: labels "a.b","c" vs "a","b","c"
        if rng.chance(1, 6) && name.len() >= 2 {
            let mut merged = name[0].clone();
            merged.push(b'.');
            merged.extend_from_slice(&name[1]);
            if merged.len() <= 63 {
                let mut alt = vec![merged];
                alt.extend(name[2..].iter().cloned());
                pool.push(alt);
            }
        }
        if wire::uncompressed_name_len(&name) <= 255 {
            pool.push(name);
        }
    }
    pool
}

pub fn random_ttl(rng: &mut Rng) -> u32 {
    match rng.below(10) {
        0 => 0,
        1 => 1,
        2 => 1 << 31,
        3 => u32::MAX,
        4 => 120,
        5 => 4500,
        _ => rng.u64() as u32,
    }
}

pub fn random_record(rng: &mut Rng, pool: &[Name], types: &[u16]) -> Record {
    let name = rng.pick(pool).clone();
    let rtype = *rng.pick(types);
    let flush = rng.chance(1, 2);
    let class = 1 | if flush { wire::FLUSH } else { 0 };
    let rdata = match rtype {
        wire::T_A => RData::A([10, rng.u64() as u8, rng.u64() as u8, rng.u64() as u8]),
        wire::T_AAAA => {
            let mut a = [0u8; 16];
            a.copy_from_slice(&rng.bytes(16));
            RData::Aaaa(a)
        }
        wire::T_PTR | wire::T_CNAME => RData::Ptr(rng.pick(pool).clone()),
        wire::T_SRV => RData::Srv {
            priority: rng.u64() as u16,
            weight: rng.u64() as u16,
            port: rng.u64() as u16,
            target: rng.pick(pool).clone(),
        },
        wire::T_TXT => {
            let n = match rng.below(6) {
                0 => 0,
                1 => 1,
                2 => 255,
                3 => 256,
                _ => rng.usize(80),
            };
            RData::Txt(rng.bytes(n))
        }
        wire::T_HINFO => RData::HInfo {
            cpu: b"cpu".to_vec(),
            os: b"os".to_vec(),
        },
        wire::T_NSEC => RData::NSec {
            next: name.clone(),
            rest: vec![0, 1, 0x40],
        },
        _ => {
            let n = rng.usize(20);
            RData::Raw(rng.bytes(n))
        }
    };
    Record {
        name,
        rtype,
        class,
        ttl: random_ttl(rng),
        rdata,
    }
}

pub const CORE_TYPES: &[u16] = &[wire::T_A, wire::T_AAAA, wire::T_PTR, wire::T_SRV, wire::T_TXT];
pub const ALL_TYPES: &[u16] = &[
    wire::T_A,
    wire::T_AAAA,
    wire::T_PTR,
    wire::T_SRV,
    wire::T_TXT,
    wire::T_CNAME,
    wire::T_HINFO,
    wire::T_NSEC,
    99,
    wire::T_ANY,
];

/// A random, well-formed message.
pub fn random_message(rng: &mut Rng, types: &[u16], max_records: usize, max_label: usize) -> Message {
    let pool_size = 2 + rng.usize(6);
    let pool = name_pool(rng, pool_size, max_label);
    let mut m = if rng.chance(1, 2) {
        Message::query()
    } else {
        Message::response()
    };
    m.id = if rng.chance(1, 2) { 0 } else { rng.u64() as u16 };
    for _ in 0..rng.usize(4) {
        m.questions.push(wire::Question {
            name: rng.pick(&pool).clone(),
            qtype: *rng.pick(&[wire::T_PTR, wire::T_SRV, wire::T_TXT, wire::T_A, wire::T_AAAA, wire::T_ANY]),
            qclass: 1,
        });
    }
    let n = rng.usize(max_records + 1);
    for _ in 0..n {
        let r = random_record(rng, &pool, types);
        match rng.below(3) {
            0 => m.answers.push(r),
            1 => m.authorities.push(r),
            _ => m.additionals.push(r),
        }
    }
    m
}
