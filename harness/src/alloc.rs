//! Counting global allocator: per-thread bytes allocated, live delta and peak.
//! Exact and cheap (three thread-local cells); used for C01's memory bound.

use std::alloc::{GlobalAlloc, Layout, System};
use std::cell::Cell;

pub struct Counting;

thread_local! {
    static LIVE: Cell<i64> = const { Cell::new(0) };
    static PEAK: Cell<i64> = const { Cell::new(0) };
    static TOTAL: Cell<u64> = const { Cell::new(0) };
}

#[inline]
fn add(n: usize) {
    let _ = LIVE.try_with(|l| {
        let v = l.get() + n as i64;
        l.set(v);
        let _ = PEAK.try_with(|p| {
            if v > p.get() {
                p.set(v);
            }
        });
    });
    let _ = TOTAL.try_with(|t| t.set(t.get() + n as u64));
}

#[inline]
fn sub(n: usize) {
    let _ = LIVE.try_with(|l| l.set(l.get() - n as i64));
}

// SAFETY: delegates to `System`; the bookkeeping touches only const-initialised
// thread-locals without destructors and never allocates.
unsafe impl GlobalAlloc for Counting {
    unsafe fn alloc(&self, layout: Layout) -> *mut u8 {
        let p = System.alloc(layout);
        if !p.is_null() {
            add(layout.size());
        }
        p
    }
    unsafe fn dealloc(&self, ptr: *mut u8, layout: Layout) {
        System.dealloc(ptr, layout);
        sub(layout.size());
    }
    unsafe fn alloc_zeroed(&self, layout: Layout) -> *mut u8 {
        let p = System.alloc_zeroed(layout);
        if !p.is_null() {
            add(layout.size());
        }
        p
    }
    unsafe fn realloc(&self, ptr: *mut u8, layout: Layout, new_size: usize) -> *mut u8 {
        let p = System.realloc(ptr, layout, new_size);
        if !p.is_null() {
            sub(layout.size());
            add(new_size);
        }
        p
    }
}

/// Starts a measurement on the calling thread.
pub fn mark() {
    LIVE.with(|l| l.set(0));
    PEAK.with(|p| p.set(0));
    TOTAL.with(|t| t.set(0));
}

/// (peak live bytes, total bytes allocated) on the calling thread since [`mark`].
pub fn measure() -> (u64, u64) {
    (
        PEAK.with(|p| p.get()).max(0) as u64,
        TOTAL.with(|t| t.get()),
    )
}
