//! Runtime-monitoring harness for mdns-sd (see /verif/DESIGN.md).
pub mod report;
pub mod util;
pub mod wire;
pub mod world;
