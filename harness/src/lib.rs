//! Runtime-monitoring harness for mdns-sd (see /verif/DESIGN.md).
pub mod alloc;
pub mod facade;
pub mod gen;
pub mod model;
pub mod props;
pub mod report;
pub mod scen;
pub mod util;
pub mod wire;
pub mod world;

#[global_allocator]
static GLOBAL: alloc::Counting = alloc::Counting;

/// quick / thorough and the time budget of the workload part (seconds).
pub struct Tier {
    pub thorough: bool,
    pub budget_s: f64,
}

impl Tier {
    pub fn from_env(name: &str) -> Self {
        let thorough = name == "thorough";
        let default = if thorough { 420.0 } else { 40.0 };
        let budget_s = std::env::var("VERIF_BUDGET_S")
            .ok()
            .and_then(|s| s.parse().ok())
            .unwrap_or(default);
        Self { thorough, budget_s }
    }
    pub fn name(&self) -> &'static str {
        if self.thorough {
            "thorough"
        } else {
            "quick"
        }
    }
}
