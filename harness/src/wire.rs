//! `W`: an independent DNS wire codec (RFC 1035 §4, RFC 6762 §18, RFC 6763).
//!
//! Shares no code with the crate under test. Names are lists of raw labels
//! (bytes), so `a\.b` and `a.b` are different names here. The parser is strict
//! about structure (counts, RDLENGTH, trailing bytes) and lenient about
//! compression (any acyclic pointer chain inside the datagram is followed).

use std::collections::HashSet;
use std::fmt;

pub type Label = Vec<u8>;
pub type Name = Vec<Label>;

pub const T_A: u16 = 1;
pub const T_CNAME: u16 = 5;
pub const T_PTR: u16 = 12;
pub const T_HINFO: u16 = 13;
pub const T_TXT: u16 = 16;
pub const T_AAAA: u16 = 28;
pub const T_SRV: u16 = 33;
pub const T_NSEC: u16 = 47;
pub const T_ANY: u16 = 255;

pub const FLUSH: u16 = 0x8000;
pub const F_RESPONSE: u16 = 0x8000;
pub const F_AA: u16 = 0x0400;
pub const F_TC: u16 = 0x0200;

#[derive(Clone, Debug, PartialEq, Eq, Hash)]
pub struct Question {
    pub name: Name,
    pub qtype: u16,
    /// All 16 bits (top bit = unicast-response).
    pub qclass: u16,
}

#[derive(Clone, Debug, PartialEq, Eq, Hash)]
pub enum RData {
    A([u8; 4]),
    Aaaa([u8; 16]),
    /// PTR and CNAME.
    Ptr(Name),
    Srv {
        priority: u16,
        weight: u16,
        port: u16,
        target: Name,
    },
    Txt(Vec<u8>),
    HInfo {
        cpu: Vec<u8>,
        os: Vec<u8>,
    },
    NSec {
        next: Name,
        rest: Vec<u8>,
    },
    Raw(Vec<u8>),
}

#[derive(Clone, Debug, PartialEq, Eq, Hash)]
pub struct Record {
    pub name: Name,
    pub rtype: u16,
    /// All 16 bits (top bit = cache flush).
    pub class: u16,
    pub ttl: u32,
    pub rdata: RData,
}

impl Record {
    pub fn flush(&self) -> bool {
        self.class & FLUSH != 0
    }
    pub fn class_only(&self) -> u16 {
        self.class & !FLUSH
    }
}

#[derive(Clone, Debug, Default, PartialEq, Eq)]
pub struct Message {
    pub id: u16,
    pub flags: u16,
    pub questions: Vec<Question>,
    pub answers: Vec<Record>,
    pub authorities: Vec<Record>,
    pub additionals: Vec<Record>,
}

impl Message {
    pub fn query() -> Self {
        Self::default()
    }
    pub fn response() -> Self {
        Self {
            flags: F_RESPONSE | F_AA,
            ..Self::default()
        }
    }
    pub fn is_response(&self) -> bool {
        self.flags & F_RESPONSE != 0
    }
    pub fn is_query(&self) -> bool {
        !self.is_response()
    }
    pub fn tc(&self) -> bool {
        self.flags & F_TC != 0
    }
    pub fn records(&self) -> impl Iterator<Item = &Record> {
        self.answers
            .iter()
            .chain(self.authorities.iter())
            .chain(self.additionals.iter())
    }
}

/// Where things were found while parsing (byte offsets into the datagram).
#[derive(Clone, Debug, Default)]
pub struct ParseInfo {
    /// For each record, in message order: (start of RDATA, end of RDATA).
    pub rdata_ranges: Vec<(usize, usize)>,
    /// The header counts as written.
    pub counts: [u16; 4],
    /// Longest name (sum of label lengths + separators) seen.
    pub max_name_len: usize,
    /// Number of compression pointers followed.
    pub pointers: usize,
    /// Bytes left after the last record (0 in strict mode, else error).
    pub trailing: usize,
}

#[derive(Clone, Debug, PartialEq, Eq)]
pub struct ParseError {
    pub at: usize,
    pub what: &'static str,
}

impl fmt::Display for ParseError {
    fn fmt(&self, f: &mut fmt::Formatter<'_>) -> fmt::Result {
        write!(f, "{} at offset {}", self.what, self.at)
    }
}

fn err<T>(at: usize, what: &'static str) -> Result<T, ParseError> {
    Err(ParseError { at, what })
}

fn be16(b: &[u8], at: usize) -> Result<u16, ParseError> {
    if at + 2 > b.len() {
        return err(at, "short read (u16)");
    }
    Ok(u16::from_be_bytes([b[at], b[at + 1]]))
}

fn be32(b: &[u8], at: usize) -> Result<u32, ParseError> {
    if at + 4 > b.len() {
        return err(at, "short read (u32)");
    }
    Ok(u32::from_be_bytes([b[at], b[at + 1], b[at + 2], b[at + 3]]))
}

/// Reads a name starting at `at`. Returns (name, offset just after the name in the
/// record stream). `limit` bounds the in-stream part (labels before the first
/// pointer must lie below it); pointer targets may be anywhere in the datagram.
pub fn read_name(
    b: &[u8],
    at: usize,
    limit: usize,
    info: &mut ParseInfo,
) -> Result<(Name, usize), ParseError> {
    let mut name: Name = Vec::new();
    let mut pos = at;
    let mut after: Option<usize> = None;
    let mut visited: HashSet<usize> = HashSet::new();
    let mut total = 0usize;
    loop {
        let bound = if after.is_none() { limit } else { b.len() };
        if pos >= bound {
            return err(pos, "name runs off the end");
        }
        if !visited.insert(pos) {
            return err(pos, "compression loop");
        }
        let len = b[pos];
        match len & 0xC0 {
            0x00 => {
                if len == 0 {
                    if after.is_none() {
                        after = Some(pos + 1);
                    }
                    break;
                }
                let end = pos + 1 + len as usize;
                if end > bound {
                    return err(pos, "label runs off the end");
                }
                name.push(b[pos + 1..end].to_vec());
                total += len as usize + 1;
                pos = end;
            }
            0xC0 => {
                if pos + 2 > bound {
                    return err(pos, "pointer runs off the end");
                }
                let target = (u16::from_be_bytes([b[pos], b[pos + 1]]) & 0x3FFF) as usize;
                if after.is_none() {
                    after = Some(pos + 2);
                }
                info.pointers += 1;
                if target >= b.len() {
                    return err(pos, "pointer outside the datagram");
                }
                pos = target;
            }
            _ => return err(pos, "reserved label type"),
        }
    }
    info.max_name_len = info.max_name_len.max(total);
    Ok((name, after.unwrap()))
}

fn read_record(b: &[u8], at: usize, info: &mut ParseInfo) -> Result<(Record, usize), ParseError> {
    let (name, p) = read_name(b, at, b.len(), info)?;
    if p + 10 > b.len() {
        return err(p, "record header runs off the end");
    }
    let rtype = be16(b, p)?;
    let class = be16(b, p + 2)?;
    let ttl = be32(b, p + 4)?;
    let rdlen = be16(b, p + 8)? as usize;
    let rs = p + 10;
    let re = rs + rdlen;
    if re > b.len() {
        return err(p + 8, "RDLENGTH runs off the end");
    }
    info.rdata_ranges.push((rs, re));
    let rdata = match rtype {
        T_A => {
            if rdlen != 4 {
                return err(rs, "A RDATA is not 4 bytes");
            }
            RData::A([b[rs], b[rs + 1], b[rs + 2], b[rs + 3]])
        }
        T_AAAA => {
            if rdlen != 16 {
                return err(rs, "AAAA RDATA is not 16 bytes");
            }
            let mut a = [0u8; 16];
            a.copy_from_slice(&b[rs..re]);
            RData::Aaaa(a)
        }
        T_PTR | T_CNAME => {
            let (n, e) = read_name(b, rs, re, info)?;
            if e != re {
                return err(e, "PTR RDATA length mismatch");
            }
            RData::Ptr(n)
        }
        T_SRV => {
            if rdlen < 7 {
                return err(rs, "SRV RDATA too short");
            }
            let priority = be16(b, rs)?;
            let weight = be16(b, rs + 2)?;
            let port = be16(b, rs + 4)?;
            let (n, e) = read_name(b, rs + 6, re, info)?;
            if e != re {
                return err(e, "SRV RDATA length mismatch");
            }
            RData::Srv {
                priority,
                weight,
                port,
                target: n,
            }
        }
        T_TXT => RData::Txt(b[rs..re].to_vec()),
        T_HINFO => {
            if rdlen < 2 {
                return err(rs, "HINFO RDATA too short");
            }
            let l1 = b[rs] as usize;
            if rs + 1 + l1 + 1 > re {
                return err(rs, "HINFO cpu runs off RDATA");
            }
            let cpu = b[rs + 1..rs + 1 + l1].to_vec();
            let p2 = rs + 1 + l1;
            let l2 = b[p2] as usize;
            if p2 + 1 + l2 != re {
                return err(p2, "HINFO os length mismatch");
            }
            RData::HInfo {
                cpu,
                os: b[p2 + 1..re].to_vec(),
            }
        }
        T_NSEC => {
            let (n, e) = read_name(b, rs, re, info)?;
            RData::NSec {
                next: n,
                rest: b[e..re].to_vec(),
            }
        }
        _ => RData::Raw(b[rs..re].to_vec()),
    };
    Ok((
        Record {
            name,
            rtype,
            class,
            ttl,
            rdata,
        },
        re,
    ))
}

/// Strict parse: exactly the counted entries, no trailing bytes.
pub fn parse(b: &[u8]) -> Result<(Message, ParseInfo), ParseError> {
    let (m, info) = parse_lenient(b)?;
    if info.trailing != 0 {
        return err(b.len() - info.trailing, "trailing bytes");
    }
    Ok((m, info))
}

/// As [`parse`] but reports trailing bytes in `ParseInfo` instead of failing.
pub fn parse_lenient(b: &[u8]) -> Result<(Message, ParseInfo), ParseError> {
    if b.len() < 12 {
        return err(0, "short header");
    }
    let mut info = ParseInfo::default();
    let mut m = Message {
        id: be16(b, 0)?,
        flags: be16(b, 2)?,
        ..Message::default()
    };
    let counts = [be16(b, 4)?, be16(b, 6)?, be16(b, 8)?, be16(b, 10)?];
    info.counts = counts;
    let mut p = 12;
    for _ in 0..counts[0] {
        let (name, e) = read_name(b, p, b.len(), &mut info)?;
        if e + 4 > b.len() {
            return err(e, "question runs off the end");
        }
        m.questions.push(Question {
            name,
            qtype: be16(b, e)?,
            qclass: be16(b, e + 2)?,
        });
        p = e + 4;
    }
    for (i, count) in counts[1..].iter().enumerate() {
        for _ in 0..*count {
            let (r, e) = read_record(b, p, &mut info)?;
            match i {
                0 => m.answers.push(r),
                1 => m.authorities.push(r),
                _ => m.additionals.push(r),
            }
            p = e;
        }
    }
    info.trailing = b.len() - p;
    Ok((m, info))
}

// ---------------------------------------------------------------------------
// Encoding

#[derive(Clone, Copy, Debug, PartialEq, Eq)]
pub enum Compression {
    None,
    /// Longest-suffix compression of owner names and names inside RDATA.
    Max,
}

pub struct Encoder {
    pub buf: Vec<u8>,
    comp: Compression,
    /// (name suffix, offset)
    table: Vec<(Name, usize)>,
}

impl Encoder {
    pub fn new(comp: Compression) -> Self {
        Self {
            buf: vec![0; 12],
            comp,
            table: Vec::new(),
        }
    }

    pub fn put16(&mut self, v: u16) {
        self.buf.extend_from_slice(&v.to_be_bytes());
    }

    pub fn put32(&mut self, v: u32) {
        self.buf.extend_from_slice(&v.to_be_bytes());
    }

    pub fn put_name(&mut self, name: &Name) {
        for i in 0..name.len() {
            let suffix = &name[i..];
            if self.comp == Compression::Max {
                if let Some((_, off)) = self
                    .table
                    .iter()
                    .find(|(n, _)| n.len() == suffix.len() && names_eq_exact(n, suffix))
                {
                    let off = *off as u16;
                    self.put16(0xC000 | off);
                    return;
                }
                if self.buf.len() < 0x3FFF {
                    self.table.push((suffix.to_vec(), self.buf.len()));
                }
            }
            let l = &name[i];
            assert!(l.len() < 64 && !l.is_empty(), "W encoder: bad label length");
            self.buf.push(l.len() as u8);
            self.buf.extend_from_slice(l);
        }
        self.buf.push(0);
    }

    pub fn put_question(&mut self, q: &Question) {
        self.put_name(&q.name);
        self.put16(q.qtype);
        self.put16(q.qclass);
    }

    pub fn put_record(&mut self, r: &Record) {
        self.put_name(&r.name);
        self.put16(r.rtype);
        self.put16(r.class);
        self.put32(r.ttl);
        let len_at = self.buf.len();
        self.put16(0);
        let start = self.buf.len();
        match &r.rdata {
            RData::A(a) => self.buf.extend_from_slice(a),
            RData::Aaaa(a) => self.buf.extend_from_slice(a),
            RData::Ptr(n) => self.put_name(n),
            RData::Srv {
                priority,
                weight,
                port,
                target,
            } => {
                self.put16(*priority);
                self.put16(*weight);
                self.put16(*port);
                self.put_name(target);
            }
            RData::Txt(t) => self.buf.extend_from_slice(t),
            RData::HInfo { cpu, os } => {
                self.buf.push(cpu.len() as u8);
                self.buf.extend_from_slice(cpu);
                self.buf.push(os.len() as u8);
                self.buf.extend_from_slice(os);
            }
            RData::NSec { next, rest } => {
                // NSEC next-name is never compressed (RFC 6762 §18.14 allows it; keep simple).
                let saved = self.comp;
                self.comp = Compression::None;
                self.put_name(next);
                self.comp = saved;
                self.buf.extend_from_slice(rest);
            }
            RData::Raw(d) => self.buf.extend_from_slice(d),
        }
        let len = (self.buf.len() - start) as u16;
        self.buf[len_at..len_at + 2].copy_from_slice(&len.to_be_bytes());
    }

    pub fn finish(mut self, id: u16, flags: u16, counts: [u16; 4]) -> Vec<u8> {
        self.buf[0..2].copy_from_slice(&id.to_be_bytes());
        self.buf[2..4].copy_from_slice(&flags.to_be_bytes());
        for (i, c) in counts.iter().enumerate() {
            self.buf[4 + 2 * i..6 + 2 * i].copy_from_slice(&c.to_be_bytes());
        }
        self.buf
    }
}

pub fn encode(m: &Message, comp: Compression) -> Vec<u8> {
    let mut e = Encoder::new(comp);
    for q in &m.questions {
        e.put_question(q);
    }
    for r in m.records() {
        e.put_record(r);
    }
    e.finish(
        m.id,
        m.flags,
        [
            m.questions.len() as u16,
            m.answers.len() as u16,
            m.authorities.len() as u16,
            m.additionals.len() as u16,
        ],
    )
}

// ---------------------------------------------------------------------------
// Name helpers

pub fn names_eq_exact(a: &[Label], b: &[Label]) -> bool {
    a.len() == b.len() && a.iter().zip(b).all(|(x, y)| x == y)
}

/// ASCII case-insensitive comparison, label by label.
/// Letter case is disregarded the way the crate (and the statements) disregard it: for every letter, not only
/// for ASCII ones. Labels that are not UTF-8 compare byte by byte, ASCII letters aside.
pub fn names_eq_nocase(a: &[Label], b: &[Label]) -> bool {
    a.len() == b.len()
        && a.iter().zip(b).all(|(x, y)| {
            x.eq_ignore_ascii_case(y)
                || match (std::str::from_utf8(x), std::str::from_utf8(y)) {
                    (Ok(sx), Ok(sy)) => !x.is_ascii() && !y.is_ascii() && sx.to_lowercase() == sy.to_lowercase(),
                    _ => false,
                }
        })
}

pub fn lower(n: &Name) -> Name {
    n.iter().map(|l| l.to_ascii_lowercase()).collect()
}

/// Labels joined by `.` with a trailing dot, no escaping (what the crate's decoder
/// produces). Invalid UTF-8 is replaced.
pub fn dotted(n: &Name) -> String {
    let mut s = String::new();
    for l in n {
        s.push_str(&String::from_utf8_lossy(l));
        s.push('.');
    }
    s
}

/// RFC 6763 §4.3 escaping: `.` and `\` inside a label are written `\.` and `\\`.
pub fn escaped(n: &Name) -> String {
    let mut s = String::new();
    for l in n {
        for ch in String::from_utf8_lossy(l).chars() {
            if ch == '.' || ch == '\\' {
                s.push('\\');
            }
            s.push(ch);
        }
        s.push('.');
    }
    s
}

/// Splits a plain dotted name (no escapes) into labels.
pub fn name(s: &str) -> Name {
    s.trim_end_matches('.')
        .split('.')
        .filter(|l| !l.is_empty())
        .map(|l| l.as_bytes().to_vec())
        .collect()
}

/// Splits a name written with RFC 6763 escapes into labels.
pub fn name_from_escaped(s: &str) -> Name {
    let mut labels: Name = Vec::new();
    let mut cur: Vec<u8> = Vec::new();
    let bytes = s.as_bytes();
    let mut i = 0;
    while i < bytes.len() {
        match bytes[i] {
            b'\\' if i + 1 < bytes.len() && (bytes[i + 1] == b'.' || bytes[i + 1] == b'\\') => {
                cur.push(bytes[i + 1]);
                i += 2;
            }
            b'.' => {
                if !cur.is_empty() {
                    labels.push(std::mem::take(&mut cur));
                }
                i += 1;
            }
            c => {
                cur.push(c);
                i += 1;
            }
        }
    }
    if !cur.is_empty() {
        labels.push(cur);
    }
    labels
}

pub fn uncompressed_name_len(n: &Name) -> usize {
    n.iter().map(|l| l.len() + 1).sum::<usize>() + 1
}

pub fn uncompressed_record_len(r: &Record) -> usize {
    let rd = match &r.rdata {
        RData::A(_) => 4,
        RData::Aaaa(_) => 16,
        RData::Ptr(n) => uncompressed_name_len(n),
        RData::Srv { target, .. } => 6 + uncompressed_name_len(target),
        RData::Txt(t) => t.len(),
        RData::HInfo { cpu, os } => 2 + cpu.len() + os.len(),
        RData::NSec { next, rest } => uncompressed_name_len(next) + rest.len(),
        RData::Raw(d) => d.len(),
    };
    uncompressed_name_len(&r.name) + 10 + rd
}

// ---------------------------------------------------------------------------
// TXT (RFC 6763 §6)

/// One `key[=value]` string of a TXT record.
#[derive(Clone, Debug, PartialEq, Eq)]
pub struct TxtItem {
    pub key: Vec<u8>,
    pub val: Option<Vec<u8>>,
    /// Offset of the string's first byte (after its length byte) in the RDATA.
    pub at: usize,
}

/// Splits TXT RDATA into its strings. Stops at the first string that runs off the
/// end. Empty strings are skipped (RFC 6763 §6.1: "MUST be silently ignored").
/// `stop_at_empty` mimics a decoder that treats a zero length byte as the end.
pub fn txt_items(rdata: &[u8], stop_at_empty: bool) -> Vec<TxtItem> {
    let mut out = Vec::new();
    let mut p = 0;
    while p < rdata.len() {
        let l = rdata[p] as usize;
        if l == 0 {
            if stop_at_empty {
                break;
            }
            p += 1;
            continue;
        }
        if p + 1 + l > rdata.len() {
            break;
        }
        let s = &rdata[p + 1..p + 1 + l];
        let (key, val) = match s.iter().position(|c| *c == b'=') {
            Some(i) => (s[..i].to_vec(), Some(s[i + 1..].to_vec())),
            None => (s.to_vec(), None),
        };
        out.push(TxtItem {
            key,
            val,
            at: p + 1,
        });
        p += 1 + l;
    }
    out
}

pub fn txt_encode(items: &[(Vec<u8>, Option<Vec<u8>>)]) -> Vec<u8> {
    let mut out = Vec::new();
    for (k, v) in items {
        let mut s = k.clone();
        if let Some(v) = v {
            s.push(b'=');
            s.extend_from_slice(v);
        }
        assert!(s.len() <= 255);
        out.push(s.len() as u8);
        out.extend_from_slice(&s);
    }
    if out.is_empty() {
        out.push(0);
    }
    out
}

// ---------------------------------------------------------------------------
// Convenience constructors used by scripted peers

pub fn rec(name: &Name, rtype: u16, class: u16, ttl: u32, rdata: RData) -> Record {
    Record {
        name: name.clone(),
        rtype,
        class,
        ttl,
        rdata,
    }
}

pub fn ptr(owner: &Name, ttl: u32, target: &Name) -> Record {
    rec(owner, T_PTR, 1, ttl, RData::Ptr(target.clone()))
}

pub fn srv(owner: &Name, ttl: u32, port: u16, target: &Name) -> Record {
    rec(
        owner,
        T_SRV,
        1 | FLUSH,
        ttl,
        RData::Srv {
            priority: 0,
            weight: 0,
            port,
            target: target.clone(),
        },
    )
}

pub fn txt(owner: &Name, ttl: u32, data: Vec<u8>) -> Record {
    rec(owner, T_TXT, 1 | FLUSH, ttl, RData::Txt(data))
}

pub fn a(owner: &Name, ttl: u32, ip: [u8; 4]) -> Record {
    rec(owner, T_A, 1 | FLUSH, ttl, RData::A(ip))
}

pub fn aaaa(owner: &Name, ttl: u32, ip: [u8; 16]) -> Record {
    rec(owner, T_AAAA, 1 | FLUSH, ttl, RData::Aaaa(ip))
}

pub fn question(name: &Name, qtype: u16) -> Question {
    Question {
        name: name.clone(),
        qtype,
        qclass: 1,
    }
}

pub fn hex(b: &[u8]) -> String {
    let mut s = String::with_capacity(b.len() * 2);
    for x in b {
        s.push_str(&format!("{x:02x}"));
    }
    s
}

pub fn unhex(s: &str) -> Vec<u8> {
    let s: Vec<u8> = s.bytes().filter(|c| c.is_ascii_hexdigit()).collect();
    s.chunks(2)
        .filter(|c| c.len() == 2)
        .map(|c| u8::from_str_radix(std::str::from_utf8(c).unwrap(), 16).unwrap())
        .collect()
}

#[cfg(test)]
mod tests {
    use super::*;

    #[test]
    fn roundtrip_compressed() {
        let inst = name("inst._t._udp.local");
        let ty = name("_t._udp.local");
        let host = name("host.local");
        let mut m = Message::response();
        m.answers.push(ptr(&ty, 4500, &inst));
        m.answers.push(srv(&inst, 120, 80, &host));
        m.answers.push(txt(&inst, 4500, txt_encode(&[(b"k".to_vec(), Some(b"v".to_vec()))])));
        m.additionals.push(a(&host, 120, [10, 0, 0, 1]));
        for comp in [Compression::None, Compression::Max] {
            let b = encode(&m, comp);
            let (p, info) = parse(&b).unwrap();
            assert_eq!(p, m);
            assert_eq!(info.rdata_ranges.len(), 4);
        }
        assert!(encode(&m, Compression::Max).len() < encode(&m, Compression::None).len());
    }

    #[test]
    fn rfc1035_example_pointer() {
        // F.ISI.ARPA at 20, FOO.F.ISI.ARPA with pointer to 20 (RFC 1035 §4.1.4, shifted by header)
        let mut b = vec![0u8; 12];
        b[5] = 2; // two questions
        b.extend_from_slice(b"\x01F\x03ISI\x04ARPA\x00\x00\x01\x00\x01");
        b.extend_from_slice(b"\x03FOO\xC0\x0C\x00\x01\x00\x01");
        let (m, _) = parse(&b).unwrap();
        assert_eq!(dotted(&m.questions[1].name), "FOO.F.ISI.ARPA.");
    }

    #[test]
    fn loops_are_errors() {
        let mut b = vec![0u8; 12];
        b[5] = 1;
        b.extend_from_slice(b"\xC0\x0C\x00\x01\x00\x01");
        assert!(parse(&b).is_err());
    }

    #[test]
    fn escaped_names() {
        let n = name_from_escaped("a\\.b.c\\\\.local.");
        assert_eq!(n, vec![b"a.b".to_vec(), b"c\\".to_vec(), b"local".to_vec()]);
        assert_eq!(escaped(&n), "a\\.b.c\\\\.local.");
        assert_eq!(dotted(&n), "a.b.c\\.local.");
    }
}
