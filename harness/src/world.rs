//! The simulated world: virtual clock, hosts running the real daemon behind the
//! `verif-hooks` gate, links with faults, scripted peers, and the recorded trace.

use crate::util::{self, Rng};
use crate::wire::{self, Message};
use mdns_sd::verif::{self as hooks, if_addrs, SimCtx, Snapshot};
use mdns_sd::{
    DaemonEvent, DaemonStatus, HostnameResolutionEvent, IfKind, Receiver, ResolvedService,
    ServiceDaemon, ServiceEvent, ServiceInfo, UnregisterStatus,
};
use std::collections::HashMap;
use std::net::{IpAddr, Ipv4Addr, Ipv6Addr, SocketAddr, SocketAddrV4, SocketAddrV6};
use std::sync::atomic::{AtomicU64, Ordering};
use std::sync::Arc;
use std::time::{Duration, Instant};

pub const GROUP_V4: Ipv4Addr = Ipv4Addr::new(224, 0, 0, 251);
pub const GROUP_V6: Ipv6Addr = Ipv6Addr::new(0xff02, 0, 0, 0, 0, 0, 0, 0xfb);
pub const EPOCH: u64 = 1_700_000_000_000;

static NEXT_TAG: AtomicU64 = AtomicU64::new(1);

/// Per-thread overrides applied to every world created afterwards (used by checks that
/// re-run other properties' scenarios under a chosen stepping mode, e.g. C12).
#[derive(Clone, Copy, Debug, Default)]
pub struct Overrides {
    pub stepping: Option<Stepping>,
    pub record_gates: bool,
    pub snapshot_level: u8,
    /// Every probe start jitter not forced by the scenario takes this value.
    pub jitter_const: Option<u64>,
    /// Every datagram a daemon sends takes this many milliseconds of virtual time (the clock moves on inside the
    /// loop iteration, as it does on a real machine).
    pub send_cost_ms: Option<u64>,
    /// Every daemon has multicast loop-back switched off right after its start (it does not hear itself).
    pub no_loop: bool,
}

thread_local! {
    static OVERRIDES: std::cell::Cell<Option<Overrides>> = const { std::cell::Cell::new(None) };
}

pub fn set_overrides(o: Option<Overrides>) {
    OVERRIDES.with(|c| c.set(o));
}

/// Raised (as a panic payload) when the real-time watchdog fires: never a violation.
pub struct Inconclusive(pub String);

/// No scenario of any check comes near these (the largest run a few hundred thousand iterations).
pub const MAX_ITERATIONS_PER_WORLD: u64 = 400_000;
pub const MAX_TRACE_ENTRIES: usize = 2_000_000;
/// The largest number of loop iterations any one world of this process has run (evidence).
pub static MAX_SEEN_ITERATIONS: AtomicU64 = AtomicU64::new(0);
pub const MAX_CONSECUTIVE_MS_STEPS: u64 = 20_000;

#[derive(Clone, Debug)]
pub struct IfSpec {
    pub name: String,
    pub index: u32,
    pub link: usize,
    pub addrs: Vec<(IpAddr, u8)>,
    pub up: bool,
    pub p2p: bool,
}

impl IfSpec {
    pub fn new(name: &str, index: u32, link: usize, addrs: &[(&str, u8)]) -> Self {
        Self {
            name: name.to_string(),
            index,
            link,
            addrs: addrs
                .iter()
                .map(|(a, p)| (a.parse().expect("ip"), *p))
                .collect(),
            up: true,
            p2p: false,
        }
    }
    pub fn v4(&self) -> Option<Ipv4Addr> {
        self.addrs.iter().find_map(|(a, _)| match a {
            IpAddr::V4(x) => Some(*x),
            _ => None,
        })
    }
    pub fn v6(&self) -> Option<Ipv6Addr> {
        self.addrs.iter().find_map(|(a, _)| match a {
            IpAddr::V6(x) => Some(*x),
            _ => None,
        })
    }
    pub fn has_family(&self, v4: bool) -> bool {
        self.addrs.iter().any(|(a, _)| a.is_ipv4() == v4)
    }
    pub fn in_subnet(&self, ip: &IpAddr) -> bool {
        self.addrs.iter().any(|(a, p)| same_subnet(a, *p, ip))
    }
}

pub fn netmask_v4(prefix: u8) -> Ipv4Addr {
    let m: u32 = if prefix == 0 {
        0
    } else {
        u32::MAX << (32 - prefix as u32)
    };
    Ipv4Addr::from(m)
}

pub fn netmask_v6(prefix: u8) -> Ipv6Addr {
    let m: u128 = if prefix == 0 {
        0
    } else {
        u128::MAX << (128 - prefix as u32)
    };
    Ipv6Addr::from(m)
}

pub fn same_subnet(a: &IpAddr, prefix: u8, b: &IpAddr) -> bool {
    match (a, b) {
        (IpAddr::V4(a), IpAddr::V4(b)) => {
            let m = u32::from(netmask_v4(prefix));
            u32::from(*a) & m == u32::from(*b) & m
        }
        (IpAddr::V6(a), IpAddr::V6(b)) => {
            let m = u128::from(netmask_v6(prefix));
            u128::from(*a) & m == u128::from(*b) & m
        }
        _ => false,
    }
}

pub fn interfaces_of(ifs: &[IfSpec]) -> Vec<if_addrs::Interface> {
    let mut out = Vec::new();
    for i in ifs {
        for (ip, prefix) in &i.addrs {
            let addr = match ip {
                IpAddr::V4(ip) => if_addrs::IfAddr::V4(if_addrs::Ifv4Addr {
                    ip: *ip,
                    netmask: netmask_v4(*prefix),
                    prefixlen: *prefix,
                    broadcast: None,
                }),
                IpAddr::V6(ip) => if_addrs::IfAddr::V6(if_addrs::Ifv6Addr {
                    ip: *ip,
                    netmask: netmask_v6(*prefix),
                    prefixlen: *prefix,
                    broadcast: None,
                }),
            };
            out.push(if_addrs::Interface {
                name: i.name.clone(),
                addr,
                index: Some(i.index),
                oper_status: if i.up {
                    if_addrs::IfOperStatus::Up
                } else {
                    if_addrs::IfOperStatus::Down
                },
                is_p2p: i.p2p,
            });
        }
    }
    out
}

#[derive(Clone, Debug, Default)]
pub struct LinkFaults {
    /// Per-delivery loss probability in 1/1000.
    pub loss: u64,
    /// Per-delivery duplication probability in 1/1000.
    pub dup: u64,
    /// Maximum random extra delay in ms (0 = none).
    pub delay: u64,
}

#[derive(Clone, Copy, Debug, PartialEq, Eq)]
pub enum Stepping {
    /// Wake each daemon exactly when it asks to be woken.
    Lazy,
    /// Additionally wake every daemon every g ms.
    Eager(u64),
    /// Wake up to `max` ms late (a loaded machine).
    Oversleep(u64),
}

// ---------------------------------------------------------------------------
// Trace

#[derive(Clone, Debug)]
pub enum Obs {
    SearchStarted(String),
    Found(String, String),
    Resolved(Box<ResolvedService>),
    Removed(String, String),
    SearchStopped(String),
    HStarted(String),
    AddrFound(String, Vec<(IpAddr, Vec<u32>)>),
    AddrRemoved(String, Vec<(IpAddr, Vec<u32>)>),
    HTimeout(String),
    HStopped(String),
    Announce(String, String),
    DaemonError(String),
    IpAdd(IpAddr),
    IpDel(IpAddr),
    NameChange {
        original: String,
        new_name: String,
        rr_type: u16,
        intf: String,
    },
    Respond(String),
    Unreg(bool),
    Status(bool),
    Metrics(HashMap<String, i64>),
    /// The channel reported `Disconnected`.
    Closed,
}

#[derive(Clone, Debug)]
pub struct TxInfo {
    pub v4: bool,
    pub out_if: Option<u32>,
    pub dest: SocketAddr,
    pub multicast: bool,
    pub data: Vec<u8>,
    pub msg: Result<Message, String>,
    /// Multicast to another port than the one the daemons of this world use: no peer hears it.
    pub misdirected: bool,
}

#[derive(Clone, Debug)]
pub struct RxInfo {
    pub if_index: u32,
    pub v4: bool,
    pub src: SocketAddr,
    pub data: Vec<u8>,
    /// Sent by another simulated host (not injected by the scenario).
    pub from_host: Option<usize>,
}

#[derive(Clone, Debug)]
pub struct RegInfo {
    pub ty_domain: String,
    pub instance: String,
    pub host: String,
    pub addrs: Vec<IpAddr>,
    pub port: u16,
    pub txt: Vec<(String, Option<Vec<u8>>)>,
    pub addr_auto: bool,
    pub requires_probe: bool,
    pub fullname: String,
    pub subtype: Option<String>,
    pub ty_only: String,
}

#[derive(Clone, Debug)]
pub enum ApiCall {
    Browse(String),
    BrowseCache(String),
    StopBrowse(String),
    ResolveHostname(String, Option<u64>),
    StopResolveHostname(String),
    Register(Box<RegInfo>),
    Unregister(String),
    Monitor,
    Shutdown,
    Status,
    GetMetrics,
    Verify(String, u64),
    SetIpCheckInterval(u32),
    GetIpCheckInterval,
    SetServiceNameLenMax(u8),
    EnableInterface(String),
    DisableInterface(String),
    AcceptUnsolicited(bool),
    IncludeAppleP2p(bool),
    SetMulticastLoopV4(bool),
    SetMulticastLoopV6(bool),
    DropChannel(usize),
}

#[derive(Clone, Debug)]
pub enum ApiResult {
    Ok,
    Err(String),
    Panic(String),
}

#[derive(Clone, Debug)]
pub struct GateInfo {
    pub wakeup: Option<u64>,
    /// The daemon's own `now` at the gate and the time-out it was about to hand to poll (None: none).
    pub gate_now: u64,
    pub poll_timeout_ms: Option<u64>,
    pub queued: usize,
    /// Work observed in the iteration that just ended.
    pub egress: usize,
    pub events: usize,
    pub consumed: u64,
    pub cmds_before: usize,
    pub snapshot: Option<Box<Snapshot>>,
}

#[derive(Clone, Debug)]
pub enum Ev {
    Gate(GateInfo),
    Tx(TxInfo),
    Rx(RxInfo),
    Api {
        call: ApiCall,
        result: ApiResult,
        chan: Option<usize>,
    },
    Obs {
        chan: usize,
        obs: Obs,
    },
    Death {
        panicked: bool,
        msg: String,
        file: String,
    },
    IfEdit {
        what: String,
        ifs: Vec<IfSpec>,
    },
    Note(String),
}

#[derive(Clone, Debug)]
pub struct Entry {
    pub t: u64,
    pub host: usize,
    pub iter: u64,
    pub ev: Ev,
}

#[derive(Default)]
pub struct Trace {
    pub entries: Vec<Entry>,
}

impl Trace {
    pub fn txs(&self, host: usize) -> impl Iterator<Item = (&Entry, &TxInfo)> {
        self.entries.iter().filter_map(move |e| match &e.ev {
            Ev::Tx(tx) if e.host == host => Some((e, tx)),
            _ => None,
        })
    }
    pub fn rxs(&self, host: usize) -> impl Iterator<Item = (&Entry, &RxInfo)> {
        self.entries.iter().filter_map(move |e| match &e.ev {
            Ev::Rx(rx) if e.host == host => Some((e, rx)),
            _ => None,
        })
    }
    pub fn obs(&self, chan: usize) -> impl Iterator<Item = (&Entry, &Obs)> {
        self.entries.iter().filter_map(move |e| match &e.ev {
            Ev::Obs { chan: c, obs } if *c == chan => Some((e, obs)),
            _ => None,
        })
    }
    pub fn apis(&self, host: usize) -> impl Iterator<Item = (&Entry, &ApiCall, &ApiResult, Option<usize>)> {
        self.entries.iter().filter_map(move |e| match &e.ev {
            Ev::Api { call, result, chan } if e.host == host => Some((e, call, result, *chan)),
            _ => None,
        })
    }
    /// The interface table of `host` as the scenario last set it at or before `t`.
    pub fn ifs_at(&self, host: usize, t: u64) -> Vec<IfSpec> {
        let mut cur = Vec::new();
        for e in self.entries.iter() {
            if e.t > t {
                break;
            }
            if let Ev::IfEdit { ifs, .. } = &e.ev {
                if e.host == host {
                    cur = ifs.clone();
                }
            }
        }
        cur
    }

    pub fn deaths(&self) -> impl Iterator<Item = &Entry> {
        self.entries
            .iter()
            .filter(|e| matches!(e.ev, Ev::Death { .. }))
    }

    /// Human-readable rendering of entries (for replay files), newest last.
    pub fn render(&self, from: usize, max: usize) -> Vec<String> {
        self.entries
            .iter()
            .skip(from)
            .filter(|e| !matches!(e.ev, Ev::Gate(_)))
            .take(max)
            .map(render_entry)
            .collect()
    }

    pub fn render_tail(&self, max: usize) -> Vec<String> {
        let v: Vec<&Entry> = self
            .entries
            .iter()
            .filter(|e| !matches!(e.ev, Ev::Gate(_)))
            .collect();
        let from = v.len().saturating_sub(max);
        v[from..].iter().map(|e| render_entry(e)).collect()
    }
}

pub fn render_msg(m: &Message) -> String {
    let mut s = String::new();
    s.push_str(if m.is_response() { "R" } else { "Q" });
    if m.id != 0 {
        s.push_str(&format!(" id={}", m.id));
    }
    if m.tc() {
        s.push_str(" TC");
    }
    for q in &m.questions {
        s.push_str(&format!(" ?{}/{}", wire::escaped(&q.name), q.qtype));
    }
    let sect = |tag: &str, rs: &Vec<wire::Record>, s: &mut String| {
        for r in rs {
            s.push_str(&format!(
                " {tag}[{} t{} ttl{}{} {}]",
                wire::escaped(&r.name),
                r.rtype,
                r.ttl,
                if r.flush() { " F" } else { "" },
                render_rdata(&r.rdata)
            ));
        }
    };
    sect("an", &m.answers, &mut s);
    sect("ns", &m.authorities, &mut s);
    sect("ar", &m.additionals, &mut s);
    s
}

pub fn render_rdata(r: &wire::RData) -> String {
    match r {
        wire::RData::A(a) => Ipv4Addr::from(*a).to_string(),
        wire::RData::Aaaa(a) => Ipv6Addr::from(*a).to_string(),
        wire::RData::Ptr(n) => format!("->{}", wire::escaped(n)),
        wire::RData::Srv { port, target, .. } => format!("srv:{}@{}", port, wire::escaped(target)),
        wire::RData::Txt(t) => format!("txt:{}", wire::hex(&t[..t.len().min(24)])),
        wire::RData::HInfo { .. } => "hinfo".into(),
        wire::RData::NSec { next, .. } => format!("nsec:{}", wire::escaped(next)),
        wire::RData::Raw(d) => format!("raw:{}", d.len()),
    }
}

pub fn render_entry(e: &Entry) -> String {
    let rel = e.t.saturating_sub(EPOCH);
    let body = match &e.ev {
        Ev::Gate(g) => format!("gate wakeup={:?}", g.wakeup.map(|w| w as i64 - e.t as i64)),
        Ev::Tx(tx) => format!(
            "tx {} if={:?} to={} {}",
            if tx.v4 { "v4" } else { "v6" },
            tx.out_if,
            tx.dest,
            match &tx.msg {
                Ok(m) => render_msg(m),
                Err(err) => format!("UNPARSEABLE({err}) {}", wire::hex(&tx.data[..tx.data.len().min(64)])),
            }
        ),
        Ev::Rx(rx) => format!(
            "rx if={} from={} {}",
            rx.if_index,
            rx.src,
            match wire::parse_lenient(&rx.data) {
                Ok((m, _)) => render_msg(&m),
                Err(_) => format!("raw:{}", wire::hex(&rx.data[..rx.data.len().min(48)])),
            }
        ),
        Ev::Api { call, result, chan } => format!("api {call:?} -> {result:?} chan={chan:?}"),
        Ev::Obs { chan, obs } => match obs {
            Obs::Resolved(r) => format!(
                "ev#{chan} Resolved({} host={} port={} addrs={:?} txt={})",
                r.fullname,
                r.host,
                r.port,
                r.addresses.iter().map(|a| a.to_string()).collect::<Vec<_>>(),
                r.txt_properties
            ),
            Obs::Metrics(_) => format!("ev#{chan} Metrics(..)"),
            other => format!("ev#{chan} {other:?}"),
        },
        Ev::Death { panicked, msg, file } => format!("DEATH panicked={panicked} {msg} @{file}"),
        Ev::IfEdit { what, ifs } => format!(
            "ifedit {what}: {}",
            ifs.iter()
                .map(|i| format!("{}#{}{}{:?}", i.name, i.index, if i.up { "" } else { "(down)" }, i.addrs))
                .collect::<Vec<_>>()
                .join(" ")
        ),
        Ev::Note(s) => format!("note {s}"),
    };
    format!("+{rel}ms h{} i{} {}", e.host, e.iter, body)
}

// ---------------------------------------------------------------------------
// Hosts

pub enum ChanRx {
    Service(Receiver<ServiceEvent>),
    Hostname(Receiver<HostnameResolutionEvent>),
    Daemon(Receiver<DaemonEvent>),
    Unreg(Receiver<UnregisterStatus>),
    Status(Receiver<DaemonStatus>),
    Metrics(Receiver<HashMap<String, i64>>),
    Dropped,
}

pub struct Chan {
    pub id: usize,
    pub host: usize,
    pub rx: ChanRx,
    pub label: String,
    pub closed: bool,
    pub received: usize,
    /// A slow consumer: nothing is read from the channel until the daemon has been stuck sending for a while
    /// (or `resume` is called).
    pub paused: bool,
}

pub struct Host {
    pub id: usize,
    pub tag: u64,
    pub ctx: Arc<SimCtx>,
    pub daemon: Option<ServiceDaemon>,
    pub ifs: Vec<IfSpec>,
    egress_seen: usize,
    pub needs_run: bool,
    pub dead: bool,
    /// Oversleep mode: (requested wake-up, granted wake-up).
    sleep: Option<(u64, u64)>,
    last_run: u64,
    consumed_seen: u64,
    pub iterations: u64,
    /// State after the last finished iteration (if snapshots are on).
    pub last_snapshot: Option<Snapshot>,
}

struct Pending {
    at: u64,
    seq: u64,
    /// Times this datagram has waited for unread datagrams of the other family (see `enqueue`).
    defers: u8,
    host: usize,
    v4: bool,
    pkt: hooks::Ingress,
    from_host: Option<usize>,
}

pub struct World {
    pub clock: Arc<AtomicU64>,
    pub hosts: Vec<Host>,
    pub chans: Vec<Chan>,
    pub trace: Trace,
    pub rng: Rng,
    pub stepping: Stepping,
    pub faults: Vec<LinkFaults>,
    pending: Vec<Pending>,
    seq: u64,
    pub record_gates: bool,
    pub snapshot_level: u8,
    /// Real-time watchdog for one daemon iteration.
    pub watchdog: Duration,
    /// Hard cap of daemon iterations at one virtual instant (livelock guard).
    pub max_runs_per_instant: u64,
    pub livelocks: u64,
    pub total_iterations: u64,
    ms_steps: u64,
    /// The UDP port every daemon of this world is created on (5353 unless a scenario says otherwise, before adding hosts).
    pub port: u16,
    seed: u64,
}

fn scoped_ips(set: &std::collections::HashSet<mdns_sd::ScopedIp>) -> Vec<(IpAddr, Vec<u32>)> {
    let mut v: Vec<(IpAddr, Vec<u32>)> = set
        .iter()
        .map(|s| match s {
            mdns_sd::ScopedIp::V4(v4) => (
                IpAddr::V4(*v4.addr()),
                v4.interface_ids().iter().map(|i| i.index).collect(),
            ),
            mdns_sd::ScopedIp::V6(v6) => (IpAddr::V6(*v6.addr()), vec![v6.scope_id().index]),
            _ => (s.to_ip_addr(), vec![]),
        })
        .collect();
    v.sort();
    v
}

pub fn resolved_addrs(r: &ResolvedService) -> Vec<(IpAddr, Vec<u32>)> {
    scoped_ips(&r.addresses)
}

impl World {
    pub fn new(seed: u64) -> Self {
        let o = OVERRIDES.with(|c| c.get()).unwrap_or_default();
        let mut w = Self::new_plain(seed);
        w.record_gates = o.record_gates;
        w.snapshot_level = o.snapshot_level;
        if let Some(s) = o.stepping {
            w.stepping = s;
        }
        w
    }

    /// The stepping mode a scenario asks for; an override of the calling thread wins.
    pub fn set_stepping(&mut self, s: Stepping) {
        self.stepping = OVERRIDES.with(|c| c.get()).and_then(|o| o.stepping).unwrap_or(s);
    }

    fn new_plain(seed: u64) -> Self {
        Self {
            clock: Arc::new(AtomicU64::new(EPOCH + (seed % 1000) * 7919)),
            hosts: Vec::new(),
            chans: Vec::new(),
            trace: Trace::default(),
            rng: Rng::new(util::mix(seed, 0x77)),
            stepping: Stepping::Lazy,
            faults: vec![LinkFaults::default(); 6],
            pending: Vec::new(),
            seq: 0,
            record_gates: false,
            snapshot_level: 0,
            watchdog: Duration::from_secs(60),
            max_runs_per_instant: 20_000,
            livelocks: 0,
            total_iterations: 0,
            ms_steps: 0,
            port: 5353,
            seed,
        }
    }

    pub fn now(&self) -> u64 {
        self.clock.load(Ordering::SeqCst)
    }

    /// Milliseconds since the world's start (for messages).
    pub fn rel(&self, t: u64) -> i64 {
        t as i64 - EPOCH as i64
    }

    fn push(&mut self, host: usize, ev: Ev) {
        let iter = self.hosts.get(host).map(|h| h.iterations).unwrap_or(0);
        let t = self.now();
        self.trace.entries.push(Entry { t, host, iter, ev });
    }

    pub fn note(&mut self, host: usize, s: impl Into<String>) {
        self.push(host, Ev::Note(s.into()));
    }

    /// Starts a simulated daemon with the given interfaces. The daemon runs its
    /// start-up (socket creation, interface scan) and parks at its first gate.
    pub fn add_host(&mut self, ifs: Vec<IfSpec>) -> usize {
        self.add_host_with(ifs, |_| {})
    }

    pub fn add_host_with(&mut self, ifs: Vec<IfSpec>, setup: impl FnOnce(&mut hooks::SimInner)) -> usize {
        let id = self.hosts.len();
        let tag = NEXT_TAG.fetch_add(1, Ordering::SeqCst);
        let ctx = SimCtx::new(
            self.clock.clone(),
            util::mix(self.seed, 1000 + id as u64),
            tag,
            interfaces_of(&ifs),
        );
        {
            let mut g = ctx.lock();
            g.snapshot_level = self.snapshot_level;
            g.jitter_const = OVERRIDES.with(|c| c.get()).and_then(|o| o.jitter_const);
            if let Some(cost) = OVERRIDES.with(|c| c.get()).and_then(|o| o.send_cost_ms) {
                let clock = self.clock.clone();
                g.on_egress = Some(Box::new(move |_| {
                    clock.fetch_add(cost, Ordering::SeqCst);
                }));
            }
            setup(&mut g);
            if g.jitter_const.is_some() {
                // a forced queue would be handed out in interface-visiting order
                g.jitter.clear();
            }
        }
        hooks::sim_next_daemon(ctx.clone());
        let daemon = if self.port == 5353 { ServiceDaemon::new() } else { ServiceDaemon::new_with_port(self.port) }.expect("daemon creation");
        self.hosts.push(Host {
            id,
            tag,
            ctx,
            daemon: Some(daemon),
            ifs,
            egress_seen: 0,
            needs_run: false,
            dead: false,
            sleep: None,
            last_run: self.now(),
            consumed_seen: 0,
            iterations: 0,
            last_snapshot: None,
        });
        let ifs0 = self.hosts[id].ifs.clone();
        self.push(
            id,
            Ev::IfEdit {
                what: "initial".to_string(),
                ifs: ifs0,
            },
        );
        self.wait_parked(id);
        self.collect(id, 0, 0);
        if OVERRIDES.with(|c| c.get()).is_some_and(|o| o.no_loop) {
            self.set_multicast_loop_v4(id, false);
            self.set_multicast_loop_v6(id, false);
        }
        id
    }

    // ----- gate handling -----

    fn wait_parked(&mut self, h: usize) {
        let start = Instant::now();
        loop {
            let ctx = self.hosts[h].ctx.clone();
            if ctx.wait_parked(Duration::from_micros(300)) {
                return;
            }
            // The daemon may be blocked sending an event: drain and keep waiting. A slow consumer gets round to
            // its channel once the daemon has been stuck for 40 ms.
            if start.elapsed() > Duration::from_millis(40) {
                for c in self.chans.iter_mut().filter(|c| c.host == h) {
                    c.paused = false;
                }
            }
            self.drain(h);
            if start.elapsed() > self.watchdog {
                std::panic::panic_any(Inconclusive(format!(
                    "watchdog: daemon of host {h} did not reach its gate within {:?}",
                    self.watchdog
                )));
            }
        }
    }

    /// Records what the iteration that just ended produced.
    fn collect(&mut self, h: usize, cmds_before: usize, events_before: usize) {
        let ctx = self.hosts[h].ctx.clone();
        let (new_egress, wakeup, gate_now, poll_timeout_ms, queued, snapshot, ended, consumed) = {
            let mut g = ctx.lock();
            let seen = self.hosts[h].egress_seen;
            let new: Vec<hooks::Egress> = g.egress[seen..].to_vec();
            // keep memory bounded on long runs
            if g.egress.len() > 4096 {
                g.egress.clear();
                self.hosts[h].egress_seen = 0;
            } else {
                self.hosts[h].egress_seen = g.egress.len();
            }
            (
                new,
                g.wakeup,
                g.gate_now,
                g.poll_timeout_ms,
                g.queued,
                g.snapshot.take(),
                g.ended.clone(),
                g.consumed,
            )
        };
        let n_egress = new_egress.len();
        for e in new_egress {
            self.route(h, e);
        }
        self.drain(h);
        let events = self.event_count(h) - events_before;
        let consumed_delta = consumed - self.hosts[h].consumed_seen;
        self.hosts[h].consumed_seen = consumed;
        if snapshot.is_some() {
            self.hosts[h].last_snapshot = snapshot.clone();
        }
        if self.record_gates {
            self.push(
                h,
                Ev::Gate(GateInfo {
                    wakeup,
                    gate_now,
                    poll_timeout_ms,
                    queued,
                    egress: n_egress,
                    events,
                    consumed: consumed_delta,
                    cmds_before,
                    snapshot: snapshot.map(Box::new),
                }),
            );
        }
        if let Some(end) = ended {
            if !self.hosts[h].dead {
                self.hosts[h].dead = true;
                let p = util::take_daemon_panic(self.hosts[h].tag);
                let (msg, file) = match p {
                    Some(p) => (p.msg, util::short_file(&p.file)),
                    None => (String::new(), String::new()),
                };
                self.push(
                    h,
                    Ev::Death {
                        panicked: end.panicked,
                        msg,
                        file,
                    },
                );
                // all channels of a dead daemon become observable as closed
                self.drain(h);
            }
        } else if queued > 0 {
            // a command is waiting (e.g. sent by the daemon to itself): the real
            // signal socket would wake the poll at once.
            self.hosts[h].needs_run = true;
        }
    }

    fn event_count(&self, h: usize) -> usize {
        self.chans
            .iter()
            .filter(|c| c.host == h)
            .map(|c| c.received)
            .sum()
    }

    /// Runs one loop iteration of host `h` at the current virtual time.
    pub fn run_one(&mut self, h: usize) {
        if self.hosts[h].dead {
            self.hosts[h].needs_run = false;
            return;
        }
        self.hosts[h].needs_run = false;
        self.hosts[h].sleep = None;
        self.hosts[h].last_run = self.now();
        let ctx = self.hosts[h].ctx.clone();
        let cmds_before = ctx.lock().queued;
        let events_before = self.event_count(h);
        self.hosts[h].iterations += 1;
        self.total_iterations += 1;
        MAX_SEEN_ITERATIONS.fetch_max(self.total_iterations, Ordering::Relaxed);
        if self.total_iterations > MAX_ITERATIONS_PER_WORLD || self.trace.entries.len() > MAX_TRACE_ENTRIES {
            // a daemon that never comes to rest (or a scenario far larger than any that is meant): stop before
            // the trace eats the machine; the scenario decides nothing
            std::panic::panic_any(Inconclusive(format!(
                "runaway scenario: {} loop iterations, {} trace entries at +{} ms (the daemon keeps asking to be woken or keeps sending)",
                self.total_iterations,
                self.trace.entries.len(),
                self.now().saturating_sub(EPOCH)
            )));
        }
        ctx.release(1);
        self.wait_parked(h);
        self.collect(h, cmds_before, events_before);
    }

    /// Runs every host that has something to do at the current instant until all are idle.
    pub fn settle(&mut self) {
        let mut runs = 0u64;
        loop {
            self.deliver_due();
            let Some(h) = self.hosts.iter().position(|h| h.needs_run && !h.dead) else {
                break;
            };
            self.run_one(h);
            runs += 1;
            if runs > self.max_runs_per_instant {
                self.livelocks += 1;
                self.note(h, "livelock guard: too many iterations at one instant");
                for host in self.hosts.iter_mut() {
                    host.needs_run = false;
                }
                break;
            }
        }
    }

    fn next_wake(&mut self, h: usize) -> Option<u64> {
        let now = self.now();
        if self.hosts[h].dead {
            return None;
        }
        let req = self.hosts[h].ctx.lock().wakeup;
        let base = req.map(|w| w.max(now + 1));
        match self.stepping {
            Stepping::Lazy => base,
            Stepping::Eager(g) => {
                let periodic = self.hosts[h].last_run + g;
                Some(base.map_or(periodic, |b| b.min(periodic)).max(now + 1))
            }
            Stepping::Oversleep(max) => {
                // (the lateness is drawn once per request and counted from the requested time: were it keyed on
                // `base`, which moves with the clock once the request has passed, every other event in the world
                // would draw again and the daemon would sleep longer than `max`)
                base?;
                let r = req?;
                match self.hosts[h].sleep {
                    Some((r0, granted)) if r0 == r => Some(granted.max(now + 1)),
                    _ => {
                        let late = if self.rng.chance(1, 2) {
                            0
                        } else {
                            self.rng.below(max + 1)
                        };
                        let granted = (r + late).max(now + 1);
                        self.hosts[h].sleep = Some((r, granted));
                        Some(granted)
                    }
                }
            }
        }
    }

    /// Advances virtual time to `t_end`, waking daemons and delivering datagrams on the way.
    pub fn run_until(&mut self, t_end: u64) {
        loop {
            self.settle();
            let now = self.now();
            if now >= t_end {
                break;
            }
            let mut next = t_end;
            let mut wakes: Vec<Option<u64>> = Vec::with_capacity(self.hosts.len());
            for h in 0..self.hosts.len() {
                let w = self.next_wake(h);
                if let Some(w) = w {
                    next = next.min(w);
                }
                wakes.push(w);
            }
            for p in self.pending.iter() {
                next = next.min(p.at.max(now + 1));
            }
            let next = next.max(now + 1).min(t_end.max(now + 1));
            self.note_step(now, next);
            self.clock.store(next, Ordering::SeqCst);
            for (h, w) in wakes.iter().enumerate() {
                if let Some(w) = w {
                    if *w <= next {
                        self.hosts[h].needs_run = true;
                    }
                }
            }
        }
    }

    /// As [`run_until`], calling `cb` at every virtual instant after the daemons have settled
    /// (scripted peers use it to react to what was just sent). `cb` returns true if it injected
    /// something.
    pub fn run_until_cb(&mut self, t_end: u64, cb: &mut dyn FnMut(&mut World) -> bool) {
        loop {
            self.settle();
            let mut guard = 0;
            while cb(self) && guard < 50 {
                self.settle();
                guard += 1;
            }
            let now = self.now();
            if now >= t_end {
                break;
            }
            // one step of run_until: advance to the next event but not beyond t_end
            let mut next = t_end;
            let mut wakes: Vec<Option<u64>> = Vec::with_capacity(self.hosts.len());
            for h in 0..self.hosts.len() {
                let w = self.next_wake(h);
                if let Some(w) = w {
                    next = next.min(w);
                }
                wakes.push(w);
            }
            for p in self.pending.iter() {
                next = next.min(p.at.max(now + 1));
            }
            let next = next.max(now + 1).min(t_end.max(now + 1));
            self.note_step(now, next);
            self.clock.store(next, Ordering::SeqCst);
            for (h, w) in wakes.iter().enumerate() {
                if let Some(w) = w {
                    if *w <= next {
                        self.hosts[h].needs_run = true;
                    }
                }
            }
        }
    }

    /// A daemon that asks to be woken one millisecond later, tens of thousands of times in a row, never comes
    /// to rest (no scenario steps like that: eager stepping uses 10 or 50 ms): stop, the scenario decides nothing.
    fn note_step(&mut self, now: u64, next: u64) {
        let by_daemon = next == now + 1 && !self.pending.iter().any(|p| p.at <= next) && !matches!(self.stepping, Stepping::Eager(1));
        if by_daemon {
            self.ms_steps += 1;
            if self.ms_steps > MAX_CONSECUTIVE_MS_STEPS {
                std::panic::panic_any(Inconclusive(format!(
                    "runaway scenario: the daemon asked to be woken 1 ms later {} times in a row (at +{} ms, after {} loop iterations)",
                    self.ms_steps,
                    now.saturating_sub(EPOCH),
                    self.total_iterations
                )));
            }
        } else {
            self.ms_steps = 0;
        }
    }

    pub fn run_for(&mut self, ms: u64) {
        let t = self.now() + ms;
        self.run_until(t);
    }

    // ----- network -----

    fn deliver_due(&mut self) {
        let now = self.now();
        if self.pending.is_empty() {
            return;
        }
        let mut due: Vec<Pending> = Vec::new();
        let mut i = 0;
        while i < self.pending.len() {
            if self.pending[i].at <= now {
                due.push(self.pending.swap_remove(i));
            } else {
                i += 1;
            }
        }
        due.sort_by_key(|p| (p.at, p.seq));
        for p in due {
            self.enqueue(p.host, p.v4, p.pkt, p.from_host, p.defers);
        }
    }

    fn enqueue(&mut self, host: usize, v4: bool, pkt: hooks::Ingress, from_host: Option<usize>, defers: u8) {
        if self.hosts[host].dead {
            return;
        }
        // The daemon reads its IPv4 and its IPv6 socket in an order of its own. The trace is
        // the order of reception every oracle goes by, so a datagram never joins unread ones
        // of the other family: it waits (same virtual instant) until those have been read.
        {
            let ctx = self.hosts[host].ctx.clone();
            let g = ctx.lock();
            let other_unread = if v4 { !g.ingress_v6.is_empty() } else { !g.ingress_v4.is_empty() };
            drop(g);
            // (a daemon that does not read the other family at all - no such socket - must not hold this one up)
            if other_unread && defers < 3 {
                self.seq += 1;
                let at = self.now();
                self.pending.push(Pending { at, seq: self.seq, defers: defers + 1, host, v4, pkt, from_host });
                self.hosts[host].needs_run = true;
                return;
            }
        }
        self.push(
            host,
            Ev::Rx(RxInfo {
                if_index: pkt.if_index,
                v4,
                src: pkt.src,
                data: pkt.data.clone(),
                from_host,
            }),
        );
        let ctx = self.hosts[host].ctx.clone();
        let mut g = ctx.lock();
        if v4 {
            g.ingress_v4.push_back(pkt);
        } else {
            g.ingress_v6.push_back(pkt);
        }
        drop(g);
        self.hosts[host].needs_run = true;
    }

    fn schedule(
        &mut self,
        link: usize,
        host: usize,
        v4: bool,
        pkt: hooks::Ingress,
        from_host: Option<usize>,
    ) {
        let f = self.faults.get(link).cloned().unwrap_or_default();
        if f.loss > 0 && self.rng.below(1000) < f.loss {
            return;
        }
        let copies = if f.dup > 0 && self.rng.below(1000) < f.dup {
            2
        } else {
            1
        };
        for _ in 0..copies {
            let delay = if f.delay > 0 {
                self.rng.below(f.delay + 1)
            } else {
                0
            };
            if delay == 0 {
                self.enqueue(host, v4, pkt.clone(), from_host, 0);
            } else {
                self.seq += 1;
                self.pending.push(Pending {
                    at: self.now() + delay,
                    seq: self.seq,
                    defers: 0,
                    host,
                    v4,
                    pkt: pkt.clone(),
                    from_host,
                });
            }
        }
    }

    fn route(&mut self, h: usize, e: hooks::Egress) {
        // Which interface does it leave on?
        let out_if: Option<usize> = if e.v4 {
            e.mcast_if_v4.and_then(|ip| {
                self.hosts[h]
                    .ifs
                    .iter()
                    .position(|i| i.addrs.iter().any(|(a, _)| *a == IpAddr::V4(ip)))
            })
        } else {
            e.mcast_if_v6
                .and_then(|idx| self.hosts[h].ifs.iter().position(|i| i.index == idx))
        };
        let multicast = match e.dest.ip() {
            IpAddr::V4(ip) => ip.is_multicast(),
            IpAddr::V6(ip) => ip.is_multicast(),
        };
        let out_index = out_if.map(|i| self.hosts[h].ifs[i].index);
        let msg = wire::parse(&e.data)
            .map(|(m, _)| m)
            .map_err(|err| err.to_string());
        self.trace.entries.push(Entry {
            t: e.t,
            host: h,
            iter: self.hosts[h].iterations,
            ev: Ev::Tx(TxInfo {
                v4: e.v4,
                out_if: out_index,
                dest: e.dest,
                multicast,
                data: e.data.clone(),
                msg,
                misdirected: multicast && e.dest.port() != self.port,
            }),
        });
        if multicast && e.dest.port() != self.port {
            return;
        }
        let Some(oi) = out_if else {
            return;
        };
        let out = self.hosts[h].ifs[oi].clone();
        if !out.up {
            return;
        }
        let src_ip: IpAddr = if e.v4 {
            match e.mcast_if_v4 {
                Some(ip) => IpAddr::V4(ip),
                None => return,
            }
        } else {
            match out.v6() {
                Some(ip) => IpAddr::V6(ip),
                None => return,
            }
        };
        let src = match src_ip {
            IpAddr::V4(ip) => SocketAddr::V4(SocketAddrV4::new(ip, self.port)),
            IpAddr::V6(ip) => SocketAddr::V6(SocketAddrV6::new(ip, self.port, 0, out.index)),
        };
        let (loop_v4, loop_v6) = {
            let g = self.hosts[h].ctx.lock();
            (g.loop_v4, g.loop_v6)
        };
        let mut targets: Vec<(usize, u32)> = Vec::new();
        for (hid, host) in self.hosts.iter().enumerate() {
            if host.dead {
                continue;
            }
            for i in host.ifs.iter() {
                if i.link != out.link || !i.up || !i.has_family(e.v4) {
                    continue;
                }
                if multicast {
                    if hid == h {
                        let looped = if e.v4 { loop_v4 } else { loop_v6 };
                        if !looped || i.index != out.index {
                            continue;
                        }
                    }
                    targets.push((hid, i.index));
                } else if i.addrs.iter().any(|(a, _)| *a == e.dest.ip()) && e.dest.port() == self.port {
                    targets.push((hid, i.index));
                }
            }
        }
        for (hid, if_index) in targets {
            let pkt = hooks::Ingress {
                data: e.data.clone(),
                if_index,
                src,
                dst: e.dest.ip(),
            };
            self.schedule(out.link, hid, e.v4, pkt, Some(h));
        }
    }

    /// A scripted peer sends `data` to host `h`; it arrives on interface `if_index`
    /// (multicast unless `unicast`). Link faults do not apply (the scenario decides).
    pub fn inject(&mut self, h: usize, if_index: u32, src: SocketAddr, data: Vec<u8>) {
        let v4 = src.is_ipv4();
        let dst = if v4 {
            IpAddr::V4(GROUP_V4)
        } else {
            IpAddr::V6(GROUP_V6)
        };
        let pkt = hooks::Ingress {
            data,
            if_index,
            src,
            dst,
        };
        self.enqueue(h, v4, pkt, None, 0);
    }

    /// As [`inject`] but subject to the faults of `link` (loss, duplication, delay).
    pub fn inject_faulty(&mut self, link: usize, h: usize, if_index: u32, src: SocketAddr, data: Vec<u8>) {
        let v4 = src.is_ipv4();
        let dst = if v4 {
            IpAddr::V4(GROUP_V4)
        } else {
            IpAddr::V6(GROUP_V6)
        };
        let pkt = hooks::Ingress {
            data,
            if_index,
            src,
            dst,
        };
        self.schedule(link, h, v4, pkt, None);
    }

    pub fn inject_msg(&mut self, h: usize, if_index: u32, src: SocketAddr, m: &Message) {
        let data = wire::encode(m, wire::Compression::Max);
        self.inject(h, if_index, src, data);
    }

    // ----- interface table edits -----

    pub fn set_ifs(&mut self, h: usize, ifs: Vec<IfSpec>, what: &str) {
        self.hosts[h].ctx.lock().ifaces = interfaces_of(&ifs);
        self.hosts[h].ifs = ifs.clone();
        self.push(
            h,
            Ev::IfEdit {
                what: what.to_string(),
                ifs,
            },
        );
    }

    // ----- channels -----

    fn add_chan(&mut self, host: usize, rx: ChanRx, label: String) -> usize {
        let id = self.chans.len();
        self.chans.push(Chan {
            id,
            host,
            rx,
            label,
            closed: false,
            received: 0,
            paused: false,
        });
        id
    }

    /// Drops the receiver of a channel (a client that went away).
    pub fn drop_chan(&mut self, chan: usize) {
        let host = self.chans[chan].host;
        self.chans[chan].rx = ChanRx::Dropped;
        self.chans[chan].closed = true;
        self.push(
            host,
            Ev::Api {
                call: ApiCall::DropChannel(chan),
                result: ApiResult::Ok,
                chan: Some(chan),
            },
        );
    }

    /// Takes everything currently readable from the channels of host `h`.
    pub fn drain(&mut self, h: usize) {
        let mut got: Vec<(usize, Obs)> = Vec::new();
        for c in self.chans.iter_mut().filter(|c| c.host == h && !c.closed && !c.paused) {
            macro_rules! pump {
                ($rx:expr, $conv:expr) => {
                    loop {
                        match $rx.try_recv() {
                            Ok(ev) => {
                                c.received += 1;
                                got.push((c.id, $conv(ev)));
                            }
                            Err(flume::TryRecvError::Empty) => break,
                            Err(flume::TryRecvError::Disconnected) => {
                                c.closed = true;
                                got.push((c.id, Obs::Closed));
                                break;
                            }
                        }
                    }
                };
            }
            match &c.rx {
                ChanRx::Service(rx) => pump!(rx, |ev: ServiceEvent| match ev {
                    ServiceEvent::SearchStarted(s) => Obs::SearchStarted(s),
                    ServiceEvent::ServiceFound(t, i) => Obs::Found(t, i),
                    ServiceEvent::ServiceResolved(r) => Obs::Resolved(r),
                    ServiceEvent::ServiceRemoved(t, i) => Obs::Removed(t, i),
                    ServiceEvent::SearchStopped(s) => Obs::SearchStopped(s),
                    _ => Obs::DaemonError("unknown ServiceEvent".into()),
                }),
                ChanRx::Hostname(rx) => pump!(rx, |ev: HostnameResolutionEvent| match ev {
                    HostnameResolutionEvent::SearchStarted(s) => Obs::HStarted(s),
                    HostnameResolutionEvent::AddressesFound(n, a) => Obs::AddrFound(n, scoped_ips(&a)),
                    HostnameResolutionEvent::AddressesRemoved(n, a) =>
                        Obs::AddrRemoved(n, scoped_ips(&a)),
                    HostnameResolutionEvent::SearchTimeout(s) => Obs::HTimeout(s),
                    HostnameResolutionEvent::SearchStopped(s) => Obs::HStopped(s),
                    _ => Obs::DaemonError("unknown HostnameResolutionEvent".into()),
                }),
                ChanRx::Daemon(rx) => pump!(rx, |ev: DaemonEvent| match ev {
                    DaemonEvent::Announce(a, b) => Obs::Announce(a, b),
                    DaemonEvent::Error(e) => Obs::DaemonError(e.to_string()),
                    DaemonEvent::IpAdd(ip) => Obs::IpAdd(ip),
                    DaemonEvent::IpDel(ip) => Obs::IpDel(ip),
                    DaemonEvent::NameChange(c) => Obs::NameChange {
                        original: c.original,
                        new_name: c.new_name,
                        rr_type: c.rr_type as u16,
                        intf: c.intf_name,
                    },
                    DaemonEvent::Respond(s) => Obs::Respond(s),
                    _ => Obs::DaemonError("unknown DaemonEvent".into()),
                }),
                ChanRx::Unreg(rx) => pump!(rx, |ev: UnregisterStatus| Obs::Unreg(matches!(
                    ev,
                    UnregisterStatus::OK
                ))),
                ChanRx::Status(rx) => pump!(rx, |ev: DaemonStatus| Obs::Status(
                    ev == DaemonStatus::Running
                )),
                ChanRx::Metrics(rx) => pump!(rx, Obs::Metrics),
                ChanRx::Dropped => {}
            }
        }
        for (chan, obs) in got {
            self.push(h, Ev::Obs { chan, obs });
        }
    }

    // ----- API calls -----

    fn api<T>(
        &mut self,
        h: usize,
        call: ApiCall,
        f: impl FnOnce(&ServiceDaemon) -> mdns_sd::Result<T>,
        mk: impl FnOnce(T) -> Option<(ChanRx, String)>,
    ) -> Option<usize> {
        let Some(daemon) = self.hosts[h].daemon.clone() else {
            return None;
        };
        let r = std::panic::catch_unwind(std::panic::AssertUnwindSafe(|| f(&daemon)));
        let (result, chan) = match r {
            Ok(Ok(v)) => {
                let chan = mk(v).map(|(rx, label)| self.add_chan(h, rx, label));
                (ApiResult::Ok, chan)
            }
            Ok(Err(e)) => (ApiResult::Err(e.to_string()), None),
            Err(_) => {
                let p = util::take_thread_panic();
                (
                    ApiResult::Panic(
                        p.map(|p| format!("{} @{}", p.msg, util::short_file(&p.file)))
                            .unwrap_or_default(),
                    ),
                    None,
                )
            }
        };
        let accepted = matches!(result, ApiResult::Ok);
        self.push(h, Ev::Api { call, result, chan });
        if accepted && !self.hosts[h].dead {
            self.hosts[h].needs_run = true;
        }
        chan
    }

    pub fn last_api_ok(&self) -> bool {
        for e in self.trace.entries.iter().rev() {
            if let Ev::Api { result, .. } = &e.ev {
                return matches!(result, ApiResult::Ok);
            }
        }
        false
    }

    pub fn last_api_result(&self) -> Option<ApiResult> {
        for e in self.trace.entries.iter().rev() {
            if let Ev::Api { result, .. } = &e.ev {
                return Some(result.clone());
            }
        }
        None
    }

    pub fn browse(&mut self, h: usize, ty: &str) -> Option<usize> {
        let t = ty.to_string();
        self.api(
            h,
            ApiCall::Browse(t.clone()),
            |d| d.browse(ty),
            |rx| Some((ChanRx::Service(rx), format!("browse:{t}"))),
        )
    }

    pub fn browse_cache(&mut self, h: usize, ty: &str) -> Option<usize> {
        let t = ty.to_string();
        self.api(
            h,
            ApiCall::BrowseCache(t.clone()),
            |d| d.browse_cache(ty),
            |rx| Some((ChanRx::Service(rx), format!("browse_cache:{t}"))),
        )
    }

    pub fn stop_browse(&mut self, h: usize, ty: &str) {
        self.api(h, ApiCall::StopBrowse(ty.to_string()), |d| d.stop_browse(ty), |_| None);
    }

    pub fn resolve_hostname(&mut self, h: usize, host: &str, timeout: Option<u64>) -> Option<usize> {
        let t = host.to_string();
        self.api(
            h,
            ApiCall::ResolveHostname(t.clone(), timeout),
            |d| d.resolve_hostname(host, timeout),
            |rx| Some((ChanRx::Hostname(rx), format!("resolve:{t}"))),
        )
    }

    pub fn stop_resolve_hostname(&mut self, h: usize, host: &str) {
        self.api(
            h,
            ApiCall::StopResolveHostname(host.to_string()),
            |d| d.stop_resolve_hostname(host),
            |_| None,
        );
    }

    /// Builds a `ServiceInfo` from `reg` (None + Api entry with the error if the crate refuses it).
    pub fn make_info(reg: &RegInfo) -> Result<ServiceInfo, String> {
        let props: Vec<mdns_sd::TxtProperty> = reg
            .txt
            .iter()
            .map(|(k, v)| match v {
                Some(v) => mdns_sd::TxtProperty::from((k.as_str(), v.as_slice())),
                None => mdns_sd::TxtProperty::from(k.as_str()),
            })
            .collect();
        let addrs: Vec<IpAddr> = reg.addrs.clone();
        let r = std::panic::catch_unwind(std::panic::AssertUnwindSafe(|| {
            ServiceInfo::new(
                &reg.ty_domain,
                &reg.instance,
                &reg.host,
                &addrs[..],
                reg.port,
                props,
            )
        }));
        match r {
            Ok(Ok(mut info)) => {
                if reg.addr_auto {
                    info = info.enable_addr_auto();
                }
                info.set_requires_probe(reg.requires_probe);
                Ok(info)
            }
            Ok(Err(e)) => Err(format!("err:{e}")),
            Err(_) => {
                let p = util::take_thread_panic();
                Err(format!(
                    "panic:{}",
                    p.map(|p| format!("{} @{}", p.msg, util::short_file(&p.file)))
                        .unwrap_or_default()
                ))
            }
        }
    }

    pub fn reg_info(
        ty_domain: &str,
        instance: &str,
        host: &str,
        addrs: &[IpAddr],
        port: u16,
        txt: &[(&str, Option<&[u8]>)],
    ) -> RegInfo {
        let (ty_only, subtype) = match ty_domain.rsplit_once("._sub.") {
            Some((_, ty)) => (ty.to_string(), Some(ty_domain.to_string())),
            None => (ty_domain.to_string(), None),
        };
        RegInfo {
            ty_domain: ty_domain.to_string(),
            instance: instance.to_string(),
            host: host.to_string(),
            addrs: addrs.to_vec(),
            port,
            txt: txt
                .iter()
                .map(|(k, v)| (k.to_string(), v.map(|v| v.to_vec())))
                .collect(),
            addr_auto: false,
            requires_probe: true,
            fullname: String::new(),
            subtype,
            ty_only,
        }
    }

    /// Registers a service. Returns true if the call was accepted.
    pub fn register(&mut self, h: usize, mut reg: RegInfo) -> bool {
        let info = match Self::make_info(&reg) {
            Ok(i) => i,
            Err(e) => {
                let result = if let Some(p) = e.strip_prefix("panic:") {
                    ApiResult::Panic(format!("ServiceInfo::new: {p}"))
                } else {
                    ApiResult::Err(format!("ServiceInfo::new: {e}"))
                };
                self.push(
                    h,
                    Ev::Api {
                        call: ApiCall::Register(Box::new(reg)),
                        result,
                        chan: None,
                    },
                );
                return false;
            }
        };
        reg.fullname = info.get_fullname().to_string();
        self.api(
            h,
            ApiCall::Register(Box::new(reg)),
            move |d| d.register(info),
            |_| None,
        );
        self.last_api_ok()
    }

    pub fn unregister(&mut self, h: usize, fullname: &str) -> Option<usize> {
        let f = fullname.to_string();
        self.api(
            h,
            ApiCall::Unregister(f.clone()),
            |d| d.unregister(fullname),
            |rx| Some((ChanRx::Unreg(rx), format!("unregister:{f}"))),
        )
    }

    pub fn monitor(&mut self, h: usize) -> Option<usize> {
        self.api(
            h,
            ApiCall::Monitor,
            |d| d.monitor(),
            |rx| Some((ChanRx::Daemon(rx), "monitor".to_string())),
        )
    }

    pub fn shutdown(&mut self, h: usize) -> Option<usize> {
        self.api(
            h,
            ApiCall::Shutdown,
            |d| d.shutdown(),
            |rx| Some((ChanRx::Status(rx), "shutdown".to_string())),
        )
    }

    pub fn status(&mut self, h: usize) -> Option<usize> {
        self.api(
            h,
            ApiCall::Status,
            |d| d.status(),
            |rx| Some((ChanRx::Status(rx), "status".to_string())),
        )
    }

    pub fn get_metrics(&mut self, h: usize) -> Option<usize> {
        self.api(
            h,
            ApiCall::GetMetrics,
            |d| d.get_metrics(),
            |rx| Some((ChanRx::Metrics(rx), "metrics".to_string())),
        )
    }

    pub fn verify(&mut self, h: usize, instance: &str, timeout_ms: u64) {
        self.api(
            h,
            ApiCall::Verify(instance.to_string(), timeout_ms),
            |d| d.verify(instance.to_string(), Duration::from_millis(timeout_ms)),
            |_| None,
        );
    }

    pub fn set_ip_check_interval(&mut self, h: usize, secs: u32) {
        self.api(
            h,
            ApiCall::SetIpCheckInterval(secs),
            |d| d.set_ip_check_interval(secs),
            |_| None,
        );
    }

    pub fn set_service_name_len_max(&mut self, h: usize, n: u8) {
        self.api(
            h,
            ApiCall::SetServiceNameLenMax(n),
            |d| d.set_service_name_len_max(n),
            |_| None,
        );
    }

    pub fn enable_interface(&mut self, h: usize, kinds: Vec<IfKind>) {
        let desc = format!("{kinds:?}");
        self.api(h, ApiCall::EnableInterface(desc), |d| d.enable_interface(kinds), |_| None);
    }

    pub fn disable_interface(&mut self, h: usize, kinds: Vec<IfKind>) {
        let desc = format!("{kinds:?}");
        self.api(
            h,
            ApiCall::DisableInterface(desc),
            |d| d.disable_interface(kinds),
            |_| None,
        );
    }

    pub fn accept_unsolicited(&mut self, h: usize, on: bool) {
        self.api(h, ApiCall::AcceptUnsolicited(on), |d| d.accept_unsolicited(on), |_| None);
    }

    pub fn include_apple_p2p(&mut self, h: usize, on: bool) {
        self.api(h, ApiCall::IncludeAppleP2p(on), |d| d.include_apple_p2p(on), |_| None);
    }

    pub fn set_multicast_loop_v4(&mut self, h: usize, on: bool) {
        self.api(
            h,
            ApiCall::SetMulticastLoopV4(on),
            |d| d.set_multicast_loop_v4(on),
            |_| None,
        );
    }

    pub fn set_multicast_loop_v6(&mut self, h: usize, on: bool) {
        self.api(
            h,
            ApiCall::SetMulticastLoopV6(on),
            |d| d.set_multicast_loop_v6(on),
            |_| None,
        );
    }

    /// Blocking call: issued from a helper thread while the daemon runs iterations.
    pub fn get_ip_check_interval(&mut self, h: usize) -> Option<Result<u32, String>> {
        let daemon = self.hosts[h].daemon.clone()?;
        let handle = std::thread::spawn(move || daemon.get_ip_check_interval());
        let start = Instant::now();
        while !handle.is_finished() {
            if !self.hosts[h].dead {
                self.hosts[h].needs_run = true;
                self.settle();
            }
            std::thread::sleep(Duration::from_micros(200));
            if start.elapsed() > Duration::from_secs(15) {
                break;
            }
        }
        let r = if handle.is_finished() {
            match handle.join() {
                Ok(Ok(v)) => Ok(v),
                Ok(Err(e)) => Err(e.to_string()),
                Err(_) => Err("panic".to_string()),
            }
        } else {
            Err("blocked".to_string())
        };
        let result = match &r {
            Ok(_) => ApiResult::Ok,
            Err(e) if e == "panic" => ApiResult::Panic(String::new()),
            Err(e) => ApiResult::Err(e.clone()),
        };
        self.push(
            h,
            Ev::Api {
                call: ApiCall::GetIpCheckInterval,
                result,
                chan: None,
            },
        );
        Some(r)
    }

    // ----- queries over current state -----

    pub fn snapshot(&mut self, h: usize) -> Option<Snapshot> {
        // Ask for a snapshot at the next gate by running one (idle) iteration.
        let ctx = self.hosts[h].ctx.clone();
        let old = {
            let mut g = ctx.lock();
            let old = g.snapshot_level;
            g.snapshot_level = 2;
            old
        };
        let rg = self.record_gates;
        self.record_gates = false;
        self.run_one(h);
        self.record_gates = rg;
        ctx.lock().snapshot_level = old;
        self.hosts[h].last_snapshot.clone()
    }

    pub fn chan_obs(&self, chan: usize) -> Vec<(u64, Obs)> {
        self.trace.obs(chan).map(|(e, o)| (e.t, o.clone())).collect()
    }

    /// Tears the world down: daemon threads are unwound at their gates.
    pub fn teardown(&mut self) {
        for c in self.chans.iter_mut() {
            c.rx = ChanRx::Dropped;
        }
        for h in self.hosts.iter_mut() {
            h.daemon = None;
            h.ctx.kill();
        }
        for h in self.hosts.iter() {
            let start = Instant::now();
            loop {
                {
                    let g = h.ctx.lock();
                    if g.ended.is_some() {
                        break;
                    }
                }
                h.ctx.cv.notify_all();
                std::thread::sleep(Duration::from_micros(100));
                if start.elapsed() > Duration::from_secs(5) {
                    break;
                }
            }
            let _ = util::take_daemon_panic(h.tag);
        }
    }
}

impl Drop for World {
    fn drop(&mut self) {
        self.teardown();
    }
}

pub fn sock4(ip: [u8; 4], port: u16) -> SocketAddr {
    SocketAddr::V4(SocketAddrV4::new(Ipv4Addr::from(ip), port))
}

pub fn sock6(ip: Ipv6Addr, port: u16, scope: u32) -> SocketAddr {
    SocketAddr::V6(SocketAddrV6::new(ip, port, 0, scope))
}
