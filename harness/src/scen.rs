//! Scenario building blocks: topologies, scripted services/peers, trace views.

use crate::util::Rng;
use crate::wire::{self, Message, Name, Record};
use crate::world::*;
use std::net::{IpAddr, Ipv6Addr, SocketAddr};

pub fn single_v4() -> Vec<IfSpec> {
    vec![IfSpec::new("eth0", 2, 0, &[("10.0.0.5", 24)])]
}

pub fn single_dual() -> Vec<IfSpec> {
    vec![IfSpec::new("eth0", 2, 0, &[("10.0.0.5", 24), ("fe80::5", 64)])]
}

pub fn single_v6() -> Vec<IfSpec> {
    vec![IfSpec::new("eth0", 2, 0, &[("fe80::5", 64)])]
}

pub fn two_v4() -> Vec<IfSpec> {
    vec![
        IfSpec::new("eth0", 2, 0, &[("10.0.0.5", 24)]),
        IfSpec::new("eth1", 3, 1, &[("192.168.1.5", 24)]),
    ]
}

pub fn three_mixed() -> Vec<IfSpec> {
    vec![
        IfSpec::new("eth0", 2, 0, &[("10.0.0.5", 24), ("fe80::5", 64)]),
        IfSpec::new("eth1", 3, 1, &[("192.168.1.5", 24)]),
        IfSpec::new("wlan0", 4, 2, &[("fd00:1::5", 64)]),
    ]
}

/// A random topology of 1..=3 interfaces with v4 and/or v6 addresses on differing subnets.
pub fn random_topology(rng: &mut Rng) -> Vec<IfSpec> {
    let n = 1 + rng.usize(3);
    let mut v = Vec::new();
    for i in 0..n {
        let fam = rng.below(3);
        let mut addrs: Vec<(String, u8)> = Vec::new();
        if fam != 1 {
            addrs.push((format!("10.{}.0.5", i), 24));
        }
        if fam != 0 {
            if rng.chance(1, 2) {
                addrs.push(("fe80::5".to_string(), 64));
            } else {
                addrs.push((format!("fd00:{}::5", i + 1), 64));
            }
        }
        let refs: Vec<(&str, u8)> = addrs.iter().map(|(a, p)| (a.as_str(), *p)).collect();
        v.push(IfSpec::new(&format!("eth{i}"), 2 + i as u32, i, &refs));
    }
    v
}

/// A service as a scripted peer advertises it (ground truth in labels).
#[derive(Clone, Debug)]
pub struct Svc {
    pub ty: Name,
    pub subtype: Option<Name>,
    pub inst: Name,
    pub host: Name,
    pub port: u16,
    pub txt: Vec<u8>,
    pub v4: Vec<[u8; 4]>,
    pub v6: Vec<[u8; 16]>,
    pub ttl_ptr: u32,
    pub ttl_srv: u32,
    pub ttl_txt: u32,
    pub ttl_addr: u32,
}

impl Svc {
    pub fn new(ty: &str, inst_label: &str, host: &str, v4: [u8; 4]) -> Self {
        let tyn = wire::name(ty);
        let mut inst: Name = vec![inst_label.as_bytes().to_vec()];
        inst.extend(tyn.clone());
        Self {
            ty: tyn,
            subtype: None,
            inst,
            host: wire::name(host),
            port: 8080,
            txt: wire::txt_encode(&[(b"k".to_vec(), Some(b"v".to_vec()))]),
            v4: vec![v4],
            v6: vec![],
            ttl_ptr: 4500,
            ttl_srv: 120,
            ttl_txt: 4500,
            ttl_addr: 120,
        }
    }

    pub fn ptr(&self) -> Record {
        wire::ptr(&self.ty, self.ttl_ptr, &self.inst)
    }
    pub fn sub_ptr(&self) -> Option<Record> {
        self.subtype
            .as_ref()
            .map(|s| wire::ptr(s, self.ttl_ptr, &self.inst))
    }
    pub fn srv(&self) -> Record {
        wire::srv(&self.inst, self.ttl_srv, self.port, &self.host)
    }
    pub fn txt(&self) -> Record {
        wire::txt(&self.inst, self.ttl_txt, self.txt.clone())
    }
    pub fn addrs(&self) -> Vec<Record> {
        let mut v: Vec<Record> = self
            .v4
            .iter()
            .map(|a| wire::a(&self.host, self.ttl_addr, *a))
            .collect();
        v.extend(self.v6.iter().map(|a| wire::aaaa(&self.host, self.ttl_addr, *a)));
        v
    }
    pub fn records(&self) -> Vec<Record> {
        let mut v = vec![self.ptr()];
        v.extend(self.sub_ptr());
        v.push(self.srv());
        v.push(self.txt());
        v.extend(self.addrs());
        v
    }
    pub fn announce(&self) -> Message {
        let mut m = Message::response();
        m.answers = self.records();
        m
    }
    pub fn goodbye(&self) -> Message {
        let mut m = Message::response();
        m.answers = self
            .records()
            .into_iter()
            .map(|mut r| {
                r.ttl = 0;
                r
            })
            .collect();
        m
    }
    /// The full name as the daemon reports it.
    pub fn fullname(&self) -> String {
        wire::dotted(&self.inst)
    }
    pub fn ty_str(&self) -> String {
        wire::dotted(&self.ty)
    }
    pub fn host_str(&self) -> String {
        wire::dotted(&self.host)
    }
}

/// Source address of a scripted peer on the 10.0.0.0/24 link.
pub fn peer4(last: u8) -> SocketAddr {
    sock4([10, 0, 0, last], 5353)
}

pub fn peer6(last: u16, scope: u32) -> SocketAddr {
    sock6(Ipv6Addr::new(0xfe80, 0, 0, 0, 0, 0, 0, last), 5353, scope)
}

pub fn ip4(a: [u8; 4]) -> IpAddr {
    IpAddr::from(a)
}

// ---------------------------------------------------------------------------
// Trace views

/// A datagram sent by a daemon, parsed.
pub struct TxM<'a> {
    pub idx: usize,
    pub t: u64,
    pub iter: u64,
    pub host: usize,
    pub out_if: Option<u32>,
    pub v4: bool,
    pub multicast: bool,
    pub dest: SocketAddr,
    pub msg: &'a Message,
}

pub fn tx_msgs(trace: &Trace, host: usize) -> Vec<TxM<'_>> {
    trace
        .entries
        .iter()
        .enumerate()
        .filter_map(|(idx, e)| match &e.ev {
            // (what no peer can hear does not count as sent)
            Ev::Tx(tx) if e.host == host && !tx.misdirected => tx.msg.as_ref().ok().map(|m| TxM {
                idx,
                t: e.t,
                iter: e.iter,
                host,
                out_if: tx.out_if,
                v4: tx.v4,
                multicast: tx.multicast,
                dest: tx.dest,
                msg: m,
            }),
            _ => None,
        })
        .collect()
}

/// Iterations of `host` in which it consumed at least one query datagram.
pub fn query_iters(trace: &Trace, host: usize) -> std::collections::HashSet<u64> {
    trace
        .entries
        .iter()
        .filter_map(|e| match &e.ev {
            Ev::Rx(rx) if e.host == host => match wire::parse_lenient(&rx.data) {
                Ok((m, _)) if m.is_query() => Some(e.iter + 1),
                _ => None,
            },
            _ => None,
        })
        .collect()
}

pub fn unparseable_tx(trace: &Trace) -> usize {
    trace
        .entries
        .iter()
        .filter(|e| matches!(&e.ev, Ev::Tx(tx) if tx.msg.is_err()))
        .count()
}

/// The name a daemon-side string denotes on the wire (RFC 6763 escapes resolved).
pub fn wire_name(s: &str) -> Name {
    wire::name_from_escaped(s)
}

pub fn has_question(m: &Message, name: &Name, qtype: u16) -> bool {
    m.questions
        .iter()
        .any(|q| q.qtype == qtype && wire::names_eq_nocase(&q.name, name))
}

pub fn answers_ptr(m: &Message, ty: &Name, inst: &Name) -> bool {
    m.answers.iter().any(|r| {
        r.rtype == wire::T_PTR
            && wire::names_eq_nocase(&r.name, ty)
            && matches!(&r.rdata, wire::RData::Ptr(t) if wire::names_eq_nocase(t, inst))
    })
}

/// Compact witness: the last `n` rendered trace lines.
pub fn witness(trace: &Trace, n: usize) -> serde_json::Value {
    serde_json::json!(trace.render_tail(n))
}

/// Witness around a time window.
pub fn witness_window(trace: &Trace, from: u64, to: u64, max: usize) -> serde_json::Value {
    let lines: Vec<String> = trace
        .entries
        .iter()
        .filter(|e| e.t >= from && e.t <= to && !matches!(e.ev, Ev::Gate(_)))
        .take(max)
        .map(render_entry)
        .collect();
    serde_json::json!(lines)
}

/// The API history (always part of a witness so that a case can be re-built by hand).
pub fn api_log(trace: &Trace) -> serde_json::Value {
    let lines: Vec<String> = trace
        .entries
        .iter()
        .filter(|e| matches!(e.ev, Ev::Api { .. } | Ev::IfEdit { .. }))
        .take(80)
        .map(render_entry)
        .collect();
    serde_json::json!(lines)
}
