//! Verdicts, evidence files, replay files and the known-findings filter.

use serde_json::{json, Map, Value};
use std::collections::{BTreeMap, HashSet};
use std::sync::Mutex;
use std::time::Instant;

pub const VERIF_DIR: &str = "/verif";

#[derive(Clone, Debug)]
pub struct Violation {
    /// Rule id, e.g. "P2".
    pub rule: String,
    /// Stable identity of the defect (no times, seeds or line numbers).
    pub signature: String,
    pub message: String,
    /// Everything needed to look at / re-run the case.
    pub witness: Value,
}

impl Violation {
    pub fn new(rule: &str, signature: impl Into<String>, message: impl Into<String>) -> Self {
        Self {
            rule: rule.to_string(),
            signature: signature.into(),
            message: message.into(),
            witness: Value::Null,
        }
    }
    pub fn with(mut self, witness: Value) -> Self {
        self.witness = witness;
        self
    }
}

/// What one scenario (or batch) contributes.
#[derive(Default)]
pub struct Local {
    pub violations: Vec<Violation>,
    pub activations: BTreeMap<String, u64>,
    pub distinct: HashSet<u64>,
    pub evaluations: u64,
    pub samples: Vec<Value>,
    pub counters: BTreeMap<String, u64>,
    pub inconclusive: Vec<String>,
}

impl Local {
    pub fn act(&mut self, rule: &str) {
        *self.activations.entry(rule.to_string()).or_insert(0) += 1;
    }
    pub fn act_n(&mut self, rule: &str, n: u64) {
        *self.activations.entry(rule.to_string()).or_insert(0) += n;
    }
    pub fn count(&mut self, key: &str, n: u64) {
        *self.counters.entry(key.to_string()).or_insert(0) += n;
    }
    pub fn max(&mut self, key: &str, n: u64) {
        let e = self.counters.entry(key.to_string()).or_insert(0);
        *e = (*e).max(n);
    }
    pub fn violate(&mut self, v: Violation) {
        if self.violations.len() < 200 {
            self.violations.push(v);
        }
    }
}

pub struct Report {
    pub property: String,
    pub tier: String,
    pub seed: u64,
    pub start: Instant,
    inner: Mutex<Inner>,
}

#[derive(Default)]
struct Inner {
    /// signature -> (first violation, count)
    violations: BTreeMap<String, (Violation, u64)>,
    activations: BTreeMap<String, u64>,
    distinct: HashSet<u64>,
    evaluations: u64,
    samples: Vec<Value>,
    counters: BTreeMap<String, u64>,
    max_counters: HashSet<String>,
    inconclusive: Vec<String>,
    floors: Vec<(String, u64)>,
    rule: String,
    assumptions: Vec<String>,
    extra: Map<String, Value>,
}

#[derive(Clone, Debug)]
pub struct KnownFinding {
    pub property: String,
    pub signature: String,
    pub status: String,
    pub what: String,
}

pub fn load_known_findings() -> Vec<KnownFinding> {
    let path = format!("{VERIF_DIR}/known_findings.json");
    let Ok(text) = std::fs::read_to_string(&path) else {
        return Vec::new();
    };
    let Ok(v) = serde_json::from_str::<Value>(&text) else {
        eprintln!("warning: {path} is not valid JSON; treating as empty");
        return Vec::new();
    };
    v["findings"]
        .as_array()
        .map(|a| {
            a.iter()
                .map(|f| KnownFinding {
                    property: f["property"].as_str().unwrap_or("").to_string(),
                    signature: f["signature"].as_str().unwrap_or("").to_string(),
                    status: f["status"].as_str().unwrap_or("").to_string(),
                    what: f["what"].as_str().unwrap_or("").to_string(),
                })
                .collect()
        })
        .unwrap_or_default()
}

impl Report {
    pub fn new(property: &str, tier: &str, seed: u64) -> Self {
        Self {
            property: property.to_string(),
            tier: tier.to_string(),
            seed,
            start: Instant::now(),
            inner: Mutex::new(Inner::default()),
        }
    }

    pub fn elapsed_s(&self) -> f64 {
        self.start.elapsed().as_secs_f64()
    }

    /// How cases are generated and what makes one distinct / non-trivial.
    pub fn set_rule(&self, rule: &str) {
        self.inner.lock().unwrap().rule = rule.to_string();
    }

    pub fn assume(&self, a: &str) {
        self.inner.lock().unwrap().assumptions.push(a.to_string());
    }

    /// A rule that must have been exercised at least `n` times for the verdict "held".
    pub fn floor(&self, rule: &str, n: u64) {
        self.inner.lock().unwrap().floors.push((rule.to_string(), n));
    }

    pub fn extra(&self, key: &str, v: Value) {
        self.inner.lock().unwrap().extra.insert(key.to_string(), v);
    }

    pub fn inconclusive(&self, why: impl Into<String>) {
        let mut g = self.inner.lock().unwrap();
        if g.inconclusive.len() < 50 {
            g.inconclusive.push(why.into());
        }
    }

    pub fn merge(&self, l: Local) {
        let mut g = self.inner.lock().unwrap();
        for v in l.violations {
            let e = g
                .violations
                .entry(v.signature.clone())
                .or_insert_with(|| (v.clone(), 0));
            e.1 += 1;
        }
        for (k, n) in l.activations {
            *g.activations.entry(k).or_insert(0) += n;
        }
        g.distinct.extend(l.distinct);
        g.evaluations += l.evaluations;
        for s in l.samples {
            if g.samples.len() < 6 {
                g.samples.push(s);
            }
        }
        for (k, n) in l.counters {
            if k.starts_with("max_") {
                let e = g.counters.entry(k.clone()).or_insert(0);
                *e = (*e).max(n);
                g.max_counters.insert(k);
            } else {
                *g.counters.entry(k).or_insert(0) += n;
            }
        }
        for i in l.inconclusive {
            if g.inconclusive.len() < 50 {
                g.inconclusive.push(i);
            }
        }
    }

    /// What a helper process (a sanitizer shard) hands back to the run that started it.
    pub fn summary(&self) -> Value {
        let g = self.inner.lock().unwrap();
        json!({
            "evaluations": g.evaluations,
            "activations": g.activations,
            "counters": g.counters,
            "inconclusive": g.inconclusive,
            "violations": g.violations.iter().map(|(sig, (v, n))| json!({
                "rule": v.rule, "signature": sig, "message": v.message, "witness": v.witness, "occurrences": n,
            })).collect::<Vec<_>>(),
        })
    }

    pub fn violation_count(&self) -> usize {
        self.inner.lock().unwrap().violations.len()
    }

    /// Writes evidence and replay files, prints the verdict lines, returns the exit code.
    pub fn finish(&self) -> i32 {
        let mut g = self.inner.lock().unwrap();
        let known = load_known_findings();
        let wall = self.start.elapsed().as_secs_f64();

        let mut unlisted = Vec::new();
        let mut listed = Vec::new();
        for (sig, (v, n)) in g.violations.iter() {
            match known
                .iter()
                .find(|k| k.property == self.property && k.signature == *sig && k.status == "known")
            {
                Some(k) => listed.push((k.clone(), *n)),
                None => unlisted.push((v.clone(), *n)),
            }
        }

        // Non-vacuity floors.
        let mut unmet = Vec::new();
        for (rule, floor) in g.floors.iter() {
            let have = g.activations.get(rule).copied().unwrap_or(0);
            if have < *floor {
                unmet.push(format!("rule {rule} exercised {have} times, floor {floor}"));
            }
        }
        for u in unmet {
            if g.inconclusive.len() < 50 {
                g.inconclusive.push(u);
            }
        }

        let _ = std::fs::create_dir_all(format!("{VERIF_DIR}/replays"));
        let _ = std::fs::create_dir_all(format!("{VERIF_DIR}/evidence"));
        let mut replay_paths = Vec::new();
        for (v, n) in unlisted.iter() {
            let path = format!(
                "{VERIF_DIR}/replays/{}-{:016x}-{}.json",
                self.property,
                crate::util::fnv_str(&v.signature),
                self.seed
            );
            let doc = json!({
                "property": self.property,
                "tier": self.tier,
                "seed": self.seed,
                "rule": v.rule,
                "signature": v.signature,
                "message": v.message,
                "occurrences": n,
                "witness": v.witness,
            });
            let _ = std::fs::write(&path, serde_json::to_string_pretty(&doc).unwrap());
            replay_paths.push(path);
        }

        let mut coverage = Map::new();
        coverage.insert("evaluations".into(), json!(g.evaluations.max(1)));
        coverage.insert("distinct_nontrivial".into(), json!(g.distinct.len()));
        coverage.insert("rule".into(), json!(g.rule));
        let samples = if g.samples.is_empty() {
            vec![json!("no sample recorded")]
        } else {
            g.samples.clone()
        };
        coverage.insert("samples".into(), Value::Array(samples));
        coverage.insert("rule_activations".into(), json!(g.activations));
        coverage.insert("counters".into(), json!(g.counters));
        coverage.insert(
            "known_findings_observed".into(),
            json!(listed
                .iter()
                .map(|(k, n)| json!({"signature": k.signature, "occurrences": n}))
                .collect::<Vec<_>>()),
        );
        coverage.insert(
            "unlisted_violations".into(),
            json!(unlisted
                .iter()
                .map(|(v, n)| json!({"signature": v.signature, "rule": v.rule, "message": v.message, "occurrences": n}))
                .collect::<Vec<_>>()),
        );
        coverage.insert("inconclusive".into(), json!(g.inconclusive));
        coverage.insert(
            "max_loop_iterations_in_one_scenario".into(),
            json!(crate::world::MAX_SEEN_ITERATIONS.load(std::sync::atomic::Ordering::Relaxed)),
        );
        for (k, v) in g.extra.iter() {
            coverage.insert(k.clone(), v.clone());
        }
        let evidence = json!({
            "property_id": self.property,
            "tier": self.tier,
            "seed": self.seed,
            "level": "exploration",
            "coverage": Value::Object(coverage),
            "assumptions": g.assumptions,
            "wall_s": (wall * 100.0).round() / 100.0,
            "violations": unlisted.len(),
        });
        let epath = format!("{VERIF_DIR}/evidence/{}.json", self.property);
        if let Err(e) = std::fs::write(&epath, serde_json::to_string_pretty(&evidence).unwrap()) {
            eprintln!("cannot write {epath}: {e}");
        }

        for (k, n) in listed.iter() {
            println!(
                "KNOWN-FINDING: property={} {} [signature={} occurrences={}]",
                self.property, k.what, k.signature, n
            );
        }
        // listed findings this run did not happen to reproduce (e.g. races) are still named
        for k in known.iter().filter(|k| {
            k.property == self.property
                && k.status == "known"
                && !listed.iter().any(|(l, _)| l.signature == k.signature)
        }) {
            println!(
                "KNOWN-FINDING: property={} {} [signature={} not observed in this run]",
                self.property, k.what, k.signature
            );
        }
        for ((v, n), path) in unlisted.iter().zip(replay_paths.iter()) {
            println!("VIOLATION property={} replay={}", self.property, path);
            println!(
                "  rule={} occurrences={} signature={}\n  {}",
                v.rule, n, v.signature, v.message
            );
        }
        let summary: Vec<String> = g
            .activations
            .iter()
            .map(|(k, n)| format!("{k}={n}"))
            .collect();
        println!(
            "property={} tier={} seed={} evaluations={} distinct={} wall={:.1}s",
            self.property,
            self.tier,
            self.seed,
            g.evaluations,
            g.distinct.len(),
            wall
        );
        println!("  activations: {}", summary.join(" "));
        if !unlisted.is_empty() {
            return 1;
        }
        if !g.inconclusive.is_empty() {
            for i in g.inconclusive.iter().take(10) {
                println!("INCONCLUSIVE property={} reason={}", self.property, i);
            }
            return 2;
        }
        println!("HELD property={} on what was explored", self.property);
        0
    }
}

/// Runs `f(index, &mut Local)` for index in 0..n on `threads` workers until done or
/// until `budget_s` seconds have passed (checked between items). Returns items run.
pub fn run_parallel<F>(report: &Report, n: u64, threads: usize, budget_s: f64, f: F) -> u64
where
    F: Fn(u64, &mut Local) + Sync,
{
    use std::sync::atomic::{AtomicU64, Ordering};
    let next = AtomicU64::new(0);
    let done = AtomicU64::new(0);
    let start = Instant::now();
    std::thread::scope(|s| {
        for _ in 0..threads.max(1) {
            s.spawn(|| {
                let mut local = Local::default();
                let mut since_merge = 0;
                loop {
                    if start.elapsed().as_secs_f64() > budget_s {
                        break;
                    }
                    let i = next.fetch_add(1, Ordering::SeqCst);
                    if i >= n {
                        break;
                    }
                    let r = std::panic::catch_unwind(std::panic::AssertUnwindSafe(|| {
                        f(i, &mut local)
                    }));
                    if r.is_err() {
                        let p = crate::util::take_thread_panic();
                        local.inconclusive.push(format!(
                            "harness panic in item {i}: {}",
                            p.map(|p| format!("{} at {}:{}", p.msg, p.file, p.line))
                                .unwrap_or_default()
                        ));
                    }
                    done.fetch_add(1, Ordering::SeqCst);
                    since_merge += 1;
                    if since_merge >= 64 {
                        report.merge(std::mem::take(&mut local));
                        since_merge = 0;
                    }
                }
                report.merge(local);
            });
        }
    });
    done.load(Ordering::SeqCst)
}

pub fn threads() -> usize {
    std::env::var("VERIF_THREADS")
        .ok()
        .and_then(|s| s.parse().ok())
        .unwrap_or_else(|| {
            std::thread::available_parallelism()
                .map(|n| n.get())
                .unwrap_or(4)
        })
}
