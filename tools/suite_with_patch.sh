#!/bin/sh
# usage: tools/suite_with_patch.sh <dir holding patch.diff>  -> runs the repository's own suite with the change applied
d="$1"
if ! git -C /repo diff --quiet; then echo "/repo working tree is not clean"; exit 2; fi
git -C /repo apply "$d/patch.diff" || exit 2
cd /repo && timeout 1500 cargo nextest run --workspace --no-fail-fast --tool-config-file pb:/w/lib/nextest.toml --profile pb --test-threads 8 --offline > /tmp/suite_patch.log 2>&1
rc=$?
grep -a "Summary\|FAIL \[" /tmp/suite_patch.log | sort -u | head -8
git -C /repo checkout -- .
exit $rc
