#!/usr/bin/env python3
"""usage: add_finding.py <property> fixed|known <signature> <what> [commit]"""
import json, sys, subprocess
prop, status, sig, what = sys.argv[1:5]
p = '/verif/known_findings.json'
d = json.load(open(p))
e = {"property": prop, "status": status, "signature": sig}
if status == 'fixed':
    h = sys.argv[5] if len(sys.argv) > 5 else subprocess.check_output(['git', '-C', '/repo', 'log', '--format=%h', '-1']).decode().strip()
    e["commit"] = h
    e["what"] = f"fixed: property={prop} {h} {what}"
else:
    e["what"] = what
d['findings'] = [f for f in d['findings'] if not (f['property'] == prop and f['signature'] == sig)]
d['findings'].append(e)
json.dump(d, open(p, 'w'), indent=1)
print("recorded", prop, status, sig)
