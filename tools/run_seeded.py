#!/usr/bin/env python3
"""Runs every stored seeded change (/verif/seeded/<dir>/patch.diff) against the check of its
property (quick tier): applies the patch to /repo's working tree, runs ./check, records what
was reported in seeded/<dir>/meta.json ("verif" block) and restores /repo and the evidence.
usage: tools/run_seeded.py [dir ...]   (default: all)"""
import json, os, subprocess, sys, re

def sh(cmd, **kw):
    return subprocess.run(cmd, shell=True, capture_output=True, text=True, errors="replace", **kw)

def main():
    base = "/verif/seeded"
    dirs = sys.argv[1:] or sorted(os.listdir(base))
    if sh("git -C /repo diff --quiet").returncode != 0:
        print("/repo working tree is not clean"); sys.exit(2)
    head = sh("git -C /repo log --format=%h -1").stdout.strip()
    for d in dirs:
        path = os.path.join(base, d)
        meta_p = os.path.join(path, "meta.json")
        if not os.path.exists(os.path.join(path, "patch.diff")):
            continue
        meta = json.load(open(meta_p)) if os.path.exists(meta_p) else {}
        prop = meta.get("check") or meta.get("property", d[:3])  # "check": the change is reported by another property's check
        if meta.get("superseded") or meta.get("skip_quick"):
            print(d, prop, "skipped:", meta.get("superseded") or meta.get("skip_quick")); continue
        if sh(f"git -C /repo apply {path}/patch.diff").returncode != 0:
            print(d, "patch does not apply to", head); continue
        r = sh(f"cd /verif && ./check {prop} quick")
        sh("git -C /repo checkout -- . && git -C /verif checkout -- evidence && rm -f /verif/replays/*")
        sigs = []
        for line in r.stdout.splitlines():
            m = re.search(r"rule=(\S+) occurrences=(\d+) signature=(.*)$", line)
            if m and "KNOWN-FINDING" not in line:
                sigs.append({"rule": m.group(1), "occurrences": int(m.group(2)), "signature": m.group(3).strip()})
        caught = r.returncode == 1 and any("VIOLATION" in l for l in r.stdout.splitlines())
        meta["verif"] = {"repo_commit": head, "check": f"./check {prop} quick", "exit": r.returncode, "caught": caught, "reported": sigs[:12]}
        json.dump(meta, open(meta_p, "w"), indent=1)
        print(d, prop, "caught" if caught else f"NOT caught (exit {r.returncode})", [s["signature"] for s in sigs[:3]])

main()
