#!/bin/sh
# Builds a scratch copy of /repo (a worktree of its HEAD) and of the harness under /tmp/trial, so
# that seeded changes can be tried while other runs use /repo and /verif. Nothing registered in
# MANIFEST.json needs it. usage: tools/trial_env.sh [reset]
set -e
T=/tmp/trial
if [ "${1:-}" = "reset" ] || [ ! -d $T/repo ]; then
    git -C /repo worktree remove --force $T/repo 2>/dev/null || true
    rm -rf $T; mkdir -p $T/out
    git -C /repo worktree add -q --detach $T/repo HEAD
fi
rm -rf $T/harness; mkdir -p $T/harness
cp -r /verif/harness/src /verif/harness/Cargo.toml /verif/harness/Cargo.lock $T/harness/ 2>/dev/null
mkdir -p $T/harness/.cargo
printf '[net]\noffline = true\n[build]\ntarget-dir = "/tmp/trial/target"\n' > $T/harness/.cargo/config.toml
sed -i 's#path = "/repo"#path = "/tmp/trial/repo"#' $T/harness/Cargo.toml
sed -i 's#pub const VERIF_DIR: &str = "/verif";#pub const VERIF_DIR: \&str = "/tmp/trial/out";#' $T/harness/src/report.rs
cp /verif/known_findings.json $T/out/
grep -n "path" $T/harness/Cargo.toml
