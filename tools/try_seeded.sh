#!/bin/sh
# usage: tools/try_seeded.sh <dir holding patch.diff> <check id>...
# Applies a seeded change to /repo's working tree, runs the named checks (quick tier by
# default, VERIF_TIER=thorough for the other), prints what they report, and restores
# /repo and the evidence files (a run on a changed tree must not leave evidence behind).
set -u
d="$1"; shift
tier="${VERIF_TIER:-quick}"
if ! git -C /repo diff --quiet; then echo "/repo working tree is not clean"; exit 2; fi
git -C /repo apply "$d/patch.diff" || { echo "patch does not apply"; exit 2; }
cd /verif || exit 2
for id in "$@"; do
    ./check "$id" "$tier" > "/tmp/seeded_$id.out" 2>&1
    rc=$?
    echo "$id exit=$rc violations=$(grep -a -c '^VIOLATION' "/tmp/seeded_$id.out")"
    grep -a "signature=" "/tmp/seeded_$id.out" | grep -av "KNOWN-FINDING" | sed 's/^ *//' | cut -c1-220 | head -8
    grep -a "INCONCLUSIVE" "/tmp/seeded_$id.out" | head -3
done
git -C /repo checkout -- .
git -C /verif checkout -- evidence
rm -f /verif/replays/*
