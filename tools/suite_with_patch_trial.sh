#!/bin/sh
# usage: tools/suite_with_patch_trial.sh <dir holding patch.diff>  -> the repository's suite with the change applied, in /tmp/trial/repo
T=/tmp/trial
d="$1"
git -C $T/repo checkout -q -- .
git -C $T/repo apply "$d/patch.diff" || exit 2
cd $T/repo && timeout 1800 cargo nextest run --workspace --no-fail-fast --tool-config-file pb:/w/lib/nextest.toml --profile pb --test-threads 8 --offline > $T/suite_patch.log 2>&1
rc=$?
grep -a "Summary\|FAIL \[" $T/suite_patch.log | sort -u | head -8
git -C $T/repo checkout -q -- .
exit $rc
