#!/usr/bin/env python3
"""As run_seeded.py, but in the scratch environment of tools/trial_env.sh (/tmp/trial: a worktree of /repo's HEAD
and a copy of the harness), so that /repo and /verif stay untouched while other runs use them. Records what was
reported in seeded/<dir>/meta.json ("verif" block). usage: tools/run_seeded_trial.py [dir ...]   (default: all)"""
import json, os, subprocess, sys, re

T = "/tmp/trial"

def sh(cmd, **kw):
    return subprocess.run(cmd, shell=True, capture_output=True, text=True, errors="replace", **kw)

def main():
    base = "/verif/seeded"
    dirs = sys.argv[1:] or sorted(os.listdir(base))
    head = sh(f"git -C {T}/repo log --format=%h -1").stdout.strip()
    if head != sh("git -C /repo log --format=%h -1").stdout.strip():
        print("the scratch worktree is not at /repo's HEAD: run tools/trial_env.sh reset"); sys.exit(2)
    threads = os.environ.get("VERIF_THREADS", "8")
    for d in dirs:
        path = os.path.join(base, d)
        meta_p = os.path.join(path, "meta.json")
        if not os.path.exists(os.path.join(path, "patch.diff")):
            continue
        meta = json.load(open(meta_p)) if os.path.exists(meta_p) else {}
        prop = meta.get("check") or meta.get("property", d[:3])
        if meta.get("superseded") or meta.get("skip_quick"):
            print(d, prop, "skipped:", meta.get("superseded") or meta.get("skip_quick")); continue
        sh(f"git -C {T}/repo checkout -q -- .")
        if sh(f"git -C {T}/repo apply {path}/patch.diff").returncode != 0:
            print(d, "patch does not apply to", head); continue
        b = sh(f"cd {T}/harness && CARGO_NET_OFFLINE=true cargo build --offline --profile checked --bin check")
        if b.returncode != 0:
            print(d, "build failed"); sh(f"git -C {T}/repo checkout -q -- ."); continue
        r = sh(f"cd {T}/out && VERIF_THREADS={threads} {T}/target/checked/check {prop} quick")
        sh(f"git -C {T}/repo checkout -q -- . ; rm -f {T}/out/replays/*")
        sigs = []
        for line in r.stdout.splitlines():
            m = re.search(r"rule=(\S+) occurrences=(\d+) signature=(.*)$", line)
            if m and "KNOWN-FINDING" not in line:
                sigs.append({"rule": m.group(1), "occurrences": int(m.group(2)), "signature": m.group(3).strip()})
        caught = r.returncode == 1 and any(l.startswith("VIOLATION") for l in r.stdout.splitlines())
        meta["verif"] = {"repo_commit": head, "check": f"./check {prop} quick", "exit": r.returncode, "caught": caught, "reported": sigs[:12]}
        json.dump(meta, open(meta_p, "w"), indent=1)
        print(d, prop, "caught" if caught else f"NOT caught (exit {r.returncode})", [s["signature"] for s in sigs[:3]], flush=True)
    sh(f"cd {T}/harness && CARGO_NET_OFFLINE=true cargo build --offline --profile checked --bin check")

main()
