#!/bin/sh
# usage: tools/try_seeded_trial.sh <dir holding patch.diff> <check id>...   (works on /tmp/trial, see trial_env.sh)
set -u
T=/tmp/trial
d="$1"; shift
git -C $T/repo checkout -q -- . 
# PRE_PATCH: a change still to be committed to /repo (e.g. a pending fix) that the seeded change goes on top of
[ -n "${PRE_PATCH:-}" ] && git -C $T/repo apply "$PRE_PATCH"
git -C $T/repo apply "$d/patch.diff" || { echo "patch does not apply"; exit 2; }
( cd $T/harness && CARGO_NET_OFFLINE=true cargo build --offline --profile checked > $T/build.log 2>&1 ) || { echo "build failed"; tail -5 $T/build.log; git -C $T/repo checkout -q -- .; exit 2; }
for id in "$@"; do
    ( cd $T/out && VERIF_THREADS=${VERIF_THREADS:-6} $T/target/checked/check "$id" quick > "$T/out/seeded_$id.out" 2>&1 )
    echo "$id exit=$? violations=$(grep -a -c '^VIOLATION' "$T/out/seeded_$id.out")"
    grep -a "signature=" "$T/out/seeded_$id.out" | grep -av "KNOWN-FINDING" | sed 's/^ *//' | cut -c1-220 | head -8
done
git -C $T/repo checkout -q -- .
[ -n "${PRE_PATCH:-}" ] && git -C $T/repo apply "$PRE_PATCH"
rm -f $T/out/replays/*
