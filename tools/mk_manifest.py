#!/usr/bin/env python3
"""Regenerates /verif/MANIFEST.json from the table below (kept in one place so that
claims, techniques and not_applicable stay consistent)."""
import json, subprocess

ALL = [f"C{n:02d}" for n in range(1, 21)]

CLAIMS = {
 "C01": dict(
  technique="runtime monitor over decoder executions: panic hook + read_name step counter hook + counting allocator + differential against an independent RFC 1035 parser, on random/mutated/grammar/exhaustive small-alphabet inputs",
  text="Every generated datagram (millions per run, plus every string over a 9-byte name alphabet up to length 6/7 behind four headers) is decoded by the real decoder under instrumentation: a panic, more than 128*len+1024 name-loop steps, more than 1024*len+1MiB peak heap, a name longer than the datagram, or any disagreement with the independent parser W on an accepted message is a violation. Held on the inputs explored; not a proof for all 2^72000 datagrams.",
  note="Trusts the independent parser W (harness/src/wire.rs), the step hook in read_name (loops elsewhere are bounded by 16-bit counts) and the counting allocator.",
  ref="§6 C01"),
 "C02": dict(
  technique="runtime differential monitor: messages built through the crate's encoder are parsed back by an independent parser and by the crate's decoder and compared with label-level ground truth",
  text="Tens of thousands (thorough: >1M) generated messages per run - small, near the 8972-byte limit, several packets long, with an over-size record followed by suffix-sharing records, with look-alike names (a\\.b vs a.b) and ServiceInfo-derived names - are encoded by the real encoder; every packet must be <= 8972 bytes, parse strictly, carry only added records in order with intact names, drop nothing that fits, set TC on all but the last packet, and read back identically through the crate's own decoder.",
  note="Trusts W. E4 allowance: in a response, additionals after the first one that does not fit may be left out (DESIGN §12).",
  ref="§6 C02"),
 "C11": dict(
  technique="runtime monitor against an exact integer model: real record life-time functions driven under a virtual clock (component), refresh/flush/expiry observed on the simulated wire (world)",
  text="Every TTL 1..600 (thorough ..3000) and large values up to u32::MAX are run through observation sequences (at the marks, +-1 ms around every boundary, skipping marks, with fresh copies) and each answer of the real record (expired, half-life, refresh due, written known-answer TTL) is compared with the model of the statement.",
  note="TTL<=1 carries no refresh obligation. World-level part (refresh queries, cache-flush rule, late wake-ups) is reported in the evidence when present.",
  ref="§6 C11"),
 "C16": dict(
  technique="runtime round-trip monitor: generated property lists through every input type -> ServiceInfo::new -> TXT RDATA (facade) -> independent TXT parser and the crate's public decoder, compared with the given list",
  text="Generated lists (empty/oversize/non-ASCII/'='-bearing keys, binary/empty/absent values, duplicates and case variants, sizes around 255) must either be refused at creation or arrive unchanged (keys, bytes, order, none-vs-empty, first duplicate wins, case-insensitive lookup); arbitrary and damaged byte strings must decode without panic into strings that lie inside the record.",
  note="A zero-length TXT string may be read as end-of-data or skipped. HashMap inputs holding case variants of one key are skipped (order undefined).",
  ref="§6 C16"),
}

NOT_YET = "monitor not built yet (work in progress; the technique family applies, see DESIGN.md §6)"

def main():
    commits = subprocess.check_output(["git", "-C", "/repo", "log", "--format=%h %s"]).decode().splitlines()
    hook_commits = [c.split()[0] for c in commits if c.split(" ", 1)[1].startswith("verif-hooks")]
    checks = []
    for pid in ALL:
        if pid not in CLAIMS:
            continue
        c = CLAIMS[pid]
        checks.append({
            "property_id": pid,
            "quick_cmd": f"./check {pid} quick",
            "thorough_cmd": f"./check {pid} thorough",
            "evidence_file": f"/verif/evidence/{pid}.json",
            "replay_cmd_template": "cat {path}  # witness (inputs as hex / operation trace); re-run: VERIF_SEED=<seed in file> ./check " + pid + " <tier in file>",
            "engine": "mdnsverif",
            "level_claimed": {"category": "exploration", "text": c["text"], "design_ref": c["ref"]},
            "level_note": c["note"],
            "technique": c["technique"],
        })
    m = {
        "version": 1,
        "setup_cmd": "cd /verif/harness && CARGO_NET_OFFLINE=true cargo build --offline --profile checked",
        "hooks": {
            "guard": "verif-hooks",
            "enable": "cargo feature verif-hooks of mdns-sd, switched on by the harness' path dependency (/verif/harness/Cargo.toml)",
            "baseline_off_cmd": "cd /repo && cargo test --workspace --no-fail-fast --offline",
            "source_commits": list(reversed(hook_commits)),
            "add_only": True,
        },
        "engines": [{
            "name": "mdnsverif",
            "path": "/verif/harness",
            "serves_properties": sorted(CLAIMS.keys()),
            "kind_free_text": "Rust harness: runs the real crate behind off-by-default hooks (virtual clock, in-memory sockets, scripted interface table and jitter, per-iteration gate, state snapshot, codec facade); monitors are trace checkers, reference-model comparisons and invariants; independent wire codec W; counting allocator; panic recorder.",
        }],
        "checks": checks,
        "notes": "All verdicts are about the executions produced (held on what was explored / violated with witness / inconclusive, exit 0/1/2). Known findings: /verif/known_findings.json. Design and adjudication log: /verif/DESIGN.md.",
        "not_applicable": [{"property_id": p, "reason": NOT_YET} for p in ALL if p not in CLAIMS],
    }
    json.dump(m, open("/verif/MANIFEST.json", "w"), indent=1)
    print("claimed:", sorted(CLAIMS.keys()))

main()
