#!/usr/bin/env python3
"""Regenerates /verif/MANIFEST.json from the table below (kept in one place so that
claims, techniques and not_applicable stay consistent)."""
import json, subprocess

ALL = [f"C{n:02d}" for n in range(1, 21)]

CLAIMS = {
 "C01": dict(
  technique="runtime monitor over decoder executions: panic hook + read_name step counter hook + counting allocator + differential against an independent RFC 1035 parser, on random/mutated/grammar/overlapping-pointer-run/exhaustive small-alphabet inputs",
  text="Every generated datagram (millions per run, plus every string over a 9-byte name alphabet up to length 6/7 behind four headers) is decoded by the real decoder under instrumentation: a panic, more than 128*len+1024 name-loop steps, more than 1024*len+1MiB peak heap, a name longer than the datagram, or any disagreement with the independent parser W on an accepted message is a violation; label runs laid over one another by backward pointers (G5), strings and RDATA whose length octets are one off either way and well-formed TXT records of several hundred bytes of 2-/3-/4-byte characters in front of a record the header announces but the datagram lacks (G6) and, at a running daemon, every proper prefix of valid responses (R6: nothing beyond the received bytes may be acted on) are part of the input. Held on the inputs explored; not a proof for all 2^72000 datagrams.",
  note="Trusts the independent parser W (harness/src/wire.rs), the step hook in read_name (loops elsewhere are bounded by 16-bit counts) and the counting allocator.",
  ref="§6 C01"),
 "C02": dict(
  technique="runtime differential monitor: messages built through the crate's encoder are parsed back by an independent parser and by the crate's decoder and compared with label-level ground truth",
  text="Tens of thousands (thorough: >1M) generated messages per run - small, near the 8972-byte limit, several packets long, with an over-size record followed by suffix-sharing records, with look-alike names (a\\.b vs a.b), names whose lone backslashes are given unescaped the way the daemon keeps names it learned from the network, and ServiceInfo-derived names - are encoded by the real encoder; every packet must be <= 8972 bytes, parse strictly, carry only added records in order with intact names, drop nothing that fits, set TC on all but the last packet, and read back identically through the crate's own decoder; a label of more than 63 bytes (the daemon meets them in names learned from the network) is replaced by a whole-character prefix in a packet that both parsers accept (E7).",
  note="Trusts W. E4 allowance: in a response, additionals after the first one that does not fit may be left out (DESIGN §12).",
  ref="§6 C02"),
 "C11": dict(
  technique="runtime monitor against an exact integer model: real record life-time functions driven under a virtual clock (component), refresh/flush/expiry observed on the simulated wire (world)",
  text="Every TTL 1..600 (thorough ..3000) and large values up to u32::MAX are run through observation sequences (at the marks, +-1 ms around every boundary, skipping marks, with fresh copies) and each answer of the real record (expired, half-life, refresh due, written known-answer TTL) is compared with the model of the statement.",
  note="TTL<=1 carries no refresh obligation. World-level part: refresh queries on the wire (L2; a quarter of the cases with host-name searches for the services' hosts open next to the browse, up to four cache-only browses of other types on the same daemon), the cache-flush rule around the one-second boundary for A and AAAA records (other interface, other family, same burst, a record in its last second, a further flush within the second) and for TXT/SRV replaced and replaced back (L3), late wake-ups (L1).",
  ref="§6 C11"),
 "C16": dict(
  technique="runtime round-trip monitor: generated property lists through every input type -> ServiceInfo::new -> TXT RDATA (facade) -> independent TXT parser and the crate's public decoder, compared with the given list; end to end through a registering and a browsing daemon on one simulated link",
  text="Generated lists (empty/oversize/non-ASCII/'='-bearing keys, binary/empty/absent values, duplicates and case variants, sizes around 255) must either be refused at creation or arrive unchanged (keys, bytes, order, none-vs-empty, first duplicate wins, case-insensitive lookup); arbitrary and damaged byte strings must decode without panic into strings that lie inside the record. End to end, thousands of accepted lists are registered on one daemon and must be reported unchanged (order, bytes, none-vs-empty, case-insensitive lookup) in the ServiceResolved of a second daemon, learned from the announcement or from the answer to its query; a second registration whose keys and values differ in letter case only must be reported with its own bytes.",
  note="A zero-length TXT string may be read as end-of-data or skipped. HashMap inputs holding case variants of one key are skipped (order undefined).",
  ref="§6 C16"),
 "C07": dict(
  technique="runtime trace monitor over the simulated wire: per registration x interface x family rules on probe count/spacing/content, announcement time, repeat and content, silence before the announcement",
  text="Thousands of generated registration scenarios (1-3 interfaces, v4/v6, 1-4 services, shared hosts, subtypes, automatic addresses, probing on/off, staggering, forced boundary jitters, queries injected while probing, an interface appearing later) run against the real daemon under a virtual clock; every packet it emits is parsed by the independent parser and checked against P1-P6 with exact virtual-time arithmetic (lazy stepping) or +g (eager); services renamed by a conflict while probing (the C08 part R scenarios) are judged for reaching the announced state and two announcements one second apart under their final names; services that lost a simultaneous-probe comparison (the C08 part T scenarios) must send three fresh probes before announcing (P1-after-yield).",
  note="Oversleep stepping excluded (schedule presumes the daemon is woken when it asks). Services sharing a host name use the same address set (otherwise the daemon conflicts with its own announcements, noted in DESIGN §12).",
  ref="§6 C07"),
 "C12": dict(
  technique="runtime differential monitor (same scenario woken only on request vs additionally every 10 ms) + invariant on hooked state at every loop iteration (requested wake-up <= every future due time) + the poll time-out computed by the run loop (hooked) compared with its earliest timer, also under sends that cost virtual time + idle-spin detector",
  text="Paired lazy/eager runs of registration, search, lost-tiebreak, conflict-rename, interface-check-interval, expiry/goodbye/flush/verify/stop, follow-up, interface-flap-while-probing, conflict-during-an-update and host-name-time-out (0, 1, 5 ms ...) scenarios, a quarter of them on daemons that do not hear their own multicast: every action of the eager run must occur in the lazy run and not later (W1); at every gate of the lazy run the requested wake-up is compared with all pending due times read from a full state snapshot (W2); three idle iterations asking to be woken at or before their own time are a spin (W3); at every gate of the lazy run and of a third run in which every datagram sent costs 1-3 ms of virtual time (timers fall due while the daemon is busy) the time-out about to be handed to poll ends no later than the earliest timer, or one millisecond from now if that is overdue (W4).",
  note="Constant jitter per pair (HashMap visiting order must not change who gets which jitter). The interface-check timer is a local of the run loop: covered by W1 only.",
  ref="§6 C12"),
 "C13": dict(
  technique="runtime trace monitor: per-channel protocol automaton over delivered events plus a wire rule (no question for a stopped type/host until a new search starts), over generated API histories observed for hours of virtual time",
  text="Generated histories of browse / browse again / browse_cache / stop / resolve_hostname (timeouts, letter-case variants) / stop_resolve_hostname / dropped receivers / shutdown with packet arrivals, calls clustered +-1 ms around retransmission instants, watched for 20 s or 2-3 virtual hours, a fifth of the short histories on a daemon woken up to 2, 40 or 400 ms late: T1 first event SearchStarted, T2 Found before Resolved, T3 exactly one final SearchStopped (SearchTimeout first on timeout), T4 no query for the stopped name afterwards, T5 no replay from the cache on re-browse, T6 no query for a cache-only browse (also no follow-up and no new-interface query, also when it starts on an instance cached beforehand but not resolved), T7 the hooked cache holds nothing of a stopped browse (PTR of the type, SRV/TXT of its instances, addresses of their hosts; host names with capitals in half of the cases). PTR TTLs from 1 s.",
  note="Services of browsed types live on hosts nobody resolves by name. The cache-only finding (T6) was repaired in /repo and is recorded as fixed in known_findings.json.",
  ref="§6 C13"),
 "C14": dict(
  technique="runtime monitor over enumerated command-queue positions and iteration splits of shutdown (simulated daemon behind the gate), calls injected mid-clean-up through a send hook, real-thread stress with resolved-receiver check; ThreadSanitizer and valgrind memcheck over the real-thread stress (thorough)",
  text="Part A: shutdown at every position of every sequence of N<=1 (thorough N<=2) commands out of 20 kinds, released in one iteration or split over up to three, with 0-3 announced services and open searches (a third of the cases with four more open browses and searches whose receivers were dropped without a stop), plus sampled sequences to N=8: goodbyes once per announced service x family (X1), one final SearchStopped per open search (X2), Shutdown reported and every later call of every kind, shutdown included, refused (X3), every reply receiver ever handed out resolved or closed once the daemon thread ended (X4), no panic (X5), second shutdown harmless (X6). A third of the part-A worlds run on a port of their own (5454): goodbyes sent to another port are not heard and do not count. Part A4: shutdown 5-700 ms into the update of a service that was renamed by a conflict still withdraws the announced name. Part A3: a slow consumer whose browse channel is full when shutdown comes still gets its SearchStopped. Part A2: 1-4 calls issued on the daemon thread at the moment the k-th goodbye datagram of a shutdown goes out (send hook): accepted calls are answered or their channel closes. Part B: hundreds (thorough: 20000) of real daemons on private ports with 2-8 racing client threads that read their channels as they go; one run in eight shuts down 0.9-2.5 s late, with services announced and events flowing.",
  note="Part B samples OS schedules. Thorough also runs Part B under ThreadSanitizer (nightly, -Zbuild-std, 16 x 120 daemons) and under valgrind memcheck (8 x 25 daemons); every report block is a violation of X5; if the instrumented build cannot be made the part is recorded as not run and decides nothing. One known finding (residual send/exit race) in known_findings.json.",
  ref="§6 C14"),
 "C15": dict(
  technique="runtime crash/liveness monitor: panic hook + daemon-thread exit guard + post-input liveness probes, under hostile API arguments and hostile datagram streams in a simulated world with conflict injection",
  text="Thousands of cases of 1-3 hostile API calls (names from a hostile grammar incl. labels of 0-256 bytes, multi-byte boundaries, dots/backslashes, existing rename suffixes, totals around 255; hostile property lists with key=value of exactly 255 / 256 bytes; extreme numbers), each followed by 6.3 virtual seconds in which every probe is answered with conflicting data, and hundreds of 20-80-datagram streams (random, mutated, grammar-hostile, and valid record chains with hostile labels that the daemon re-encodes in follow-ups and arbitrary / damaged TXT data, strings one byte short or long, long non-ASCII TXT; scripted: labels that merge into one of more than 63 bytes whose 63rd byte lies inside a 2-/3-/4-byte character, as PTR target and as a one-shot question; conflicting answers also spell the probed name as its escaped text, so that renaming runs for names with dots and backslashes; competing probe queries carrying our records minus one / plus one / changed / reversed arrive next to them); afterwards status must be Running, a fresh browse must start, and the browse opened before the input must still report a new instance.",
  note="Checked profile (overflow checks and debug assertions on), so overflow-only panics are reported too.",
  ref="§6 C15"),
 "C19": dict(
  technique="runtime trace monitor with attribution: every observed PTR/A/AAAA question is matched against the back-off chain of the running search, refresh marks computed from the delivered-record history, or a new-interface event; unexplained or missing queries are violations",
  text="The search histories of C13 over 20 s and 2-3 virtual hours plus lone searches over three virtual days: each chain instant (start, +1 s, +2 s ... doubling to 3600 s, relative to the previous actual query) must produce its query on every interface and family (B1), gaps never exceed one hour (B3), and every other query for the same question needs a refresh mark (80/85/90/95 %) of a live cached record or an interface arrival (B2); a second browse whose receiver is dropped at once does not silence the running search; an instance delivered in stages with nobody answering gets at most three follow-up rounds, at least half a second apart, each question once per round, interface and family - also with two SRV records cached for the instance (B4); the questions one verify request causes come no more often than the doubling chain started at the request allows (B5).",
  note="In the search workloads follow-up and verify questions are not attributed; the exemptions are judged by B4 on staged deliveries and by B5 on single verify requests.",
  ref="§6 C19"),
 "C03": dict(
  technique="runtime trace monitor against a delivered-record history model: every ServiceResolved event is checked against the lives (reception, TTL, goodbye, cache-flush displacement, verify cuts) of the records actually delivered to the daemon",
  text="Thousands of browser scenarios (1-3 scripted services, TTLs 1 s..4500 s per record type, shared hosts, several addresses, v4/v6; announce / split announce / cache-flush updates / goodbye / partial goodbye / vanish / verify / foreign records; responders answering never / always / sometimes; loss, duplication and delay; lazy, eager and oversleep stepping; horizon 3 x largest TTL): instance names with capitals and spaces; values updated and updated back right after a re-announcement: every field of every ServiceResolved must come from records delivered for that instance and live at that instant, and of several live SRV or TXT records the one received last is shown (S1-S4, S1-latest, S3-latest); the two-interface scenarios of C18 part P are judged for the interface tags of the addresses shown, and an address update delivered inside the announcement of a service of an unbrowsed type on the same host for the cache-flush rule; an instance without TXT record whose new SRV record arrives inside such an announcement; services that move ports and withdraw their old SRV record.",
  note="Records keep one spelling and one cache-flush setting per identity. Same-instant deliveries are judged leniently (before/during). Trusts the history model (harness/src/model.rs).",
  ref="§6 C03"),
 "C04": dict(
  technique="runtime trace monitor over enumerated delivery orders and packet splits: completeness instants computed from the delivered records, ServiceFound/ServiceResolved required at that very instant; follow-up questions timed on the simulated wire; plus a real-socket race monitor (API calls vs datagrams) for the poller path the simulation bypasses",
  text="The 4-7 records of an instance in every order and every split into up to four packets (exhaustive for 4 records quick / 5 thorough, sampled beyond), answer or additional section, duplicates, foreign records, 1-3 instances, hostile labels, host names in another letter case, earlier searches of the type (browse / browse_cache, stopped or replaced) before the judged one; PTR-only deliveries with the daemon's follow-up questions answered on try 1/2/3/never: Found then Resolved at the instant the last needed record arrives (F1), follow-ups within 500 ms, 500 ms apart, at most three (F2) - also for an instance that was withdrawn or expired and comes back with a lone PTR, for services carrying an unbrowsed subtype and with PTR answers of other types around ours -, reported name is the registered one (F3). An instance that moved to another host (old SRV record first, then new SRV, goodbye of the old one and the new host's address in every order, one packet or three) is resolved when the last needed record is there. Part R: one real daemon on a private port with a second thread issuing API calls while real announcements arrive (25 rounds quick, 200 thorough): what reached the socket is acted on without waiting for the next datagram.",
  note="No obligation for follow-up questions about names containing '.' or '\\' (re-encoded differently, see known findings of C08).",
  ref="§6 C04"),
 "C05": dict(
  technique="runtime trace monitor against the delivered-record history model: departure instants (goodbye + 1 s, PTR expiry, verify timeout) computed from the history, every ServiceRemoved and every departure judged both ways",
  text="The browser scenarios of C03 with TTLs 1 s..4500 s, verify timeouts {0, 1, 400, 999, 1000, 1001, 1500, 2750 ms, 10 s, 1 h}, refresh queries answered or not, lossy deliveries, horizons 3 x largest TTL: instance names with capitals: each departure must produce exactly one ServiceRemoved on time (D2-D4) and each ServiceRemoved must be explained by a departure (D5), also when one of two interfaces the instance was learned on goes away (the scenarios of C18 part P) and when the search of another browsed type is stopped, replaced or started in between; an address goodbye carried inside the packet of a service of an unbrowsed type (host names with capitals) counts as a departure too.",
  note="A removal up to one second before a record's expiry is accepted (the crate treats the last second of a record as gone).",
  ref="§6 C05"),
 "C06": dict(
  technique="runtime differential monitor against a responder reference model: for each injected query the response required by the statement is computed from the API history and compared with the daemon's egress of the iteration that consumed the query",
  text="Thousands of responder scenarios (1-3 interfaces on differing subnets, v4/v6; 1-4 services with subtypes, shared hosts, upper-case letters; registered, re-registered, unregistered) with 10-39 queries each at any time, 1-8 questions among type/subtype/meta PTR, SRV, TXT, ANY, A/AAAA (case variants), foreign names, from port 5353 or an ephemeral port, over IPv4 or IPv6, with and without known answers, with EDNS0 OPT or unknown-type additionals appended, with header bits other than QR set (RD, AD, CD, TC, AA, opcode untouched), instance names with capitals inside and outside ASCII, services sharing a host name with the same or with per-family address sets, one scenario in six with a service renamed by a conflict (names in force read off its last announcement): record sets, values, link-local addresses only, destination, ID and question echo (Q1-Q6).",
  note="A query is judged only if nothing else was due at that instant and not within 400 ms of the end of probing.",
  ref="§6 C06"),
 "C08": dict(
  technique="runtime trace monitor over the simulated wire of one to three real daemons: injected conflicting responses and competing probes at every probe step, a label-level model of the renaming rule, pairwise antisymmetry runs, and a final-state check over a dense grid of start offsets",
  text="Part R: conflicting SRV/TXT/A/AAAA responses (also in another letter case) at every millisecond of probing against hostile names (existing suffixes up to 2^32-1, 57-63-byte labels, full-length labels whose counter gains a digit with the next rename, dots, non-ASCII), then questions of every type for old and new names, then unregister/shutdown: lost name never used again, new name by the rule, probed three times, reported by NameChange, used in every later packet, encodable (N1, N4, N5). Part T: record-set pairs shown to each other after the 1st/2nd/3rd probe, sorted / reversed / other case: one-second wait then three probes (N2), opposite verdicts (N3), earlier data yields (N3b), also against foreign SRV records that differ in priority or weight only; a service renamed by a conflict defends its new name against a competing probe before its announcement (N4-defend-renamed); a name the daemon held before (unregistered, or announced and being updated) that is registered again with other data and contested while the new data is probed is given up like any other (N1-after-history). Part D: two or three daemons on one link at offsets from a dense grid x jitters: exactly one keeps each original name, all announced, no shared names (N6).",
  note="A counter at 2^32-1 may count on or start a fresh suffix. A conflict after the third probe is 250 ms old is not judged. Two known findings for instance names with a dot inside the label (known_findings.json).",
  ref="§6 C08"),
 "C09": dict(
  technique="runtime trace monitor over the simulated wire: goodbye packets after unregister/shutdown parsed independently and compared with the names last announced per interface and family; later queries judged with the responder model of C06",
  text="Register / unregister (while probing, when announced, twice, unknown, other letter case) / shutdown histories over 1-4 services on 1-3 interfaces, one scenario in five with the service or host renamed by a conflict on one interface: status reply (U1), goodbye with PTR, subtype PTR, SRV, TXT and the link's addresses, all TTL 0, under the announced names, on each announced interface and family in use (U2), nowhere else (U3), repeated once 120 ms later (U4), no announcement or answer afterwards while other services answer unchanged (U5, U6).",
  note="Re-registration right after unregister is kept out (self-conflict, DESIGN §12).",
  ref="§6 C09"),
 "C10": dict(
  technique="runtime monitor on both sides: responder reference model with known answers around the half-TTL boundary; every query of a browsing daemon parsed and its known answers checked against the delivered-record history",
  text="Responder: the C06 scenarios with 1-4 known answers per query drawn from the responder's own records with TTL in {0, 1, half-1, half, half+1, full, 2^32-1}, near misses (other RDATA, class, case), with/without cache-flush bit (K1, K2); what only a suppressed answer would have brought - SRV, TXT, addresses, the subtype's PTR - must stay out of the additional section (K2-additionals); near misses include a CNAME with the PTR's owner and target. Querier: a PTR of TTL {4, 10, 20, 120} s cached, the type browsed again at every age 0-100 % in 1 % steps and every 20 ms within 1.2 s of half life; every later query parsed: only shared records held with at least half their life left (K3), written with the remaining TTL (K4), on every interface and family (K5).",
  note="Ages within one second of the half life may or may not be listed; case-only matches may or may not suppress.",
  ref="§6 C10"),
 "C17": dict(
  technique="runtime trace monitor against the delivered-record history model for address records: every AddressesFound / AddressesRemoved / SearchTimeout / SearchStopped of a hostname search judged both ways",
  text="Hostname histories: resolve_hostname / stop with the name in any letter case, timeouts {none, 0, 1, 999, 1000, 1001, 1003, 1500, 3002, 7000 ms, 1 h}, a responder announcing 1-2 addresses at a time (v4/v6, owner in any case, TTLs 1-120 s, one of up to two interfaces or of two dual-stack links; alone or before / behind / inside the records of a service of an unbrowsed type), goodbyes, silent loss, queries answered or not, foreign records; observed 150 s past the last call; lazy and eager stepping, a sixth of the histories on a daemon woken up to 2 or 40 ms late: reported addresses are live and complete (H1), removals on time (H2), A and AAAA asked at once and refreshed (H3), timeouts exact (H4), no question and no event after the search ended (H5).",
  note="Each address record keeps one owner spelling and one TTL; late wake-ups are C11's quantifier.",
  ref="§6 C17"),
 "C18": dict(
  technique="runtime monitor: a selection model (call order, last match wins, later interfaces) compared at checkpoints with the daemon's interface table read from hooked state and with the links a fresh query leaves on; per-packet link/subnet rules on the simulated wire; event and cache-snapshot checks after interface loss",
  text="Part S: 1-4 interfaces (v4/v6/both, two subnets on one interface, secondary addresses inside one subnet, loopback) x 1-6 operations among enable/disable with every IfKind (All, IPv4, IPv6, Name, Addr present/absent/later, Loopback, IndexV4/V6, Predicate) and table edits (address added/removed/moved/renumbered inside its subnet, interface down/up/added/removed), announcements injected on links that are on or off (I3). Part E: up to three selection calls, then explicit and automatic addresses: packets about a service only where it has an address in the link's subnet, carrying only that link's addresses; automatic services follow new addresses, also after a prefix change or when an interface is re-created under a new index in one check (I1, I2); SRV/A/AAAA questions about an announced service are answered on the link and family it was announced on (I1-answered). Part P: instances (host names in mixed letter case in half of the cases) learned over two interfaces, then one disappears or is disabled wholly or by family: ServiceRemoved / re-resolved with what is left, nothing learned there reported again, nothing of it left in the cache; either interface may be the one that goes and in half of those cases the other follows (I4, I5).",
  note="Nothing is judged for one interface-check interval after a table edit (the daemon cannot know yet). One known finding (interface returning renumbered in one family, thorough tier) in known_findings.json.",
  ref="§6 C18"),
 "C20": dict(
  technique="runtime monitor of state size: the daemon's own metrics, a hooked full-state snapshot (map keys, records, timers, retransmissions) and paired 1x/4x traffic runs compared",
  text="Traffic scenarios (40-400 packets: announcements of types nobody browses, SRV/TXT/address records without PTR, NSEC, instances that come and go, PTR-only instances that never resolve, endless re-announcements, instances sharing one subtype of which one stays; TTLs to 120 s; with/without browse, hostname search (mixed-case names, asked twice, stopped in another spelling), own registration, accept_unsolicited; verify requests with time-outs up to an hour in the runs that end quiescent): after stopping every search and waiting max TTL + 3 s nothing is cached and at most the interface-check timer is left (G1); at checkpoints the cache holds no more than the open searches relate to, the instance-to-subtype map no more than the instances whose subtype PTR may be alive (G2); 4x the traffic ends with the same counts (G3); while registrations are still probing, 4x the unrelated questions or API calls leave the same number of timers and retransmissions (G4).",
  note="G2 allowance 2 x related + 8; G3 flags growth by more than 2x and more than 6. Four known findings (timer heap, PTR-less records, NSEC) in known_findings.json.",
  ref="§6 C20"),
}

NOT_YET = "monitor not built yet (work in progress; the technique family applies, see DESIGN.md §6)"

def main():
    commits = subprocess.check_output(["git", "-C", "/repo", "log", "--format=%h %s"]).decode().splitlines()
    hook_commits = [c.split()[0] for c in commits if c.split(" ", 1)[1].startswith("verif-hooks")]
    checks = []
    for pid in ALL:
        if pid not in CLAIMS:
            continue
        c = CLAIMS[pid]
        checks.append({
            "property_id": pid,
            "quick_cmd": f"./check {pid} quick",
            "thorough_cmd": f"./check {pid} thorough",
            "evidence_file": f"/verif/evidence/{pid}.json",
            "replay_cmd_template": "cat {path}  # witness (inputs as hex / operation trace); re-run: VERIF_SEED=<seed in file> ./check " + pid + " <tier in file>",
            "engine": "mdnsverif",
            "level_claimed": {"category": "exploration", "text": c["text"], "design_ref": c["ref"]},
            "level_note": c["note"],
            "technique": c["technique"],
        })
    m = {
        "version": 1,
        "setup_cmd": "cd /verif/harness && CARGO_NET_OFFLINE=true cargo build --offline --profile checked",
        "hooks": {
            "guard": "verif-hooks",
            "enable": "cargo feature verif-hooks of mdns-sd, switched on by the harness' path dependency (/verif/harness/Cargo.toml)",
            "baseline_off_cmd": "cd /repo && cargo test --workspace --no-fail-fast --offline",
            "source_commits": list(reversed(hook_commits)),
            "add_only": True,
        },
        "engines": [{
            "name": "mdnsverif",
            "path": "/verif/harness",
            "serves_properties": sorted(CLAIMS.keys()),
            "kind_free_text": "Rust harness: runs the real crate behind off-by-default hooks (virtual clock, in-memory sockets, scripted interface table and jitter, per-iteration gate, state snapshot, codec facade); monitors are trace checkers, reference-model comparisons and invariants; independent wire codec W; counting allocator; panic recorder.",
        }],
        "checks": checks,
        "notes": "All verdicts are about the executions produced (held on what was explored / violated with witness / inconclusive, exit 0/1/2). Known findings: /verif/known_findings.json. Design and adjudication log: /verif/DESIGN.md.",
        "not_applicable": [{"property_id": p, "reason": NOT_YET} for p in ALL if p not in CLAIMS],
    }
    json.dump(m, open("/verif/MANIFEST.json", "w"), indent=1)
    print("claimed:", sorted(CLAIMS.keys()))

main()
