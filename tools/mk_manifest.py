#!/usr/bin/env python3
"""Regenerates /verif/MANIFEST.json from the table below (kept in one place so that
claims, techniques and not_applicable stay consistent)."""
import json, subprocess

ALL = [f"C{n:02d}" for n in range(1, 21)]

CLAIMS = {
 "C01": dict(
  technique="runtime monitor over decoder executions: panic hook + read_name step counter hook + counting allocator + differential against an independent RFC 1035 parser, on random/mutated/grammar/exhaustive small-alphabet inputs",
  text="Every generated datagram (millions per run, plus every string over a 9-byte name alphabet up to length 6/7 behind four headers) is decoded by the real decoder under instrumentation: a panic, more than 128*len+1024 name-loop steps, more than 1024*len+1MiB peak heap, a name longer than the datagram, or any disagreement with the independent parser W on an accepted message is a violation. Held on the inputs explored; not a proof for all 2^72000 datagrams.",
  note="Trusts the independent parser W (harness/src/wire.rs), the step hook in read_name (loops elsewhere are bounded by 16-bit counts) and the counting allocator.",
  ref="§6 C01"),
 "C02": dict(
  technique="runtime differential monitor: messages built through the crate's encoder are parsed back by an independent parser and by the crate's decoder and compared with label-level ground truth",
  text="Tens of thousands (thorough: >1M) generated messages per run - small, near the 8972-byte limit, several packets long, with an over-size record followed by suffix-sharing records, with look-alike names (a\\.b vs a.b) and ServiceInfo-derived names - are encoded by the real encoder; every packet must be <= 8972 bytes, parse strictly, carry only added records in order with intact names, drop nothing that fits, set TC on all but the last packet, and read back identically through the crate's own decoder.",
  note="Trusts W. E4 allowance: in a response, additionals after the first one that does not fit may be left out (DESIGN §12).",
  ref="§6 C02"),
 "C11": dict(
  technique="runtime monitor against an exact integer model: real record life-time functions driven under a virtual clock (component), refresh/flush/expiry observed on the simulated wire (world)",
  text="Every TTL 1..600 (thorough ..3000) and large values up to u32::MAX are run through observation sequences (at the marks, +-1 ms around every boundary, skipping marks, with fresh copies) and each answer of the real record (expired, half-life, refresh due, written known-answer TTL) is compared with the model of the statement.",
  note="TTL<=1 carries no refresh obligation. World-level part (refresh queries, cache-flush rule, late wake-ups) is reported in the evidence when present.",
  ref="§6 C11"),
 "C16": dict(
  technique="runtime round-trip monitor: generated property lists through every input type -> ServiceInfo::new -> TXT RDATA (facade) -> independent TXT parser and the crate's public decoder, compared with the given list",
  text="Generated lists (empty/oversize/non-ASCII/'='-bearing keys, binary/empty/absent values, duplicates and case variants, sizes around 255) must either be refused at creation or arrive unchanged (keys, bytes, order, none-vs-empty, first duplicate wins, case-insensitive lookup); arbitrary and damaged byte strings must decode without panic into strings that lie inside the record.",
  note="A zero-length TXT string may be read as end-of-data or skipped. HashMap inputs holding case variants of one key are skipped (order undefined).",
  ref="§6 C16"),
 "C07": dict(
  technique="runtime trace monitor over the simulated wire: per registration x interface x family rules on probe count/spacing/content, announcement time, repeat and content, silence before the announcement",
  text="Thousands of generated registration scenarios (1-3 interfaces, v4/v6, 1-4 services, shared hosts, subtypes, automatic addresses, probing on/off, staggering, forced boundary jitters, queries injected while probing, an interface appearing later) run against the real daemon under a virtual clock; every packet it emits is parsed by the independent parser and checked against P1-P6 with exact virtual-time arithmetic (lazy stepping) or +g (eager).",
  note="Oversleep stepping excluded (schedule presumes the daemon is woken when it asks). Services sharing a host name use the same address set (otherwise the daemon conflicts with its own announcements, noted in DESIGN §12).",
  ref="§6 C07"),
 "C12": dict(
  technique="runtime differential monitor (same scenario woken only on request vs additionally every 10 ms) + invariant on hooked state at every loop iteration (requested wake-up <= every future due time) + idle-spin detector",
  text="Paired lazy/eager runs of registration, search, lost-tiebreak, interface-check-interval, expiry/goodbye/flush/verify/stop and follow-up scenarios: every action of the eager run must occur in the lazy run and not later (W1); at every gate of the lazy run the requested wake-up is compared with all pending due times read from a full state snapshot (W2); three idle iterations asking to be woken at or before their own time are a spin (W3).",
  note="Constant jitter per pair (HashMap visiting order must not change who gets which jitter). The interface-check timer is a local of the run loop: covered by W1 only.",
  ref="§6 C12"),
 "C13": dict(
  technique="runtime trace monitor: per-channel protocol automaton over delivered events plus a wire rule (no question for a stopped type/host until a new search starts), over generated API histories observed for hours of virtual time",
  text="Generated histories of browse / browse again / browse_cache / stop / resolve_hostname (timeouts, letter-case variants) / stop_resolve_hostname / dropped receivers / shutdown with packet arrivals, calls clustered +-1 ms around retransmission instants, watched for 20 s or 2-3 virtual hours: T1 first event SearchStarted, T2 Found before Resolved, T3 exactly one final SearchStopped (SearchTimeout first on timeout), T4 no query for the stopped name afterwards, T5 no replay from the cache on re-browse, T6 no query for a cache-only browse.",
  note="Services of browsed types live on hosts nobody resolves by name. One known finding (cache-only browse refreshes cached records) in known_findings.json.",
  ref="§6 C13"),
 "C14": dict(
  technique="runtime monitor over enumerated command-queue positions and iteration splits of shutdown (simulated daemon behind the gate) + real-thread stress with resolved-receiver check",
  text="Part A: shutdown at every position of every sequence of N<=1 (thorough N<=2) commands out of 20 kinds, released in one iteration or split over up to three, with 0-3 announced services and open searches, plus sampled sequences to N=8: goodbyes once per announced service x family (X1), one final SearchStopped per open search (X2), Shutdown reported and every later call refused (X3), every reply receiver ever handed out resolved or closed once the daemon thread ended (X4), no panic (X5), second shutdown harmless (X6). Part B: hundreds (thorough: 20000) of real daemons on private ports with 2-8 racing client threads.",
  note="Part B samples OS schedules. One known finding (residual send/exit race) in known_findings.json.",
  ref="§6 C14"),
 "C15": dict(
  technique="runtime crash/liveness monitor: panic hook + daemon-thread exit guard + post-input liveness probes, under hostile API arguments and hostile datagram streams in a simulated world with conflict injection",
  text="Thousands of cases of 1-3 hostile API calls (names from a hostile grammar incl. labels of 0-256 bytes, multi-byte boundaries, dots/backslashes, existing rename suffixes, totals around 255; extreme numbers), each followed by 6.3 virtual seconds in which every probe is answered with conflicting data, and hundreds of 20-80-datagram streams (random, mutated, grammar-hostile, and valid record chains with hostile labels that the daemon re-encodes in follow-ups); afterwards status must be Running, a fresh browse must start, and the browse opened before the input must still report a new instance.",
  note="Checked profile (overflow checks and debug assertions on), so overflow-only panics are reported too.",
  ref="§6 C15"),
 "C19": dict(
  technique="runtime trace monitor with attribution: every observed PTR/A/AAAA question is matched against the back-off chain of the running search, refresh marks computed from the delivered-record history, or a new-interface event; unexplained or missing queries are violations",
  text="The search histories of C13 over 20 s and 2-3 virtual hours plus lone searches over three virtual days: each chain instant (start, +1 s, +2 s ... doubling to 3600 s, relative to the previous actual query) must produce its query on every interface and family (B1), gaps never exceed one hour (B3), and every other query for the same question needs a refresh mark (80/85/90/95 %) of a live cached record or an interface arrival (B2).",
  note="Follow-up and verify queries ask other questions (instance ANY/SRV/TXT) and are not judged here.",
  ref="§6 C19"),
}

NOT_YET = "monitor not built yet (work in progress; the technique family applies, see DESIGN.md §6)"

def main():
    commits = subprocess.check_output(["git", "-C", "/repo", "log", "--format=%h %s"]).decode().splitlines()
    hook_commits = [c.split()[0] for c in commits if c.split(" ", 1)[1].startswith("verif-hooks")]
    checks = []
    for pid in ALL:
        if pid not in CLAIMS:
            continue
        c = CLAIMS[pid]
        checks.append({
            "property_id": pid,
            "quick_cmd": f"./check {pid} quick",
            "thorough_cmd": f"./check {pid} thorough",
            "evidence_file": f"/verif/evidence/{pid}.json",
            "replay_cmd_template": "cat {path}  # witness (inputs as hex / operation trace); re-run: VERIF_SEED=<seed in file> ./check " + pid + " <tier in file>",
            "engine": "mdnsverif",
            "level_claimed": {"category": "exploration", "text": c["text"], "design_ref": c["ref"]},
            "level_note": c["note"],
            "technique": c["technique"],
        })
    m = {
        "version": 1,
        "setup_cmd": "cd /verif/harness && CARGO_NET_OFFLINE=true cargo build --offline --profile checked",
        "hooks": {
            "guard": "verif-hooks",
            "enable": "cargo feature verif-hooks of mdns-sd, switched on by the harness' path dependency (/verif/harness/Cargo.toml)",
            "baseline_off_cmd": "cd /repo && cargo test --workspace --no-fail-fast --offline",
            "source_commits": list(reversed(hook_commits)),
            "add_only": True,
        },
        "engines": [{
            "name": "mdnsverif",
            "path": "/verif/harness",
            "serves_properties": sorted(CLAIMS.keys()),
            "kind_free_text": "Rust harness: runs the real crate behind off-by-default hooks (virtual clock, in-memory sockets, scripted interface table and jitter, per-iteration gate, state snapshot, codec facade); monitors are trace checkers, reference-model comparisons and invariants; independent wire codec W; counting allocator; panic recorder.",
        }],
        "checks": checks,
        "notes": "All verdicts are about the executions produced (held on what was explored / violated with witness / inconclusive, exit 0/1/2). Known findings: /verif/known_findings.json. Design and adjudication log: /verif/DESIGN.md.",
        "not_applicable": [{"property_id": p, "reason": NOT_YET} for p in ALL if p not in CLAIMS],
    }
    json.dump(m, open("/verif/MANIFEST.json", "w"), indent=1)
    print("claimed:", sorted(CLAIMS.keys()))

main()
