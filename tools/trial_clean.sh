#!/bin/sh
# usage: tools/trial_clean.sh <id>... : runs the trial harness (see trial_env.sh) on the unchanged trial repo
T=/tmp/trial
git -C $T/repo checkout -q -- .
( cd $T/harness && CARGO_NET_OFFLINE=true cargo build --offline --profile checked > $T/build.log 2>&1 ) || { echo build failed; grep -E "^error" -A8 $T/build.log | head -20; exit 2; }
for id in "$@"; do ( cd $T/out && VERIF_SEED=${VERIF_SEED:-1} VERIF_THREADS=${VERIF_THREADS:-6} $T/target/checked/check "$id" quick 2>&1 | grep -a "VIOLATION\|signature=\|HELD\|INCONCL\|activations" | grep -av KNOWN | cut -c1-260 | head -8 ); done
